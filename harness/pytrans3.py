"""Third translator layer: the asynchronous command handlers of `connection.py` as Lean functions.

A handler is a coroutine method of `Connection` that mutates the connection's objects and talks to the outside only
through `await self.stream.write(...)`, `await self.stream.drain()` and `await self.session.<...>()`.  It is translated
(statement by statement, on top of `pytrans2.Translator`) into a function

    handler (self : Connection S) (data : Bytes) : Except (Connection S) (Connection S)

where the connection record carries the registry of prepared statements and `out`, the list of outside effects in the
order the code performs them (`Ev.write pkt drain`, `Ev.drain`, `Ev.session_reset`).  An exception is `Except.error self`
with the object state **at the time of the raise**: what was already written and mutated stays visible, exactly as
in Python (the Option monad of `pytrans2` would forget it).

Object aliasing: `stmt = self.get_stmt(k)` makes `stmt` a reference into `self.prepared_stmts`.  The translation keeps a
local copy and writes it back into the registry after every mutation of the local (`stmt.f = v`, one pull from
`stmt.cursor`), so that the registry always holds what the Python object holds.

`async for x in cooperative_iterate(stmt.cursor): …` (with `break`) becomes `Mimic.Py.Gen.iterE`: structural recursion
over the items the generator will still yield; every pull updates the generator stored in the statement; `break` leaves
the rest in place; a raising generator ends the handler with `Except.error` *after* the pull was recorded.
`await` is transparent (scheduling is the subject of the connection machine, not of this translation);
`cooperative_iterate` / `aiterate` are the identity on the sequence of items.
"""
import ast
import inspect
import sys

from pytrans import Untranslatable
from pytrans2 import (Translator, Fn, Ctx, ind, lean_type, NAT, INT, BOOL, BYTES, STR, VAL, NONE, CS, T_opt, T_list, T_tuple, T_dict,
                      T_rec, dataclass_fields, lib_fns)
import pytrans2

GEN = ("gen", BYTES)
_old_lean_type = pytrans2.lean_type


def _lean_type(t):
    if t[0] == "gen":
        return "(Mimic.Py.Gen %s)" % _lean_type(t[1])
    if t[0] == "opt":
        return "(Option %s)" % _lean_type(t[1])
    if t[0] == "dict":
        return "(List (%s × %s))" % (_lean_type(t[1]), _lean_type(t[2]))
    return _old_lean_type(t)


pytrans2.lean_type = _lean_type
lean_type = _lean_type

ITER_WRAPPERS = ("cooperative_iterate", "aiterate")


def strip_iter(n):
    while isinstance(n, ast.Call) and isinstance(n.func, ast.Name) and n.func.id in ITER_WRAPPERS and len(n.args) == 1:
        n = n.args[0]
    return n


class ConnTranslator(Translator):
    """expression forms of `connection.py` that stand for something outside the translated fragment (function parameters
    of the generated definitions): the number of placeholders of a statement text (`REGEX_PARAM`, pinned by C06's source
    facts) and the column definition sent for a parameter placeholder"""

    def call(self, n, c, binds, want=None):
        f = n.func
        if isinstance(f, ast.Name) and f.id == "len" and len(n.args) == 1 and isinstance(n.args[0], ast.Call) \
                and ast.unparse(n.args[0].func) == "REGEX_PARAM.findall" and len(n.args[0].args) == 1:
            a, ta = self.ex(n.args[0].args[0], c, binds)
            if ta != STR:
                raise Untranslatable("REGEX_PARAM.findall on " + lean_type(ta))
            return "(count_params %s)" % a, NAT
        if ast.unparse(f) == "packets.make_column_definition_41":
            kw = {k.arg: ast.unparse(k.value) for k in n.keywords}
            if not n.args and kw == {"server_charset": "self.server_charset", "name": "'?'"}:
                return "(param_coldef self.server_charset)", BYTES
            # the definition of a result column: name, type and character set of that column, the connection's results set
            col = kw.get("name", "").split(".")[0]
            if not n.args and col in c.env and c.env[col] == NAT and kw == {"server_charset": "self.server_charset", "name": col + ".name",
                                                                            "column_type": col + ".type", "character_set": col + ".character_set"}:
                return "(coldef self.server_charset %s)" % col, BYTES
            raise Untranslatable("column definition " + ast.unparse(n)[:80])
        if ast.unparse(f) == "make_column_definition_41":
            kw = {k.arg: ast.unparse(k.value) for k in n.keywords}
            row = kw.get("name", "")[:-3]
            tb = kw.get("table", "").split(".")[0]
            if not n.args and row in c.env and c.env[row] == BYTES and c.env.get(tb) == T_rec("ComFieldList") and kw == {
                    "server_charset": "self.server_charset", "table": tb + ".table", "name": row + "[0]", "is_com_field_list": "True", "default": row + "[4]"}:
                # the definition COM_FIELD_LIST sends for one row of the SHOW COLUMNS answer (name = row[0], default = row[4])
                return "(field_coldef self.server_charset %s.table %s)" % (tb, row), BYTES
            raise Untranslatable("column definition " + ast.unparse(n)[:80])
        if ast.unparse(f) == "packets.make_text_resultset_row" and len(n.args) == 2 and isinstance(n.args[0], ast.Name) \
                and c.env.get(n.args[0].id) == BYTES and isinstance(n.args[1], ast.Attribute) and n.args[1].attr == "columns":
            # `ResultSet.rows` stands for the packets the rows encode to (see the nested generator of handle_stmt_execute)
            return n.args[0].id, BYTES
        if isinstance(f, ast.Attribute) and isinstance(f.value, ast.Name) and f.value.id == "packets" and ("packets." + f.attr) in self.fns:
            return self.call_fn(self.fns["packets." + f.attr], n.args, n.keywords, c, binds)
        return super().call(n, c, binds, want)

    def truth(self, e, t):
        if t == T_rec("ResultSet"):
            return "(!(%s.columns).isEmpty)" % e          # ResultSet.__bool__ (checked by translate_handlers)
        return super().truth(e, t)

    def generator_as_list(self, name, lean_name, self_type, elem=BYTES):
        """a generator method (`yield e` …) as the function that returns the list of what it yields, in order"""
        f = self.find(name)
        import copy
        g = copy.deepcopy(f)

        class Y(ast.NodeTransformer):
            def visit_Expr(self, node):
                if isinstance(node.value, ast.Yield) and node.value.value is not None:
                    return ast.copy_location(ast.Expr(value=ast.Call(func=ast.Attribute(value=ast.Name(id="yielded", ctx=ast.Load()), attr="append", ctx=ast.Load()),
                                                                      args=[node.value.value], keywords=[])), node)
                return node
        g = Y().visit(g)
        for x in ast.walk(g):
            if isinstance(x, (ast.Yield, ast.YieldFrom)):
                raise Untranslatable("yield in an expression position in " + name)
        g.body = [ast.AnnAssign(target=ast.Name(id="yielded", ctx=ast.Store()), annotation=ast.parse("List[bytes]", mode="eval").body,
                                value=ast.List(elts=[], ctx=ast.Load()), simple=1)] + list(g.body) + [ast.Return(value=ast.Name(id="yielded", ctx=ast.Load()))]
        ast.fix_missing_locations(g)
        saved = self.find
        self.find = lambda nm: g if nm == name else saved(nm)
        try:
            text = self.function(name, lean_name, self_type=self_type, ret=T_list(elem))
        finally:
            self.find = saved
        # callers pass on the parameters that stand for the outside
        head = text[text.index("def %s" % lean_name):].split(":=")[0]
        extras = [pn for pn, _ in getattr(self, "extra_params", []) if "(%s :" % pn in head]
        if extras:
            self.fns[name].lean = "%s %s" % (lean_name, " ".join(extras))
        return text


class HandlerTranslator(ConnTranslator):
    """statements of a coroutine handler in the monad `Except (Connection S)` (see the module docstring)"""
    REG = "prepared_stmts"

    # ------------------------------------------------------------ monad
    def m_ok(self, x):
        return "Except.ok %s" % x

    def m_fail(self):
        return "Except.error self"

    def m_bind(self, term, pat, body):
        return "match %s with\n| .error e => .error e\n| .ok %s =>\n%s" % (term, pat, ind(body))

    def result(self, c, e):
        r = "self" if e == "()" else "(%s, self)" % e
        if getattr(c, "in_loop", False):
            return "Except.ok (Mimic.Py.Step.ret %s)" % r
        return "Except.ok %s" % r

    def enum_value(self, n):
        # types.ServerStatus.X
        if isinstance(n, ast.Attribute) and isinstance(n.value, ast.Attribute) and isinstance(n.value.value, ast.Name) \
                and n.value.value.id == "types" and n.value.attr in self.enums and n.attr in self.enums[n.value.attr]:
            return self.enums[n.value.attr][n.attr]
        return super().enum_value(n)

    # ------------------------------------------------------------ aliases
    def writeback(self, var, c):
        key = c.aliases[var]
        return "let self := { self with %s := Mimic.Py.dictSet self.%s %s %s }\n" % (self.REG, self.REG, key, var)

    def assigned(self, stmts, c):
        out = super().assigned(stmts, c)
        aliases = getattr(c, "aliases", {})

        def add(x):
            if x not in out:
                out.append(x)
        for s in stmts:
            for x in ast.walk(s):
                if isinstance(x, ast.Await):
                    add("self")
                if isinstance(x, (ast.Assign, ast.AugAssign)):
                    for t in (x.targets if isinstance(x, ast.Assign) else [x.target]):
                        if isinstance(t, ast.Attribute) and isinstance(t.value, ast.Name) and t.value.id in aliases:
                            add(t.value.id)
                            add("self")
                if isinstance(x, ast.AsyncFor):
                    it = strip_iter(x.iter)
                    if isinstance(it, ast.Attribute) and isinstance(it.value, ast.Name):
                        add(it.value.id)
                        add("self")
                    for nm in super().assigned(list(x.body), c):
                        add(nm)
                if isinstance(x, ast.Call) and isinstance(x.func, ast.Attribute) and x.func.attr in ("setdefault", "extend") \
                        and isinstance(x.func.value, ast.Attribute) and isinstance(x.func.value.value, ast.Name) and x.func.value.value.id in aliases:
                    add(x.func.value.value.id)
                    add("self")
        return out

    def assign(self, tg, value, c, cont):
        aliases = getattr(c, "aliases", {})
        if isinstance(value, ast.Await):
            value = value.value
        # stmt = self.get_stmt(k): a reference into the registry
        if isinstance(tg, ast.Name) and isinstance(value, ast.Call) and ast.unparse(value.func) == "self.get_stmt" and len(value.args) == 1:
            binds = []
            kx, tk = self.ex(value.args[0], c, binds)
            key = c.fresh("key")
            fn = self.fns["Connection.get_stmt"]
            c.aliases = dict(aliases)
            c.aliases[tg.id] = key
            c.env[key] = NAT
            c.env[tg.id] = fn.ret
            return self.wrap(binds, "let %s : Nat := %s\n%s" % (key, kx, self.m_bind_opt("%s self %s" % (fn.lean, key), tg.id, cont(c))))
        # x = packets.parse_com_stmt_execute(…, get_stmt=self.get_stmt): the parser is a parameter here (it is translated and
        # proved in ExecuteCode); x.stmt is the registry's object for x.stmt.stmt_id
        if isinstance(tg, ast.Name) and isinstance(value, ast.Call) and ast.unparse(value.func) == "packets.parse_com_stmt_execute":
            kw = {k.arg: ast.unparse(k.value) for k in value.keywords}
            if value.args or kw != {"capabilities": "self.capabilities", "client_charset": "self.client_charset", "data": "data", "get_stmt": "self.get_stmt"}:
                raise Untranslatable("parse_com_stmt_execute called with " + ast.unparse(value)[:100])
            c.env[tg.id] = T_rec("ComStmtExecute")
            c.field_aliases = dict(getattr(c, "field_aliases", {}))
            c.field_aliases[tg.id] = "stmt"
            return self.m_bind_opt("parse_execute self data", tg.id, cont(c))
        # rs = await self.query(x.sql, x.query_attrs): the application's answer to that text is a parameter (the attributes only
        # travel along; an application whose answer depends on them is one such function per attribute set); `none`: it raised
        if isinstance(tg, ast.Name) and isinstance(value, ast.Call) and ast.unparse(value.func) == "self.query" and len(value.args) == 2 \
                and isinstance(value.args[0], ast.Attribute) and isinstance(value.args[0].value, ast.Name) \
                and c.env.get(value.args[0].value.id) in (T_rec("ComStmtExecute"), T_rec("ComQuery")) \
                and ast.unparse(value.args[0]) == value.args[0].value.id + ".sql" and ast.unparse(value.args[1]) == value.args[0].value.id + ".query_attrs":
            c.env[tg.id] = T_rec("ResultSet")
            return self.m_bind_opt("app_query %s.sql" % value.args[0].value.id, tg.id, cont(c))
        # result = await self.query(sql=sql, query_attrs={})
        if isinstance(tg, ast.Name) and isinstance(value, ast.Call) and ast.unparse(value.func) == "self.query" and not value.args \
                and {k.arg: ast.unparse(k.value) for k in value.keywords} == {"sql": "sql", "query_attrs": "{}"} and c.env.get("sql") == STR:
            c.env[tg.id] = T_rec("ResultSet")
            return self.m_bind_opt("app_query sql", tg.id, cont(c))
        # sql = com_field_list_to_show_statement(com_field_list): the SHOW COLUMNS text (schema.py, C16's subject)
        if isinstance(tg, ast.Name) and isinstance(value, ast.Call) and ast.unparse(value.func) == "com_field_list_to_show_statement" \
                and len(value.args) == 1 and isinstance(value.args[0], ast.Name) and c.env.get(value.args[0].id) == T_rec("ComFieldList"):
            c.env[tg.id] = STR
            return "let %s : S := field_list_sql %s\n%s" % (tg.id, value.args[0].id, cont(c))
        # rows = gen_rows(): the nested generator that encodes the rows of the result (see block)
        if isinstance(tg, ast.Name) and isinstance(value, ast.Call) and isinstance(value.func, ast.Name) \
                and value.func.id in getattr(c, "row_generators", {}) and not value.args:
            c.env[tg.id] = GEN
            return "let %s : %s := %s.rows\n%s" % (tg.id, lean_type(GEN), c.row_generators[value.func.id], cont(c))
        # x.stmt.f = v: a field of the registry's object reached through the record x
        fa = getattr(c, "field_aliases", {})
        if isinstance(tg, ast.Attribute) and isinstance(tg.value, ast.Attribute) and isinstance(tg.value.value, ast.Name) \
                and fa.get(tg.value.value.id) == tg.value.attr:
            x, fld = tg.value.value.id, tg.value.attr
            ft = [f[1] for f in self.records["PreparedStatement"] if f[0] == tg.attr]
            if not ft:
                raise Untranslatable("field " + tg.attr)
            binds, e, t = self.expr(value, c, ft[0])
            return self.wrap(binds, "let %s := { %s with %s := { %s.%s with %s := %s } }\n"
                             "let self := { self with %s := Mimic.Py.dictSet self.%s %s.%s.stmt_id %s.%s }\n%s" % (
                                 x, x, fld, x, fld, tg.attr, self.coerce(e, t, ft[0]), self.REG, self.REG, x, fld, x, fld, cont(c)))
        # stmt.f = v on a reference: update the local copy, then the registry
        if isinstance(tg, ast.Attribute) and isinstance(tg.value, ast.Name) and tg.value.id in aliases:
            var = tg.value.id
            return super().assign(tg, value, c, lambda c2: self.writeback(var, c2) + cont(c2))
        return super().assign(tg, value, c, cont)

    # ------------------------------------------------------------ statements
    def block(self, stmts, c, k):
        if not stmts:
            return k(c)
        s, rest = stmts[0], stmts[1:]
        cont = lambda c2: self.block(rest, c2, k)
        aliases = getattr(c, "aliases", {})
        if isinstance(s, ast.Break):
            if getattr(c, "brk", None) is None:
                raise Untranslatable("break outside a translated loop")
            return c.brk(c)
        if isinstance(s, ast.Assert):
            t = s.test
            if isinstance(t, ast.Compare) and len(t.ops) == 1 and isinstance(t.ops[0], ast.IsNot) and isinstance(t.comparators[0], ast.Constant) \
                    and t.comparators[0].value is None:
                binds, e, te = self.expr(t.left, c)
                if te[0] != "opt":
                    raise Untranslatable("assert … is not None on " + lean_type(te))
                return self.wrap(binds, "if (%s).isNone then\n%s\nelse\n%s" % (e, ind(self.m_fail()), ind(cont(c))))      # AssertionError
            raise Untranslatable("assert " + ast.unparse(t)[:60])
        if isinstance(s, ast.Expr) and isinstance(s.value, ast.Await) and isinstance(s.value.value, ast.Call):
            call = s.value.value
            f = ast.unparse(call.func)
            if f == "self.stream.write" and len(call.args) == 1:
                drain = "true"
                for kw in call.keywords:
                    if kw.arg == "drain" and isinstance(kw.value, ast.Constant) and isinstance(kw.value.value, bool):
                        drain = "true" if kw.value.value else "false"
                    else:
                        raise Untranslatable("stream.write keyword " + ast.unparse(kw))
                binds, e, t = self.expr(call.args[0], c, BYTES)
                if t != BYTES:
                    raise Untranslatable("stream.write of " + lean_type(t))
                return self.wrap(binds, "let self := { self with out := self.out ++ [Ev.write %s %s] }\n%s" % (e, drain, cont(c)))
            if f == "self.stream.drain" and not call.args and not call.keywords:
                return "let self := { self with out := self.out ++ [Ev.drain] }\n%s" % cont(c)
            if f == "self.session.reset" and not call.args and not call.keywords:
                return "let self := { self with out := self.out ++ [Ev.session_reset] }\n%s" % cont(c)
            if f == "self.session.use" and len(call.args) == 1 and not call.keywords:
                # the application's `use` callback: it is told the database; it may raise (`use_raises`)
                binds, e, t = self.expr(call.args[0], c, STR)
                if t != STR:
                    raise Untranslatable("session.use of " + lean_type(t))
                return self.wrap(binds, "let self := { self with out := self.out ++ [Ev.session_use %s] }\nif use_raises %s then\n%s\nelse\n%s" % (
                    e, e, ind(self.m_fail()), ind(cont(c))))
            raise Untranslatable("await " + f)
        # stmt = self.prepared_stmts.get(k) ; if stmt is None: <terminating>
        if isinstance(s, ast.Assign) and len(s.targets) == 1 and isinstance(s.targets[0], ast.Name) and isinstance(s.value, ast.Call) \
                and ast.unparse(s.value.func) == "self.%s.get" % self.REG and len(s.value.args) == 1 and rest \
                and isinstance(rest[0], ast.If) and ast.unparse(rest[0].test) == "%s is None" % s.targets[0].id \
                and self.terminates(rest[0].body) and not rest[0].orelse:
            var = s.targets[0].id
            binds = []
            kx, tk = self.ex(s.value.args[0], c, binds)
            key = c.fresh("key")
            absent = self.block(list(rest[0].body), c.copy(), None)
            c2 = c.copy()
            c2.aliases = dict(aliases)
            c2.aliases[var] = key
            c2.env[key] = NAT
            c2.env[var] = T_rec("PreparedStatement")
            present = self.block(rest[1:], c2, k)
            return self.wrap(binds, "let %s : Nat := %s\nmatch Mimic.Py.dictGet self.%s %s with\n| none =>\n%s\n| some %s =>\n%s" % (
                key, kx, self.REG, key, ind(absent), var, ind(present)))
        # buffer = stmt.f.setdefault(k, bytearray()) ; buffer.extend(v)
        if isinstance(s, ast.Assign) and len(s.targets) == 1 and isinstance(s.targets[0], ast.Name) and isinstance(s.value, ast.Call) \
                and isinstance(s.value.func, ast.Attribute) and s.value.func.attr == "setdefault" and len(s.value.args) == 2 \
                and ast.unparse(s.value.args[1]) == "bytearray()" and isinstance(s.value.func.value, ast.Attribute) \
                and isinstance(s.value.func.value.value, ast.Name) and s.value.func.value.value.id in aliases and rest \
                and isinstance(rest[0], ast.Expr) and isinstance(rest[0].value, ast.Call) \
                and ast.unparse(rest[0].value.func) == "%s.extend" % s.targets[0].id and len(rest[0].value.args) == 1 \
                and not any(isinstance(x, ast.Name) and x.id == s.targets[0].id for st in rest[1:] for x in ast.walk(st)):
            var, fld = s.value.func.value.value.id, s.value.func.value.attr
            ft = [x[1] for x in self.records[c.env[var][1]] if x[0] == fld]
            if not ft or ft[0] != T_opt(T_dict(NAT, BYTES)):
                raise Untranslatable("setdefault on " + fld)
            binds = []
            kx, tk = self.ex(s.value.args[0], c, binds)
            vx, tv = self.ex(rest[0].value.args[0], c, binds, BYTES)
            bufs = c.fresh("bufs")
            body = "let %s := { %s with %s := some (Mimic.Py.dictSet %s %s (((Mimic.Py.dictGet %s %s).getD []) ++ %s)) }\n%s%s" % (
                var, var, fld, bufs, kx, bufs, kx, vx, self.writeback(var, c), self.block(rest[1:], c, k))
            # `None.setdefault` would be an AttributeError
            return self.wrap(binds, "match %s.%s with\n| none => %s\n| some %s =>\n%s" % (var, fld, self.m_fail(), bufs, ind(body)))
        # async def gen_rows(): async for r in cooperative_iterate(aiterate(rs.rows)): yield packets.make_binary_resultrow(r, rs.columns)
        # — the lazily encoded rows of a result: `ResultSet.rows` stands for the packets this generator yields (what
        # make_binary_resultrow does to one row is RowsCode's subject; an encoding error is a generator that raises there)
        if isinstance(s, ast.AsyncFunctionDef) and not s.args.args and len(s.body) == 1 and isinstance(s.body[0], ast.AsyncFor):
            lp = s.body[0]
            it = strip_iter(lp.iter)
            ok = (isinstance(it, ast.Attribute) and it.attr == "rows" and isinstance(it.value, ast.Name) and c.env.get(it.value.id) == T_rec("ResultSet")
                  and isinstance(lp.target, ast.Name) and len(lp.body) == 1 and isinstance(lp.body[0], ast.Expr) and isinstance(lp.body[0].value, ast.Yield)
                  and ast.unparse(lp.body[0].value.value) == "packets.make_binary_resultrow(%s, %s.columns)" % (lp.target.id, it.value.id))
            if not ok:
                raise Untranslatable("nested generator " + s.name)
            c.row_generators = dict(getattr(c, "row_generators", {}))
            c.row_generators[s.name] = it.value.id
            return cont(c)
        # async for p in self.G(args): BODY   with G an async generator METHOD: exactly G's body with every `yield e` replaced by
        # BODY[p := e] (a generator consumed by a loop without break runs in lock step with it)
        if isinstance(s, ast.AsyncFor) and isinstance(s.iter, ast.Call) and isinstance(s.iter.func, ast.Attribute) \
                and isinstance(s.iter.func.value, ast.Name) and s.iter.func.value.id == "self" and not s.orelse \
                and isinstance(s.target, ast.Name) and not any(isinstance(x, (ast.Break, ast.Continue, ast.Return)) for st in s.body for x in ast.walk(st)):
            try:
                g = self.find("Connection." + s.iter.func.attr)
            except Untranslatable:
                g = None
            if isinstance(g, ast.AsyncFunctionDef) and any(isinstance(x, ast.Yield) for x in ast.walk(g)):
                import copy
                params = [a.arg for a in g.args.args if a.arg != "self"]
                if len(params) != len(s.iter.args) or s.iter.keywords or not all(isinstance(a, ast.Name) for a in s.iter.args):
                    raise Untranslatable("generator call " + ast.unparse(s.iter))
                rename = {p: a.id for p, a in zip(params, s.iter.args)}
                target, body = s.target.id, s.body

                class Inline(ast.NodeTransformer):
                    def visit_Name(self, node):
                        if node.id in rename:
                            return ast.copy_location(ast.Name(id=rename[node.id], ctx=node.ctx), node)
                        return node

                    def visit_Expr(self, node):
                        if isinstance(node.value, ast.Yield) and node.value.value is not None:
                            val = self.visit(copy.deepcopy(node.value.value))

                            class Sub(ast.NodeTransformer):
                                def visit_Name(self2, n2):
                                    return copy.deepcopy(val) if n2.id == target else n2
                            return [Sub().visit(copy.deepcopy(b)) for b in body]
                        return self.generic_visit(node)
                inl = [Inline().visit(copy.deepcopy(st)) for st in g.body
                       if not (isinstance(st, ast.Expr) and isinstance(st.value, ast.Constant))]
                flat = []
                for x in inl:
                    flat.extend(x if isinstance(x, list) else [x])
                for x in flat:
                    ast.fix_missing_locations(x)
                    for y in ast.walk(x):
                        if isinstance(y, (ast.Yield, ast.YieldFrom)):
                            raise Untranslatable("yield in an expression position in " + s.iter.func.attr)
                return self.block(flat + list(rest), c, k)
        if isinstance(s, ast.AsyncFor):
            it0 = strip_iter(s.iter)
            if isinstance(it0, ast.Name) and c.env.get(it0.id) == GEN:
                return self.async_for_local(s, c, cont, it0.id)
            if isinstance(it0, ast.Attribute) and it0.attr == "rows" and isinstance(it0.value, ast.Name) and c.env.get(it0.value.id) == T_rec("ResultSet"):
                return self.async_for_local(s, c, cont, "%s.rows" % it0.value.id)
        if isinstance(s, ast.AsyncFor):
            return self.async_for(s, c, cont)
        # for packet in <list of packets>: await self.stream.write(packet, drain=…)
        if isinstance(s, ast.For) and not s.orelse and isinstance(s.target, ast.Name) and len(s.body) == 1 \
                and isinstance(s.body[0], ast.Expr) and isinstance(s.body[0].value, ast.Await) and isinstance(s.body[0].value.value, ast.Call) \
                and ast.unparse(s.body[0].value.value.func) == "self.stream.write" and len(s.body[0].value.value.args) == 1 \
                and ast.unparse(s.body[0].value.value.args[0]) != s.target.id:
            # for x in xs: await self.stream.write(F(x)[, drain=…]) with an effect-free F
            call = s.body[0].value.value
            drain = "true"
            for kw in call.keywords:
                if kw.arg == "drain" and isinstance(kw.value, ast.Constant) and isinstance(kw.value.value, bool):
                    drain = "true" if kw.value.value else "false"
                else:
                    raise Untranslatable("stream.write keyword " + ast.unparse(kw))
            binds, e, t = self.expr(s.iter, c)
            if t[0] != "list":
                raise Untranslatable("for over " + lean_type(t))
            cb = c.copy()
            cb.env[s.target.id] = t[1]
            b2, fe, ft = self.expr(call.args[0], cb, BYTES)
            if b2 or ft != BYTES:
                raise Untranslatable("the packet written in the loop may raise: " + ast.unparse(call.args[0])[:60])
            return self.wrap(binds, "let self := { self with out := self.out ++ (%s).map (fun %s => Ev.write %s %s) }\n%s" % (e, s.target.id, fe, drain, cont(c)))
        if isinstance(s, ast.For) and not s.orelse and isinstance(s.target, ast.Name) and len(s.body) == 1 \
                and isinstance(s.body[0], ast.Expr) and isinstance(s.body[0].value, ast.Await) and isinstance(s.body[0].value.value, ast.Call) \
                and ast.unparse(s.body[0].value.value.func) == "self.stream.write" and len(s.body[0].value.value.args) == 1 \
                and ast.unparse(s.body[0].value.value.args[0]) == s.target.id:
            call = s.body[0].value.value
            drain = "true"
            for kw in call.keywords:
                if kw.arg == "drain" and isinstance(kw.value, ast.Constant) and isinstance(kw.value.value, bool):
                    drain = "true" if kw.value.value else "false"
                else:
                    raise Untranslatable("stream.write keyword " + ast.unparse(kw))
            binds, e, t = self.expr(s.iter, c)
            if t != T_list(BYTES):
                raise Untranslatable("for over " + lean_type(t))
            return self.wrap(binds, "let self := { self with out := self.out ++ (%s).map (fun p => Ev.write p %s) }\n%s" % (e, drain, cont(c)))
        return super().block(stmts, c, k)

    def async_for(self, s, c, cont):
        if s.orelse:
            raise Untranslatable("async for … else")
        aliases = getattr(c, "aliases", {})
        it = strip_iter(s.iter)
        if not (isinstance(it, ast.Attribute) and isinstance(it.value, ast.Name) and it.value.id in aliases):
            raise Untranslatable("async for over " + ast.unparse(s.iter))
        var, fld = it.value.id, it.attr
        ft = [x[1] for x in self.records[c.env[var][1]] if x[0] == fld]
        if not ft or ft[0] != T_opt(GEN):
            raise Untranslatable("async for over a field of type " + (lean_type(ft[0]) if ft else "?"))
        if not isinstance(s.target, ast.Name):
            raise Untranslatable("async for target")
        x = s.target.id
        names = [nm for nm in self.assigned([s], c) if nm in c.env and nm != x]
        for must in (var, "self"):
            if must not in names:
                names.append(must)
        before = {nm: c.env[nm] for nm in names}
        sty = self.state_type(names, before, False)
        rett = lean_type(c.env["self"])

        def pack(c2):
            items = [self.coerce(nm, c2.env[nm], before[nm]) for nm in names]
            return items[0] if len(items) == 1 else "(" + ", ".join(items) + ")"
        spat = self.state(names, c, False)
        cb = c.copy()
        cb.env[x] = GEN[1]
        cb.in_loop = True
        cb.brk = lambda c2: "Except.ok (Mimic.Py.Step.brk %s)" % pack(c2)
        body = self.block(list(s.body), cb, lambda c2: "Except.ok (Mimic.Py.Step.next %s)" % pack(c2))
        bound = set(names) | {x}
        item = self.lift(c, "item", [x, spat], body, "%s → %s → Except %s (Step %s %s)" % (lean_type(GEN[1]), sty, rett, sty, rett), bound)
        g = c.fresh("g")
        # the generator's new state goes into the statement and the statement into the registry (named definitions, so
        # that proofs can refer to them)
        upd = self.lift(c, "upd", ["g", spat], "let %s := { %s with %s := some g }\n%s%s" % (var, var, fld, self.writeback(var, c), pack(c)),
                        "%s → %s → %s" % (lean_type(GEN), sty, sty), bound)
        err = self.lift(c, "err", [spat], "self", "%s → %s" % (sty, rett), bound)
        c3 = c.copy()
        opat = self.state(names, c3, False)
        loop = "Mimic.Py.Gen.iterE (σ := %s) (ρ := %s) %s %s %s %s.rows %s.boom %s" % (sty, rett, upd, err, item, g, g, self.state(names, c, False))
        # a `return` inside the body leaves the function (only meaningful when the loop is not inside a join: Lean's type
        # checker rejects the other case); without one the `.ret` arm is unreachable
        has_ret = any(isinstance(n, ast.Return) for st in s.body for n in ast.walk(st))
        ret_arm = ".ok a" if has_ret else self.m_fail()
        return ("match %s.%s with\n| none => %s\n| some %s =>\n" % (var, fld, self.m_fail(), g)
                + ind("match %s with\n| .error e => .error e\n| .ok (Mimic.Py.Step.ret %s) => %s\n| .ok (Mimic.Py.Step.next _) => %s\n| .ok (Mimic.Py.Step.brk %s) =>\n%s"
                      % (loop, "a" if has_ret else "_", ret_arm, self.m_fail(), opat, ind(cont(c3)))))

    def async_for_local(self, s, c, cont, g):
        """`async for x in g: body` over a generator held in a local variable / a result's row source, not used afterwards"""
        if s.orelse or not isinstance(s.target, ast.Name):
            raise Untranslatable("async for … else / target")
        x = s.target.id
        names = [nm for nm in self.assigned([s], c) if nm in c.env and nm not in (x, g)]
        if "self" not in names:
            names.append("self")
        before = {nm: c.env[nm] for nm in names}
        sty = self.state_type(names, before, False)
        rett = lean_type(c.env["self"])

        def pack(c2):
            items = [self.coerce(nm, c2.env[nm], before[nm]) for nm in names]
            return items[0] if len(items) == 1 else "(" + ", ".join(items) + ")"
        spat = self.state(names, c, False)
        cb = c.copy()
        cb.env[x] = GEN[1]
        cb.in_loop = True
        cb.brk = lambda c2: "Except.ok (Mimic.Py.Step.brk %s)" % pack(c2)
        body = self.block(list(s.body), cb, lambda c2: "Except.ok (Mimic.Py.Step.next %s)" % pack(c2))
        bound = set(names) | {x}
        item = self.lift(c, "item", [x, spat], body, "%s → %s → Except %s (Step %s %s)" % (lean_type(GEN[1]), sty, rett, sty, rett), bound)
        err = self.lift(c, "err", [spat], "self", "%s → %s" % (sty, rett), bound)
        c3 = c.copy()
        if "." not in g:
            c3.env.pop(g, None)      # the generator object is consumed by the loop
        opat = self.state(names, c3, False)
        has_ret = any(isinstance(n, ast.Return) for st in s.body for n in ast.walk(st))
        loop = "Mimic.Py.Gen.iterE (σ := %s) (ρ := %s) (fun _ st => st) %s %s %s.rows %s.boom %s" % (sty, rett, err, item, g, g, self.state(names, c, False))
        return ("match %s with\n| .error e => .error e\n| .ok (Mimic.Py.Step.ret %s) => %s\n| .ok (Mimic.Py.Step.next _) => %s\n| .ok (Mimic.Py.Step.brk %s) =>\n%s"
                % (loop, "a" if has_ret else "_", ".ok a" if has_ret else self.m_fail(), self.m_fail(), opat, ind(cont(c3))))

    # ------------------------------------------------------------ functions
    def handler(self, name, lean_name):
        conn = T_rec("Connection")
        self.force_partial = True       # a handler is always in the exception monad, also when nothing in it can raise
        try:
            text = self.function(name, lean_name, self_type=conn, ret=("unit",), mutating=True)
        finally:
            self.force_partial = False
        text = text.replace(": Option (Connection S) :=", ": Except (Connection S) (Connection S) :=")
        self.out[-1] = text
        return text

    def passthrough(self, name, lean_name, callee, fixed):
        """`def m(self, **kwargs): return packets.F(a=self.a, …, **kwargs)` → a wrapper with F's remaining parameters"""
        f = self.find(name)
        body = [s for s in f.body if not (isinstance(s, ast.Expr) and isinstance(s.value, ast.Constant))]
        ok = (len(body) == 1 and isinstance(body[0], ast.Return) and isinstance(body[0].value, ast.Call)
              and ast.unparse(body[0].value.func) == "packets." + callee.name and not body[0].value.args and f.args.kwarg is not None)
        if ok:
            kws = body[0].value.keywords
            given = {k.arg: ast.unparse(k.value) for k in kws if k.arg is not None}
            star = [k for k in kws if k.arg is None]
            ok = given == {p: "self." + p for p in fixed} and len(star) == 1 and ast.unparse(star[0].value) == f.args.kwarg.arg
        if not ok:
            raise Untranslatable("%s is no longer a plain wrapper of packets.%s" % (name, callee.name))
        params = [p for p in callee.params if p[0] not in fixed]
        args = " ".join(("self." + p[0]) if p[0] in fixed else p[0] for p in callee.params)
        text = "def %s (self : (Connection S))%s : %s :=\n  %s %s\n" % (lean_name, "".join(" (%s : %s)" % (p, lean_type(t)) for p, t, _ in params),
                                                                          lean_type(callee.ret), callee.lean, args)
        self.fns[name] = Fn(name, lean_name, [("self", T_rec("Connection"), None)] + params, callee.ret, False, False)
        self.out.append(text)
        return text


def translate_command_step(tree, handlers, params_of):
    """`Connection.command_phase`: the dispatch and the exception arms of ONE iteration of the command loop, as Lean text.

    The method must still have the shape this function reads off its AST (anything else is an extraction error):
    `while True:` / `try: data = await self.stream.read() except ConnectionClosed: return` / `self._executing = True` /
    `try:` command = data[0]; rest = data[1:]; an if / elif chain on `command == types.Commands.X` whose branches are
    `await self.handle_Y(rest)`, `return`, or (the final else) `raise MysqlError(...)` / `except MysqlError`, `except Exception`:
    the same statements up to the arguments of `self.error(...)`: `self._executing = False`, one `await
    self.stream.write(self.error(...))` / `except AuthenticationFailed: return` / `except asyncio.CancelledError:` (kills: the
    connection machine's subject, not translated) / `finally: self._executing = False; self.stream.reset_seq()`.

    Translated handlers are called; the others (`handle_change_user`, `handle_init_db`, `handle_field_list`) are the parameter
    `other_handler : Nat → Connection S → Bytes → Except (Connection S) (Connection S)`.  The ERR packet an arm writes is the
    parameter `error_packet` (its code and message are C03's byte-level subject)."""
    from mysql_mimic.types import Commands
    cls = next(n for n in tree.body if isinstance(n, ast.ClassDef) and n.name == "Connection")
    f = next(n for n in cls.body if isinstance(n, ast.AsyncFunctionDef) and n.name == "command_phase")
    body = [st for st in f.body if not (isinstance(st, ast.Expr) and isinstance(st.value, ast.Constant))]
    bad = Untranslatable("command_phase no longer has the shape the command-step translation reads")
    if len(body) != 1 or not isinstance(body[0], ast.While) or ast.unparse(body[0].test) != "True":
        raise bad
    loop = body[0].body
    if len(loop) != 3 or not isinstance(loop[0], ast.Try) or ast.unparse(loop[1]) != "self._executing = True" or not isinstance(loop[2], ast.Try):
        raise bad
    rd = loop[0]
    if [ast.unparse(x) for x in rd.body] != ["data = await self.stream.read()"] or len(rd.handlers) != 1 \
            or ast.unparse(rd.handlers[0].type) != "ConnectionClosed" or not isinstance(rd.handlers[0].body[-1], ast.Return):
        raise bad
    tr = loop[2]
    tb = tr.body
    if len(tb) != 3 or ast.unparse(tb[0]) != "command = data[0]" or ast.unparse(tb[1]) != "rest = data[1:]" or not isinstance(tb[2], ast.If):
        raise bad
    chain = []
    node = tb[2]
    while True:
        t = node.test
        if not (isinstance(t, ast.Compare) and ast.unparse(t.left) == "command" and len(t.ops) == 1 and isinstance(t.ops[0], ast.Eq)
                and ast.unparse(t.comparators[0]).startswith("types.Commands.")):
            raise bad
        code = int(getattr(Commands, ast.unparse(t.comparators[0]).split(".")[-1]))
        if len(node.body) != 1:
            raise bad
        b = node.body[0]
        if isinstance(b, ast.Return) and b.value is None:
            chain.append((code, "return", None))
        elif isinstance(b, ast.Expr) and isinstance(b.value, ast.Await) and isinstance(b.value.value, ast.Call) \
                and ast.unparse(b.value.value.func).startswith("self.handle_") and [ast.unparse(a) for a in b.value.value.args] == ["rest"]:
            chain.append((code, "call", ast.unparse(b.value.value.func)[5:]))
        else:
            raise bad
        if len(node.orelse) == 1 and isinstance(node.orelse[0], ast.If):
            node = node.orelse[0]
            continue
        if len(node.orelse) != 1 or not isinstance(node.orelse[0], ast.Raise) or not ast.unparse(node.orelse[0].exc).startswith("MysqlError("):
            raise bad
        break
    # the exception arms
    arms = {ast.unparse(h.type): h for h in tr.handlers}
    if set(arms) != {"MysqlError", "AuthenticationFailed", "asyncio.CancelledError", "Exception"}:
        raise bad

    def arm_shape(h):
        out = []
        for st in h.body:
            if isinstance(st, ast.Expr) and isinstance(st.value, ast.Call) and ast.unparse(st.value.func).startswith("logger."):
                continue
            if isinstance(st, ast.Expr) and isinstance(st.value, ast.Await) and isinstance(st.value.value, ast.Call) \
                    and ast.unparse(st.value.value.func) == "self.stream.write" and len(st.value.value.args) == 1 and not st.value.value.keywords \
                    and isinstance(st.value.value.args[0], ast.Call) and ast.unparse(st.value.value.args[0].func) == "self.error":
                out.append("write-error")
            else:
                out.append(ast.unparse(st))
        return out
    if arm_shape(arms["MysqlError"]) != ["self._executing = False", "write-error"] or arm_shape(arms["Exception"]) != ["self._executing = False", "write-error"]:
        raise bad
    if [ast.unparse(x) for x in arms["AuthenticationFailed"].body if not isinstance(x, ast.Expr) or not isinstance(x.value, ast.Constant)] != ["return"]:
        raise bad
    if [ast.unparse(x) for x in tr.finalbody] != ["self._executing = False", "self.stream.reset_seq()"]:
        raise bad
    # Lean text
    lines = ["/-- the dispatch of `command_phase`: `none` = `return` (COM_QUIT); an unsupported command byte raises -/"]
    extra = "".join(" (%s : %s)" % (pn, pt) for pn, pt in params_of["__all__"])
    lines.append("def dispatch%s (other_handler : Nat → Connection S → Bytes → Except (Connection S) (Connection S)) (self : (Connection S)) (command : Nat) (rest : Bytes) : Except (Connection S) (Option (Connection S)) :=" % extra)
    ind_ = "  "
    for code, kind, h in chain:
        if kind == "return":
            lines.append(ind_ + "if command == %d then Except.ok none else" % code)
        elif h in handlers:
            lines.append(ind_ + "if command == %d then (%s self rest).map some else" % (code, handlers[h]))
        else:
            lines.append(ind_ + "if command == %d then (other_handler %d self rest).map some else   -- %s: not translated" % (code, code, h))
    lines.append(ind_ + "Except.error self")
    lines.append("")
    lines.append("/-- the codes `command_phase` dispatches, in the order of its if / elif chain -/")
    lines.append("def dispatched : List Nat := [%s]" % ", ".join(str(c) for c, _, _ in chain))
    lines.append("")
    # `except AuthenticationFailed: return`: only an untranslated handler can raise it (checked: no translated handler mentions it)
    for h in handlers:
        fn = next((n for n in cls.body if isinstance(n, ast.AsyncFunctionDef) and n.name == "handle_" + h), None)
        if fn is not None and "AuthenticationFailed" in ast.unparse(fn):
            raise Untranslatable("translated handler handle_%s mentions AuthenticationFailed: the command-step translation assumes only untranslated handlers raise it" % h)
    untranslated = [code for code, kind, h in chain if kind == "call" and h not in handlers]
    AF = "(auth_failed : Nat → Connection S → Bytes → Option (Connection S))"
    lines.append("/-- the codes whose handlers are not translated (parameters `other_handler` / `auth_failed`) -/")
    lines.append("def untranslated : List Nat := [%s]" % ", ".join(str(c) for c in untranslated))
    lines.append("")
    lines.append("/-- **one iteration of the command loop after a packet was read** (kills excluded): mark executing, dispatch, on an\n"
                 "    exception write exactly one ERR, in every case clear the flag and reset the sequence; `true`: the loop goes on -/")
    lines.append("def command_step%s (other_handler : Nat → Connection S → Bytes → Except (Connection S) (Connection S)) (error_packet : Connection S → Bytes) %s (self : (Connection S)) (data : Bytes) : (Connection S) × Bool :=" % (extra, AF))
    lines.append("  let self := { self with _executing := true }")
    lines.append("  let fin := fun (s : Connection S) => { s with _executing := false, out := s.out ++ [Ev.reset_seq] }")
    lines.append("  match data with")
    lines.append("  | [] =>      -- `data[0]` on an empty payload: IndexError, the `except Exception` arm")
    lines.append("    let s := { self with _executing := false }")
    lines.append("    (fin { s with out := s.out ++ [Ev.write (error_packet s) true] }, true)")
    lines.append("  | command :: rest =>")
    allp = " ".join(pn for pn, _ in params_of["__all__"])
    lines.append("    -- `except AuthenticationFailed: return` (the ERR was written by the handler; the `finally` still runs): `auth_failed k c d = some s`")
    lines.append("    -- says the untranslated handler of command `k`, started from `c` on `d`, raises it leaving the connection as `s`")
    lines.append("    match (if untranslated.contains command.toNat then auth_failed command.toNat self rest else none) with")
    lines.append("    | some s => (fin s, false)")
    lines.append("    | none =>")
    lines.append("    match dispatch %s other_handler self command.toNat rest with" % allp)
    lines.append("    | .ok (some s) => (fin s, true)")
    lines.append("    | .ok none => (fin self, false)")
    lines.append("    | .error s =>")
    lines.append("      let s := { s with _executing := false }")
    lines.append("      (fin { s with out := s.out ++ [Ev.write (error_packet s) true] }, true)")
    lines.append("")
    lines.append("/-- **the `while True` of `command_phase`** over the packets the client sends, in order: read a packet (none left: the peer is\n"
                 "    gone, `ConnectionClosed` → `return`), run one iteration, go on unless it returned.  `true`: ended by a `return` of the\n"
                 "    loop body (COM_QUIT, or AuthenticationFailed out of an untranslated handler) -/")
    lines.append("def command_loop%s (other_handler : Nat → Connection S → Bytes → Except (Connection S) (Connection S)) (error_packet : Connection S → Bytes) %s : (Connection S) → List Bytes → (Connection S) × Bool" % (extra, AF))
    lines.append("  | self, [] => (self, false)")
    lines.append("  | self, data :: more =>")
    lines.append("    match command_step %s other_handler error_packet auth_failed self data with" % allp)
    lines.append("    | (s, true) => command_loop %s other_handler error_packet auth_failed s more" % allp)
    lines.append("    | (s, false) => (s, true)")
    return "\n".join(lines) + "\n"


def translate_change_user(tree):
    """`Connection.handle_change_user`: the wrapper around `_change_user` that turns every failure into `AuthenticationFailed`,
    read off its AST (exactly the statement forms it consists of today; anything else is an extraction error):

        try: await self._change_user(data)
        except AuthenticationFailed: raise
        except Exception as e: [logger...]; if isinstance(e, MysqlError): await self.stream.write(self.error(...)) else: await
            self.stream.write(self.error(...)); raise AuthenticationFailed() from e
        await self.session.reset()

    `_change_user` (packet parsing, session variables, the authentication exchange: C01 / C02's subject) is the parameter
    `change_user : Connection S → Bytes → CUOut S` with its three possible outcomes."""
    cls = next(n for n in tree.body if isinstance(n, ast.ClassDef) and n.name == "Connection")
    f = next(n for n in cls.body if isinstance(n, ast.AsyncFunctionDef) and n.name == "handle_change_user")
    bad = Untranslatable("handle_change_user no longer has the shape the translation reads")
    body = [st for st in f.body if not (isinstance(st, ast.Expr) and isinstance(st.value, ast.Constant))]
    if len(body) != 2 or not isinstance(body[0], ast.Try) or ast.unparse(body[1]) != "await self.session.reset()":
        raise bad
    tr = body[0]
    if [ast.unparse(x) for x in tr.body] != ["await self._change_user(data)"] or tr.orelse or tr.finalbody or len(tr.handlers) != 2:
        raise bad
    h1, h2 = tr.handlers
    if ast.unparse(h1.type) != "AuthenticationFailed" or [ast.unparse(x) for x in h1.body] != ["raise"]:
        raise bad
    if ast.unparse(h2.type) != "Exception":
        raise bad
    stmts = [st for st in h2.body if not (isinstance(st, ast.Expr) and isinstance(st.value, ast.Call) and ast.unparse(st.value.func).startswith("logger."))]

    def is_write_error(st):
        return (isinstance(st, ast.Expr) and isinstance(st.value, ast.Await) and isinstance(st.value.value, ast.Call)
                and ast.unparse(st.value.value.func) == "self.stream.write" and len(st.value.value.args) == 1 and not st.value.value.keywords
                and isinstance(st.value.value.args[0], ast.Call) and ast.unparse(st.value.value.args[0].func) == "self.error")
    if len(stmts) != 2 or not isinstance(stmts[0], ast.If) or ast.unparse(stmts[0].test) != "isinstance(e, MysqlError)" \
            or len(stmts[0].body) != 1 or len(stmts[0].orelse) != 1 or not is_write_error(stmts[0].body[0]) or not is_write_error(stmts[0].orelse[0]) \
            or not isinstance(stmts[1], ast.Raise) or not ast.unparse(stmts[1].exc).startswith("AuthenticationFailed("):
        raise bad
    return """/-- how `_change_user` (not translated: parsing of the packet, session variables, the authentication exchange) can end -/
inductive CUOut (S : Type) where
  | returned (s : Connection S)      -- the exchange succeeded
  | authfail (s : Connection S)      -- raised AuthenticationFailed (the ERR was written by the exchange)
  | raised (s : Connection S)        -- raised anything else

/-- **`Connection.handle_change_user`**: `(state, true)` = returned (after `session.reset()`), `(state, false)` = raised
    `AuthenticationFailed` — the only exception that leaves it: every other failure of `_change_user` is answered with exactly one
    ERR (drained) and converted -/
def handle_change_user (change_user : Connection S → Bytes → CUOut S) (error_packet : Connection S → Bytes) (self : (Connection S)) (data : Bytes) : (Connection S) × Bool :=
  match change_user self data with
  | .returned s => ({ s with out := s.out ++ [Ev.session_reset] }, true)
  | .authfail s => (s, false)
  | .raised s => ({ s with out := s.out ++ [Ev.write (error_packet s) true] }, false)

/-- the two views of `handle_change_user` that `command_step` takes of an untranslated handler -/
def change_user_other (change_user : Connection S → Bytes → CUOut S) (error_packet : Connection S → Bytes) : Nat → Connection S → Bytes → Except (Connection S) (Connection S) :=
  fun _ self data => .ok (handle_change_user change_user error_packet self data).1

def change_user_auth_failed (change_user : Connection S → Bytes → CUOut S) (error_packet : Connection S → Bytes) : Nat → Connection S → Bytes → Option (Connection S) :=
  fun _ self data =>
    match handle_change_user change_user error_packet self data with
    | (_, true) => none
    | (s, false) => some s
"""


def translate_server_cb():
    """→ Lean source of namespace Mimic.Extracted.ServerCode: `MysqlServer._client_connected_cb` as a function of the outcomes of
    the three things it calls (session factory + Connection constructor, `control.add`, `connection.start`), returning the
    effects it performs in order and whether an exception leaves it.  Read off the AST by symbolic execution of exactly the
    statement forms the callback consists of today; anything else is an extraction error."""
    from mysql_mimic import server as Sv
    from mysql_mimic.errors import ErrorCode
    tree = ast.parse(inspect.getsource(Sv))
    cls = next(n for n in tree.body if isinstance(n, ast.ClassDef) and n.name == "MysqlServer")
    f = next(n for n in cls.body if isinstance(n, ast.AsyncFunctionDef) and n.name == "_client_connected_cb")
    bad = lambda why: Untranslatable("_client_connected_cb: " + why)

    def ev_of(st, raising):
        """(events, may_raise_kind) of a simple statement; may_raise_kind names the outcome parameter that decides whether it raises"""
        u = ast.unparse(st)
        if isinstance(st, ast.Expr) and isinstance(st.value, ast.Call) and ast.unparse(st.value.func).startswith("logger."):
            return [], None
        if u == "stream = MysqlStream(reader, writer)":
            return [], None
        if isinstance(st, ast.If) and ast.unparse(st.test) == "inspect.iscoroutinefunction(self.session_factory)" \
                and [ast.unparse(x) for x in st.body] == ["session = await self.session_factory()"] \
                and [ast.unparse(x) for x in st.orelse] == ["session = self.session_factory()"]:
            return ["SEv.factory"], "factory"
        if isinstance(st, ast.Assign) and ast.unparse(st.targets[0]) == "connection" and isinstance(st.value, ast.Call) and ast.unparse(st.value.func) == "Connection":
            return [], None
        if u == "connection_id = await self.control.add(connection)":
            return ["SEv.add"], "add"
        if u == "connection.connection_id = connection_id":
            return ["SEv.set_id"], None
        if isinstance(st, ast.Expr) and isinstance(st.value, ast.Await) and isinstance(st.value.value, ast.Call) \
                and ast.unparse(st.value.value.func) == "stream.write" and len(st.value.value.args) == 1:
            arg = st.value.value.args[0]
            code = "none"
            if isinstance(arg, ast.Call):
                for kw in arg.keywords:
                    if kw.arg == "code" and ast.unparse(kw.value).startswith("ErrorCode."):
                        code = "(some %d)" % int(getattr(ErrorCode, ast.unparse(kw.value).split(".")[-1]))
                if ast.unparse(arg.func) not in ("packets.make_error", "connection.error"):
                    raise bad("write of " + ast.unparse(arg)[:60])
            else:
                raise bad("write of " + ast.unparse(arg)[:60])
            return ["SEv.write_err %s" % code], None
        if u == "return await connection.start()":
            return ["SEv.start"], "start"
        if u == "writer.close()":
            return ["SEv.writer_close"], None
        if isinstance(st, ast.Expr) and isinstance(st.value, ast.Await) and isinstance(st.value.value, ast.Call) \
                and ast.unparse(st.value.value.func) == "self.control.remove" and len(st.value.value.args) == 1:
            a = ast.unparse(st.value.value.args[0])
            return ["SEv.remove %s" % {"connection_id": "RemArg.added_id", "connection.connection_id": "RemArg.attribute"}.get(a, "RemArg.other")], None
        if isinstance(st, ast.Return) and st.value is None:
            return ["RETURN"], None
        raise bad("statement " + u[:80])

    # symbolic execution: `outcomes` fixes the three outcome parameters; returns (events, raised)
    def run_block(stmts, outcomes):
        evs = []
        for st in stmts:
            if isinstance(st, ast.Expr) and isinstance(st.value, ast.Constant):
                continue
            if isinstance(st, ast.Try):
                body_evs, status = run_block(st.body, outcomes)     # status: None (fell through) | "return" | ("raise", kind, sub)
                evs += body_evs
                if isinstance(status, tuple):
                    # find the handler
                    _, kind, sub = status
                    handled = None
                    for h in st.handlers:
                        hn = ast.unparse(h.type)
                        if hn == "TooManyConnections" and sub == "too_many":
                            handled = h
                            break
                        if hn == "Exception":
                            handled = h
                            break
                    if handled is not None:
                        h_evs, h_status = run_block(handled.body, outcomes)
                        evs += h_evs
                        status = h_status
                if st.finalbody:
                    f_evs, f_status = run_block(st.finalbody, outcomes)
                    evs += f_evs
                    if f_status is not None:
                        status = f_status
                if status is not None:
                    return evs, status
                continue
            e, kind = ev_of(st, outcomes)
            if e == ["RETURN"]:
                return evs, "return"
            evs += e
            if kind is not None:
                o = outcomes[kind]
                if o in ("raises", "too_many"):
                    return evs, ("raise", kind, o)
                if kind == "start":
                    return evs, "return"          # `return await connection.start()`
        return evs, None

    rows = []
    for fo in ("ok", "raises"):
        for ao in ("id", "too_many", "raises"):
            for so in ("returns", "raises"):
                evs, status = run_block(f.body, {"factory": fo, "add": ao, "start": so})
                raised = isinstance(status, tuple)
                rows.append((fo, ao, so, evs, raised))
    out = ["-- GENERATED by harness/extract.py (harness/pytrans3.py) from /repo/mysql_mimic/server.py — do not edit",
           "namespace Mimic.Extracted.ServerCode", "",
           "/-- which id `control.remove` is given: the local returned by `control.add`, the connection's attribute, anything else -/",
           "inductive RemArg | added_id | attribute | other\nderiving DecidableEq, Repr\n",
           "/-- what the accept callback does to the outside, in order -/",
           "inductive SEv\n  | factory\n  | add\n  | set_id\n  | write_err (code : Option Nat)\n  | start\n  | writer_close\n  | remove (arg : RemArg)\nderiving DecidableEq, Repr\n",
           "inductive FactoryOut | ok | raises\nderiving DecidableEq, Repr\n",
           "inductive AddOut | id | too_many | raises\nderiving DecidableEq, Repr\n",
           "inductive StartOut | returns | raises\nderiving DecidableEq, Repr\n",
           "/-- `MysqlServer._client_connected_cb`: its effects in order and whether an exception leaves it, for every outcome of the session\n"
           "    factory / `Connection(...)`, of `control.add` and of `connection.start()` -/",
           "def client_connected_cb : FactoryOut → AddOut → StartOut → List SEv × Bool"]
    for fo, ao, so, evs, raised in rows:
        out.append("  | .%s, .%s, .%s => ([%s], %s)" % (fo, ao, so, ", ".join(evs), "true" if raised else "false"))
    out.append("")
    out.append("end Mimic.Extracted.ServerCode")
    return "\n".join(out) + "\n"


def py_sig(module, fname, lean, types=None):
    """Fn of an already translated module-level function, parameters and defaults read from the Python source"""
    types = types or {}
    f = next(n for n in ast.parse(inspect.getsource(module)).body if isinstance(n, ast.FunctionDef) and n.name == fname)
    args = f.args.args
    dvals = [None] * (len(args) - len(f.args.defaults)) + list(f.args.defaults)
    params = []
    for a, d in zip(args, dvals):
        t = types.get(a.arg) or pytrans2.ann_type(a.annotation)
        dl = None
        if isinstance(d, ast.Constant):
            dl = "none" if d.value is None else ("true" if d.value else "false") if isinstance(d.value, bool) else str(d.value)
        params.append((a.arg, t, dl))
    return Fn(fname, lean, params, pytrans2.ann_type(f.returns), False, False)


def translate_handlers():
    """→ Lean source of namespace Mimic.Extracted.HandlersCode"""
    from mysql_mimic import connection as Cn, packets as P, prepared as Pr
    from mysql_mimic.types import Capabilities, ServerStatus
    enums = {"Capabilities": {nm: int(m) for nm, m in Capabilities.__members__.items()},
             "ServerStatus": {nm: int(m) for nm, m in ServerStatus.__members__.items()}}
    records = {
        "PreparedStatement": dataclass_fields(Pr.PreparedStatement, {"cursor": T_opt(GEN)}),
        "seq": [("size", T_opt(NAT), None), ("value", NAT, None)],
        # `client_charset` / `server_charset` are properties of Connection (the session variables behind them are C15's
        # subject); here they are read like fields
        "Connection": [("capabilities", NAT, None), ("status_flags", NAT, None), ("prepared_stmts", T_dict(NAT, T_rec("PreparedStatement")), None),
                       ("out", ("abs", "(List (Ev S))"), None), ("prepared_stmt_seq", T_rec("seq"), None), ("client_charset", CS, None),
                       ("server_charset", CS, None), ("_executing", BOOL, None)],
        # COM_STMT_EXECUTE as the handler uses it: the statement object, the interpolated text, the cursor flag (the
        # attributes only travel to the application)
        "ComStmtExecute": [("sql", STR, None), ("stmt", T_rec("PreparedStatement"), None), ("use_cursor", BOOL, None)],
        # a result set as the handler uses it: columns are opaque identifiers, `rows` the packets its rows encode to
        "ResultSet": [("columns", T_list(NAT), None), ("rows", GEN, None)],
        "ComQuery": dataclass_fields(P.ComQuery, {"query_attrs": T_dict(T_opt(STR), VAL)}),
        "ComFieldList": dataclass_fields(P.ComFieldList),
        "ComStmtSendLongData": dataclass_fields(P.ComStmtSendLongData),
        "ComStmtFetch": dataclass_fields(P.ComStmtFetch),
        "ComStmtReset": dataclass_fields(P.ComStmtReset),
        "ComStmtClose": dataclass_fields(P.ComStmtClose),
    }
    # the annotation of PreparedStatement.cursor must still be an optional asynchronous iterable of packets
    src = inspect.getsource(Pr.PreparedStatement)
    if "cursor: Optional[AsyncIterable[bytes]] = None" not in src:
        raise Untranslatable("PreparedStatement.cursor is no longer Optional[AsyncIterable[bytes]]")
    PC = "Mimic.Extracted.ParsersCode."
    out = ["-- GENERATED by harness/extract.py (harness/pytrans3.py) from /repo/mysql_mimic/connection.py — do not edit",
           "import Mimic.Py", "import Mimic.Extracted.PacketsCode", "import Mimic.Extracted.ParsersCode", "namespace Mimic.Extracted.HandlersCode",
           "open Mimic.Py", "open Mimic.Extracted.ParsersCode (ComStmtSendLongData ComStmtFetch ComStmtReset ComStmtClose ComQuery ComFieldList)", "",
           "variable {S : Type} [DecidableEq S]", "",
           "/-- what a handler does to the outside, in the order it does it -/",
           "inductive Ev (S : Type)\n  | write (pkt : Bytes) (drain : Bool)\n  | drain\n  | session_reset\n  | reset_seq\n  | session_use (database : S)\nderiving DecidableEq, Repr\n"]
    from mysql_mimic import utils as U
    csrc = inspect.getsource(Cn.Connection)
    for prop in ("client_charset", "server_charset"):
        if "@property\n    def %s(self) -> CharacterSet:" % prop not in csrc:
            raise Untranslatable("Connection.%s is no longer a CharacterSet property" % prop)
    if "self.prepared_stmt_seq = seq(self._MAX_PREPARED_STMT_ID)" not in csrc or "self.prepared_stmts: Dict[int, PreparedStatement] = {}" not in csrc:
        raise Untranslatable("Connection.__init__ no longer creates the statement registry and its id sequence as expected")
    pure = ConnTranslator(Cn, enums, records)
    pure.flags = {"Capabilities", "ServerStatus"}
    pure.fns.update(lib_fns())
    pure.extra_params = [("count_params", "S → Nat"), ("param_coldef", "Nat → Bytes"), ("coldef", "Nat → Nat → Bytes"),
                         ("parse_execute", "Connection S → Bytes → Option (ComStmtExecute S)"), ("app_query", "S → Option (ResultSet S)"),
                         ("use_raises", "S → Bool"), ("field_list_sql", "ComFieldList S → S"), ("field_coldef", "Nat → S → Bytes → Bytes")]
    from mysql_mimic import results as R
    if "def __bool__(self) -> bool:\n        return bool(self.columns)" not in inspect.getsource(R.ResultSet):
        raise Untranslatable("ResultSet.__bool__ is no longer bool(self.columns)")
    qsrc = inspect.getsource(Cn.Connection.query)
    if "await ensure_result_set(" not in qsrc or "await self.session.handle_query(sql, query_attrs)" not in qsrc:
        raise Untranslatable("Connection.query no longer returns ensure_result_set(session.handle_query(sql, query_attrs))")
    pure.fns["types.uint_len"] = pure.fns["uint_len"]
    conn = T_rec("Connection")
    tu = Translator(U, {}, records)
    out.append(tu.record_decl("seq"))
    out.append(tu.function("seq.__next__", "seq_next", self_type=T_rec("seq"), ret=NAT, mutating=True))
    pure.fns.update(tu.fns)
    out.append(pure.record_decl("PreparedStatement"))
    out.append(pure.record_decl("Connection"))
    out.append(pure.record_decl("ComStmtExecute"))
    out.append(pure.record_decl("ResultSet"))
    out.append("/-- `Connection._MAX_PREPARED_STMT_ID`, the size of the statement-id sequence -/\ndef maxPreparedStmtId : Nat := %d\n" % Cn.Connection._MAX_PREPARED_STMT_ID)
    tp = Translator(P, enums, records)
    tp.fns.update(lib_fns())
    out.append(tp.function("make_com_stmt_prepare_ok"))
    pure.fns["packets.make_com_stmt_prepare_ok"] = tp.fns["make_com_stmt_prepare_ok"]
    h = HandlerTranslator(Cn, enums, records)
    h.flags = pure.flags
    h.fns = pure.fns
    h.out = pure.out
    h.extra_params = pure.extra_params
    make_ok = py_sig(P, "make_ok", "Mimic.Extracted.PacketsCode.make_ok")
    make_eof = py_sig(P, "make_eof", "Mimic.Extracted.PacketsCode.make_eof")
    out.append(h.passthrough("Connection.ok", "ok", make_ok, ["capabilities", "status_flags"]))
    out.append(h.passthrough("Connection.eof", "eof", make_eof, ["capabilities", "status_flags"]))
    out.append(pure.function("Connection.deprecate_eof", "deprecate_eof", self_type=conn))
    out.append(pure.function("Connection.ok_or_eof", "ok_or_eof", self_type=conn))
    out.append(pure.function("Connection.get_stmt", "get_stmt", self_type=conn, ret=T_rec("PreparedStatement")))
    for nm in ("parse_com_stmt_send_long_data", "parse_handle_stmt_fetch", "parse_com_stmt_reset", "parse_com_stmt_close"):
        fn = py_sig(P, nm, PC + nm + " (S := S)")
        fn.partial = True
        pure.fns["packets." + nm] = fn
    fn = py_sig(P, "parse_com_query", PC + "parse_com_query")
    fn.partial, fn.env = True, True
    pure.fns["packets.parse_com_query"] = fn
    pure.fns["packets.make_column_count"] = py_sig(P, "make_column_count", PC + "make_column_count")
    for nm in ("parse_com_init_db", "parse_com_field_list"):
        fn = py_sig(P, nm, PC + nm)
        fn.partial, fn.env = True, True
        pure.fns[nm] = fn
    out.append(pure.generator_as_list("Connection.com_stmt_prepare_response", "com_stmt_prepare_response", conn))
    for nm, ln in (("handle_stmt_prepare", "handle_stmt_prepare"), ("handle_stmt_execute", "handle_stmt_execute"), ("handle_query", "handle_query"), ("handle_ping", "handle_ping"),
                   ("handle_reset_connection", "handle_reset_connection"), ("handle_debug", "handle_debug"), ("handle_init_db", "handle_init_db"),
                   ("handle_field_list", "handle_field_list"), ("handle_stmt_fetch", "handle_stmt_fetch"), ("handle_stmt_reset", "handle_stmt_reset"), ("handle_stmt_close", "handle_stmt_close"),
                   ("handle_stmt_send_long_data", "handle_stmt_send_long_data")):
        out.append(h.handler("Connection." + nm, ln))
    # the command loop's iteration over the translated handlers
    import re as _re
    handler_calls, allparams = {}, []
    for txt in out:
        for m in _re.finditer(r"^def (handle_\w+)((?: \([^()]*(?:\([^()]*\)[^()]*)*\))*) : Except \(Connection S\) \(Connection S\) :=", txt, _re.M):
            names = _re.findall(r"\((\w+) :", m.group(2))
            ps = [n for n in names if n not in ("self", "data")]
            handler_calls[m.group(1)] = "%s %s" % (m.group(1), " ".join(ps)) if ps else m.group(1)
            for n in ps:
                if n not in [a for a, _ in allparams]:
                    ty = "Env S" if n == "E" else dict(pure.extra_params)[n]
                    allparams.append((n, ty))
    out.append(translate_command_step(pure.tree, handler_calls, {"__all__": allparams}))
    out.append(translate_change_user(pure.tree))
    out.append("def translated : List String := [%s]" % ", ".join('"%s"' % n for n in (
        "Connection.ok", "Connection.eof", "Connection.deprecate_eof", "Connection.ok_or_eof", "Connection.get_stmt",
        "Connection.com_stmt_prepare_response", "Connection.handle_stmt_prepare", "Connection.handle_stmt_execute", "Connection.handle_query", "Connection.text_resultset", "Connection.handle_ping",
        "Connection.handle_reset_connection", "Connection.handle_debug", "Connection.handle_init_db", "Connection.handle_field_list",
        "Connection.handle_stmt_fetch", "Connection.handle_stmt_reset", "Connection.handle_stmt_close", "Connection.handle_stmt_send_long_data", "Connection.command_phase (one iteration)")))
    out.append("end Mimic.Extracted.HandlersCode")
    return "\n".join(out) + "\n"


if __name__ == "__main__":
    print(translate_server_cb() if "server" in sys.argv else translate_handlers())
