"""Generators and canonicalisation shared by the C06 / C17 checks (client side of parameter blocks)."""
import struct

from lib import (T_TINY, T_SHORT, T_LONG, T_FLOAT, T_DOUBLE, T_NULL, T_LONGLONG, T_INT24, T_YEAR, T_VARCHAR, T_BLOB,
                 T_VAR_STRING, T_STRING, T_TINY_BLOB, T_MEDIUM_BLOB, T_LONG_BLOB)

INTS = {T_TINY: 1, T_SHORT: 2, T_YEAR: 2, T_LONG: 4, T_INT24: 4, T_LONGLONG: 8}
STRS = [T_VARCHAR, T_VAR_STRING, T_STRING, T_BLOB, T_TINY_BLOB, T_MEDIUM_BLOB, T_LONG_BLOB]
ADVERSARIAL = ["'", '"', "`", "\\", "?", "%", "_", "\0", "\n", "\r", "\x1a", "\\1", "\\g<0>", "''", "\\'", "a", "b c",
               "é", "中", "\U0001f600", " OR 1=1 -- ", "';", "\\\\", "/*", "*/", "--", "x'y", "$", "{}"]
FLOATS = [0.0, 1.5, -0.25, 1e10, 123456.789, 2.5e-7]


def gen_string(rng, maxparts=5):
    return "".join(rng.choice(ADVERSARIAL) for _ in range(rng.randrange(0, maxparts + 1)))


def gen_param(rng, allow_float=True, name=b""):
    """→ (type, unsigned, value, name) where value is what the client sends (bytes for strings)"""
    r = rng.random()
    if r < 0.12:
        return (rng.choice([T_NULL, T_VAR_STRING, T_LONG]), False, None, name)
    if r < 0.5:
        return (rng.choice(STRS), False, gen_string(rng).encode("utf8"), name)
    if r < 0.9 or not allow_float:
        t = rng.choice(list(INTS))
        k = INTS[t]
        u = rng.random() < 0.4
        lo, hi = (0, (1 << (8 * k)) - 1) if u else (-(1 << (8 * k - 1)), (1 << (8 * k - 1)) - 1)
        return (t, u, rng.choice([lo, hi, 0, 1, hi - 1, lo + 1, rng.randrange(lo, hi + 1)]), name)
    t = rng.choice([T_FLOAT, T_DOUBLE])
    return (t, False, rng.choice(FLOATS), name)


def gen_name(rng):
    return rng.choice(["", "k", "key", "a b", "é", "中文", "x" * 300, "n%d" % rng.randrange(50), "?", "'"]).encode("utf8")


def canon_value(v, t=None):
    """canonical text of a value as the application received it (same vocabulary as the model driver)"""
    if v is None:
        return "N"
    if isinstance(v, bool):
        return "I%d" % int(v)
    if isinstance(v, int):
        return "I%d" % v
    if isinstance(v, float):
        return "F" + (struct.pack("<f", v) if t == T_FLOAT else struct.pack("<d", v)).hex()
    if isinstance(v, str):
        b = v.encode("utf8")
        return "S" + (b.hex() if b else "-")
    if isinstance(v, bytes):
        return "S" + (v.hex() if v else "-")
    return "?%r" % (v,)


def canon_attrs(attrs, types):
    """attrs: dict name→value as received; types: name(str)→type code sent"""
    if not attrs:
        return "-"
    out = []
    for k, v in attrs.items():
        kb = k.encode("utf8")
        out.append("%s:%s" % (kb.hex() if kb else "-", canon_value(v, types.get(k))))
    return ";".join(out)


def expected_value(p):
    """the Python value the application must see for a sent parameter"""
    t, u, v, _ = p
    if v is None:
        return None
    if t in STRS:
        return v.decode("utf8")
    if t == T_FLOAT:
        return struct.unpack("<f", struct.pack("<f", v))[0]
    return v
