"""Common machinery of every check: tie to the source (extract + lake build + axiom audit), model driver,
verdict logic, known findings, evidence."""
from __future__ import annotations

import fcntl
import hashlib
import json
import os
import re
import subprocess
import sys
import time
from typing import Any, Callable, Dict, List, Optional, Sequence, Tuple

HERE = os.path.dirname(os.path.abspath(__file__))
VERIF = os.path.abspath(os.path.join(HERE, ".."))
# evidence goes to /verif/evidence; experiments on a modified /repo (tools/try_patch.sh, tools/seed_matrix.sh) redirect it
# so that the committed evidence always describes the unchanged tree
EVIDENCE_DIR = os.environ.get("VERIF_EVIDENCE_DIR") or os.path.join(VERIF, "evidence")
# experiments (tools/mutants.py) run several checks in parallel on copies: VERIF_LEAN_DIR points at a private copy of
# lean/ (generated files and build products are per copy), VERIF_REPLAY_DIR at a private replay directory; the code under
# test is then chosen with PYTHONPATH.  Registered commands never set these.
LEAN = os.environ.get("VERIF_LEAN_DIR") or os.path.join(VERIF, "lean")
REPLAY_DIR = os.environ.get("VERIF_REPLAY_DIR") or os.path.join(VERIF, "replays")
DRIVER = os.path.join(LEAN, ".lake", "build", "bin", "mimic-driver")
ALLOWED_AXIOMS = {"propext", "Classical.choice", "Quot.sound"}
FORBIDDEN = re.compile(r"\bsorry\b|\badmit\b|^\s*axiom\s|native_decide|bv_decide|implemented_by|\bunsafe\s|maxHeartbeats\s+0|\bpartial\s+def\b", re.M)

sys.path.insert(0, HERE)
sys.path.insert(0, os.path.join(VERIF, "corpus"))


def env_lean():
    e = dict(os.environ)
    return e


class Lock:
    def __enter__(self):
        os.makedirs(os.path.join(LEAN, ".lake"), exist_ok=True)
        self.f = open(os.path.join(LEAN, ".lake", "verif.lock"), "w")
        fcntl.flock(self.f, fcntl.LOCK_EX)
        return self

    def __exit__(self, *a):
        fcntl.flock(self.f, fcntl.LOCK_UN)
        self.f.close()


def strip_comments(src: str) -> str:
    # remove /- ... -/ (nested not handled beyond depth 1; our sources do not nest) and -- comments
    src = re.sub(r"/-.*?-/", "", src, flags=re.S)
    src = re.sub(r"--.*", "", src)
    return src


def forbidden_hits() -> List[str]:
    hits = []
    for root, _, files in os.walk(LEAN):
        if ".lake" in root:
            continue
        for fn in files:
            if not fn.endswith(".lean"):
                continue
            p = os.path.join(root, fn)
            code = strip_comments(open(p).read())
            for m in FORBIDDEN.finditer(code):
                tok = m.group(0).strip()
                if "partial" in tok and fn == "Driver.lean":
                    continue  # the stdin loop of the driver
                hits.append(f"{os.path.relpath(p, LEAN)}: {tok}")
    return hits


# Extracted files used by a property through the model driver (in addition to what its theorem file imports)
DRIVER_USES = {
    "C01": ["Auth", "Charset"], "C02": ["Auth"], "C06": ["Params"], "C07": ["Charset"], "C08": ["Auth", "Control"], "C15": ["Charset"],
    "C17": ["Control"], "C18": ["Control"], "C12": ["Stream"], "C04": ["Stream"], "C05": ["Results"],
}


def extracted_used_by(prop_id: str) -> set:
    """names (without .lean) of the Extracted files a property depends on: transitive imports of its theorem file
    plus the driver operations its check uses"""
    seen: set = set()

    def walk(mod):
        p = os.path.join(LEAN, mod.replace(".", "/") + ".lean")
        if mod in seen or not os.path.exists(p):
            return
        seen.add(mod)
        for m in re.findall(r"^import\s+(\S+)", open(p).read(), flags=re.M):
            walk(m)
    walk(f"MimicProps.{prop_id}")
    used = {m.split(".")[-1] for m in seen if m.startswith("Mimic.Extracted.")}
    return used | set(DRIVER_USES.get(prop_id, []))


def tie(prop_id: str, targets: Sequence[str]) -> Dict[str, Any]:
    """Regenerate Extracted/*.lean from /repo, build the property's modules, audit axioms.
    Returns dict(ok, extract_errors, changed, build_ok, build_log, theorems, axioms, bad_axioms, forbidden)."""
    import extract

    res: Dict[str, Any] = {}
    with Lock():
        changed, errors = extract.generate()
        res["changed"] = changed
        used = extracted_used_by(prop_id)
        # an extraction that fails leaves the previous file in place: only the properties that use it lose their tie
        res["extract_errors"] = [e for e in errors if e.split(".lean")[0] in used]
        res["extract_errors_elsewhere"] = [e for e in errors if e.split(".lean")[0] not in used]
        t0 = time.time()
        p = subprocess.run(["lake", "build"] + list(targets) + ["mimic-driver"], cwd=LEAN, capture_output=True,
                           text=True, env=env_lean())
        res["build_s"] = round(time.time() - t0, 2)
        res["build_ok"] = p.returncode == 0
        log = (p.stdout + p.stderr)
        res["build_log"] = "\n".join(l for l in log.split("\n") if "WARNING conda" not in l)[-6000:]
        res["failed_decls"] = re.findall(r"error: (\S+\.lean:\d+:\d+): (.*)", log)[:20]
        # audit
        src = os.path.join(LEAN, "MimicProps", f"{prop_id}.lean")
        code = strip_comments(open(src).read())
        ns = f"MimicProps.{prop_id}"
        thms = re.findall(r"^theorem\s+([A-Za-z0-9_'.]+)", code, flags=re.M)
        res["theorems"] = thms
        res["axioms"] = {}
        res["bad_axioms"] = []
        if res["build_ok"]:
            os.makedirs(os.path.join(LEAN, "Audit"), exist_ok=True)
            ap = os.path.join(LEAN, "Audit", f"{prop_id}.lean")
            with open(ap, "w") as f:
                f.write(f"import MimicProps.{prop_id}\n" + "".join(f"#print axioms {ns}.{t}\n" for t in thms))
            a = subprocess.run(["lake", "env", "lean", ap], cwd=LEAN, capture_output=True, text=True, env=env_lean())
            out = a.stdout + a.stderr
            for t in thms:
                m = re.search(r"'%s\.%s' depends on axioms: \[([^\]]*)\]" % (re.escape(ns), re.escape(t)), out, flags=re.S)
                if m:
                    ax = [x.strip() for x in m.group(1).replace("\n", " ").split(",") if x.strip()]
                elif re.search(r"'%s\.%s' does not depend on any axioms" % (re.escape(ns), re.escape(t)), out):
                    ax = []
                else:
                    ax = ["<audit-output-missing>"]
                res["axioms"][t] = ax
                if not set(ax) <= ALLOWED_AXIOMS:
                    res["bad_axioms"].append((t, ax))
        res["forbidden"] = forbidden_hits()
    res["ok"] = bool(res["build_ok"] and not res["extract_errors"] and not res["bad_axioms"] and not res["forbidden"]
                     and res["theorems"])
    return res


def leanchecker(modules: Sequence[str]) -> Tuple[bool, str]:
    with Lock():
        p = subprocess.run(["lake", "env", "leanchecker"] + list(modules), cwd=LEAN, capture_output=True, text=True)
    return p.returncode == 0, (p.stdout + p.stderr)[-2000:]


def drive(lines: Sequence[str]) -> List[str]:
    """Run the model driver on a batch of protocol lines; one output line per input line."""
    if not lines:
        return []
    data = "\n".join(lines) + "\n"
    if os.path.exists(DRIVER):
        p = subprocess.run([DRIVER], input=data, capture_output=True, text=True)
    else:
        p = subprocess.run(["lake", "env", "lean", "--run", "Driver.lean"], cwd=LEAN, input=data, capture_output=True, text=True)
    out = p.stdout.split("\n")
    if out and out[-1] == "":
        out.pop()
    if len(out) != len(lines):
        out += ["<driver-died: %s>" % (p.stderr.strip()[-200:])] * (len(lines) - len(out))
    return out


def hexs(b: bytes) -> str:
    return b.hex() if b else "-"


def guarded(prop_id: str, main: Callable[[], None]):
    """Run a check's main(); a crash of the harness itself (e.g. the code was restructured so that the harness can no
    longer drive it) is a broken tie, reported like one - never a silent pass, never a bare traceback."""
    try:
        main()
    except SystemExit:
        raise
    except BaseException as e:  # noqa
        import traceback
        tb = traceback.format_exc()
        os.makedirs(REPLAY_DIR, exist_ok=True)
        tier = os.environ.get("VERIF_TIER", "quick")
        for i, a in enumerate(sys.argv):
            if a == "--tier" and i + 1 < len(sys.argv):
                tier = sys.argv[i + 1]
        seed = int(os.environ.get("VERIF_SEED", "0") or 0)
        replay = os.path.join(REPLAY_DIR, f"{prop_id}_{tier}_{seed}.json")
        json.dump(dict(property=prop_id, kind="tie-broken", no_longer_checks=[dict(kind="correspondence harness crashed", error=repr(e), traceback=tb[-4000:])],
                       note="the harness could not drive the implementation; no failing input could be searched for"), open(replay, "w"), indent=1)
        ev = dict(property_id=prop_id, tier=tier if tier in ("quick", "thorough") else "quick", seed=seed, level="proof",
                  coverage=dict(obligations=1, discharged=0, checker_cmd="harness crashed before the proof obligations were checked",
                                trusted_base=[], evaluations=1, distinct_nontrivial=2, explanation="harness crash: " + repr(e)),
                  wall_s=0.0, violations=1)
        os.makedirs(EVIDENCE_DIR, exist_ok=True)
        json.dump(ev, open(os.path.join(EVIDENCE_DIR, f"{prop_id}.json"), "w"), indent=1)
        print(f"VIOLATION property={prop_id} replay={replay} no-failing-input-found")
        print(tb[-1500:], file=sys.stderr)
        sys.exit(1)


class Check:
    def __init__(self, prop_id: str, argv: Sequence[str]):
        self.id = prop_id
        self.t0 = time.time()
        self.tier = os.environ.get("VERIF_TIER", "quick")
        self.replay_path: Optional[str] = None
        a = list(argv)
        while a:
            x = a.pop(0)
            if x == "--tier":
                self.tier = a.pop(0)
            elif x == "--replay":
                self.replay_path = a.pop(0)
        if self.tier not in ("quick", "thorough"):
            self.tier = "quick"
        self.seed = int(os.environ.get("VERIF_SEED", "0") or 0)
        self.thorough = self.tier == "thorough"
        self.evaluations = 0
        self.nontrivial: set = set()
        self.samples: List[Any] = []
        self.dist: Dict[str, int] = {}
        self.disagreements: List[Dict[str, Any]] = []   # model vs implementation
        self.failures: List[Dict[str, Any]] = []        # oracle fails on the implementation
        self.known_hits: List[Dict[str, Any]] = []
        self.tie_res: Optional[Dict[str, Any]] = None
        self.traces = 0
        self.notes: List[str] = []
        self.rule = ""
        self.assumptions: List[str] = []
        self.extra: Dict[str, Any] = {}
        kf = json.load(open(os.path.join(VERIF, "known_findings.json")))["findings"]
        self.known = [k for k in kf if k["property"] == prop_id and k["status"] == "known"]
        self.fixed = [k for k in kf if k["property"] == prop_id and k["status"] == "fixed"]

    # -- bookkeeping
    def count(self, key: str, n: int = 1):
        self.dist[key] = self.dist.get(key, 0) + n

    def case(self, canonical: Any, nontrivial: bool = True, sample: Any = None):
        self.evaluations += 1
        if nontrivial:
            h = hashlib.blake2b(repr(canonical).encode(), digest_size=8).digest()
            self.nontrivial.add(h)
        if sample is not None and len(self.samples) < 6:
            self.samples.append(sample)

    def disagree(self, what: str, inp: Any, model: Any, impl: Any):
        if len(self.disagreements) < 50:
            self.disagreements.append(dict(correspondence=what, input=inp, model=model, impl=impl))
        self.count("disagreement:" + what)

    def fail(self, what: str, inp: Any, detail: Any = None, scenario: Optional[str] = None):
        """The property's oracle failed on the implementation for this input."""
        for k in self.known:
            if scenario is not None and k.get("match", {}).get("scenario") == scenario:
                self.known_hits.append(dict(finding=k, input=inp))
                return
        if len(self.failures) < 50:
            self.failures.append(dict(oracle=what, input=inp, detail=detail, scenario=scenario))
        self.count("oracle-failure:" + what)

    def compare(self, what: str, inputs: Sequence[Any], model_out: Sequence[Any], impl_out: Sequence[Any]):
        n = 0
        for i, (m, r) in enumerate(zip(model_out, impl_out)):
            if m != r:
                self.disagree(what, inputs[i] if i < len(inputs) else i, m, r)
                n += 1
        if len(model_out) != len(impl_out):
            self.disagree(what, "length", len(model_out), len(impl_out))
        self.traces += len(impl_out)
        return n

    # -- tie
    def tie(self, targets: Sequence[str]):
        self.tie_res = tie(self.id, targets)
        if self.thorough and self.tie_res["build_ok"]:
            # independent re-check of the compiled proofs (kernel replay of the .olean files)
            ok, log = leanchecker([f"MimicProps.{self.id}"])
            self.tie_res["leanchecker_ok"] = ok
            self.notes.append("leanchecker MimicProps.%s: %s" % (self.id, "ok" if ok else "FAILED"))
            if not ok:
                self.tie_res["ok"] = False
                self.tie_res["build_ok"] = False
                self.tie_res["build_log"] = "leanchecker rejected the compiled module:\n" + log
        return self.tie_res

    def run_replays(self, names: Sequence[str]):
        """Corpus first: the design-time defects of this property (fixed ones must stay fixed)."""
        import defects

        for n in names:
            ok, detail = defects.run_one(n)
            self.count("corpus:" + n)
            self.evaluations += 1
            if not ok:
                kn = [k for k in self.known if k.get("match", {}).get("replay") == n]
                if kn:
                    self.known_hits.append(dict(finding=kn[0], input="corpus/defects.py " + n))
                else:
                    self.failures.append(dict(oracle="corpus replay " + n, input="corpus/defects.py " + n,
                                              detail=repr(detail)[:600], scenario=None))

    # -- verdict
    def finish(self):
        wall = round(time.time() - self.t0, 2)
        tr = self.tie_res or dict(ok=False, theorems=[], axioms={}, build_ok=False, build_log="tie not run",
                                  extract_errors=[], bad_axioms=[], forbidden=[], changed=[], failed_decls=[])
        proof_ok = tr["ok"]
        corr_ok = not self.disagreements
        viol = 0
        replay = None
        os.makedirs(REPLAY_DIR, exist_ok=True)
        stale = os.path.join(REPLAY_DIR, f"{self.id}_{self.tier}_{self.seed}.json")
        if os.path.exists(stale):
            os.unlink(stale)
        lines = []
        seen = set()
        for kh in self.known_hits:
            key = kh["finding"]["defect"]
            if key in seen:
                continue
            seen.add(key)
            lines.append(f"KNOWN-FINDING: property={self.id} {kh['finding']['what']}")
        if self.failures:
            viol = len(self.failures)
            replay = os.path.join(REPLAY_DIR, f"{self.id}_{self.tier}_{self.seed}.json")
            json.dump(dict(property=self.id, kind="failing-input", failures=self.failures,
                           tie_ok=proof_ok, correspondence_ok=corr_ok,
                           disagreements=self.disagreements[:10]), open(replay, "w"), indent=1, default=repr)
            lines.append(f"VIOLATION property={self.id} replay={replay}")
        elif not proof_ok or not corr_ok:
            viol = 1
            replay = os.path.join(REPLAY_DIR, f"{self.id}_{self.tier}_{self.seed}.json")
            broken = []
            if not tr["build_ok"]:
                broken.append(dict(kind="lake build failed", errors=tr.get("failed_decls"), log=tr["build_log"][-3000:]))
            if tr["extract_errors"]:
                broken.append(dict(kind="extraction failed", errors=tr["extract_errors"]))
            if tr["bad_axioms"]:
                broken.append(dict(kind="unexpected axioms", items=tr["bad_axioms"]))
            if tr["forbidden"]:
                broken.append(dict(kind="forbidden construct", items=tr["forbidden"]))
            if not corr_ok:
                broken.append(dict(kind="correspondence", first=self.disagreements[:5]))
            json.dump(dict(property=self.id, kind="tie-broken", no_longer_checks=broken,
                           searched=dict(evaluations=self.evaluations, oracle_failures=0),
                           note="the property's oracle was evaluated on every executed case and on the corpus and "
                                "did not fail on the implementation; the model can no longer be shown to describe the code"),
                      open(replay, "w"), indent=1, default=repr)
            lines.append(f"VIOLATION property={self.id} replay={replay} no-failing-input-found")
        ev = dict(
            property_id=self.id, tier=self.tier, seed=self.seed, level="proof",
            coverage=dict(
                obligations=len(tr["theorems"]) + len(self.extra.get("table_lemmas", [])),
                discharged=(len([t for t in tr["theorems"] if set(tr["axioms"].get(t, ["?"])) <= ALLOWED_AXIOMS])
                            + len(self.extra.get("table_lemmas", []))) if tr["build_ok"] else 0,
                checker_cmd="cd lean && lake build MimicProps." + self.id + " && lake env lean Audit/" + self.id + ".lean  (#print axioms on every property theorem)",
                trusted_base=sorted({a for ax in tr["axioms"].values() for a in ax}) + [
                    "Lean 4.33.0 kernel", "harness/extract.py (translator)", "correspondence harness (harness/props/%s.py)" % self.id.lower()],
                theorems=tr["theorems"],
                extracted_files_changed=tr["changed"],
                evaluations=self.evaluations,
                distinct_nontrivial=len(self.nontrivial),
                rule=self.rule,
                samples=self.samples,
                traces_validated_against_impl=self.traces,
                disagreements_checked=len(self.disagreements),
                input_distribution=dict(sorted(self.dist.items())),
                explanation="; ".join(self.notes),
                **{k: v for k, v in self.extra.items() if k != "table_lemmas"},
            ),
            assumptions=self.assumptions,
            wall_s=wall,
            violations=viol,
            known_findings=[kh["finding"]["defect"] for kh in self.known_hits][:20],
        )
        os.makedirs(EVIDENCE_DIR, exist_ok=True)
        json.dump(ev, open(os.path.join(EVIDENCE_DIR, f"{self.id}.json"), "w"), indent=1, default=repr)
        for l in lines:
            print(l)
        print(f"[{self.id}] tier={self.tier} seed={self.seed} theorems={len(tr['theorems'])} tie_ok={proof_ok} "
              f"cases={self.evaluations} distinct={len(self.nontrivial)} disagreements={len(self.disagreements)} "
              f"oracle_failures={len(self.failures)} known={len(seen)} wall={wall}s")
        sys.exit(1 if viol else 0)
