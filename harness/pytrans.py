"""Translator from the wire-primitive fragment of Python in mysql_mimic/types.py to Lean 4 (target library: lean/Mimic/Py.lean).

Encoders (`uint_*`, `str_*`): functions of ints / bytes returning bytes, built from `struct.pack("<…")` with literal or
f-string formats, integer arithmetic (`& mask`, `>> k`, `<< k`, `+`, `**`), `len`, slices `[:-k]`, calls to each
other, `if … : return …` chains and local assignments.

Readers (`read_*`): functions of a `BytesIO` (and ints) built from `reader.read(k)`, `struct.unpack("<…", data)[i]`,
calls to other readers, `if x == c: return …` chains, integer arithmetic on the unpacked tuple.  They become functions
`Bytes → Option (T × Bytes)`: the reader's position is threaded explicitly, `struct.error` (short read) is `none`.

Anything outside this fragment raises `Untranslatable`; the functions that are skipped on purpose (float readers, the
NUL-terminated reader's loop, `peek`) are listed in SKIP and stay hand-written models."""
import ast
import inspect

SKIP = {"read_float", "read_double", "read_str_null", "peek"}
UNSIGNED = {"B": 1, "H": 2, "I": 4, "L": 4, "Q": 8}
SIGNED = {"b": 1, "h": 2, "i": 4, "q": 8}


class Untranslatable(Exception):
    pass


def fmt_fields(node):
    """struct format (Constant or JoinedStr) → list of Lean Fmt terms"""
    parts = []
    if isinstance(node, ast.Constant) and isinstance(node.value, str):
        parts = [("lit", node.value)]
    elif isinstance(node, ast.JoinedStr):
        for v in node.values:
            if isinstance(v, ast.Constant):
                parts.append(("lit", v.value))
            elif isinstance(v, ast.FormattedValue) and isinstance(v.value, ast.Name) and v.conversion == -1 and v.format_spec is None:
                parts.append(("var", v.value.id))
            else:
                raise Untranslatable("format string piece " + ast.dump(v))
    else:
        raise Untranslatable("struct format " + ast.dump(node))
    out = []
    count = None
    first = True
    for kind, val in parts:
        if kind == "var":
            if count is not None:
                raise Untranslatable("two counts in a row")
            count = val
            continue
        for ch in val:
            if first:
                first = False
                if ch != "<":
                    raise Untranslatable("only little-endian formats are translated, got %r" % val)
                continue
            if ch.isdigit():
                count = (count or "") + ch if not isinstance(count, str) or count.isdigit() or count == "" else None
                if count is None:
                    raise Untranslatable("mixed count")
                continue
            if ch == "s":
                if count is None:
                    raise Untranslatable("'s' without a count")
                out.append(".s (%s)" % count)
                count = None
            elif ch in UNSIGNED or ch in SIGNED:
                if count is not None:
                    raise Untranslatable("repeat counts are not translated")
                out.append("." + ch)
            else:
                raise Untranslatable("format character %r" % ch)
    if count is not None:
        raise Untranslatable("dangling count")
    return out


class Enc:
    """encoder functions"""

    def __init__(self, sigs):
        self.sigs = sigs  # name -> (param types, return type)

    def expr(self, n, env):
        if isinstance(n, ast.Constant) and isinstance(n.value, int) and not isinstance(n.value, bool):
            return str(n.value), "nat"
        if isinstance(n, ast.Name):
            if n.id not in env:
                raise Untranslatable("free variable " + n.id)
            return n.id, env[n.id]
        if isinstance(n, ast.BinOp):
            a, ta = self.expr(n.left, env)
            b, tb = self.expr(n.right, env)
            if isinstance(n.op, ast.Pow) and ta == tb == "nat":
                return "(%s ^ %s)" % (a, b), "nat"
            if isinstance(n.op, ast.Add) and ta == tb == "nat":
                return "(%s + %s)" % (a, b), "nat"
            if isinstance(n.op, ast.Add) and ta == tb == "bytes":
                return "(%s ++ %s)" % (a, b), "bytes"
            if isinstance(n.op, ast.BitAnd) and ta == "nat" and isinstance(n.right, ast.Constant):
                m = n.right.value
                if m & (m + 1) != 0:
                    raise Untranslatable("mask %r is not 2^k-1" % m)
                return "(%s %% %d)" % (a, m + 1), "nat"
            if isinstance(n.op, ast.RShift) and ta == "nat" and isinstance(n.right, ast.Constant):
                return "(%s / %d)" % (a, 2 ** n.right.value), "nat"
            if isinstance(n.op, ast.LShift) and ta == "nat" and isinstance(n.right, ast.Constant):
                return "(%s * %d)" % (a, 2 ** n.right.value), "nat"
            raise Untranslatable("binary operator " + ast.dump(n.op))
        if isinstance(n, ast.Compare) and len(n.ops) == 1:
            a, ta = self.expr(n.left, env)
            b, tb = self.expr(n.comparators[0], env)
            op = {ast.Lt: "<", ast.LtE: "≤", ast.Eq: "=", ast.Gt: ">", ast.GtE: "≥"}.get(type(n.ops[0]))
            if op is None or ta != "nat" or tb != "nat":
                raise Untranslatable("comparison " + ast.dump(n))
            return "%s %s %s" % (a, op, b), "bool"
        if isinstance(n, ast.Subscript) and isinstance(n.slice, ast.Slice):
            a, ta = self.expr(n.value, env)
            sl = n.slice
            if ta == "bytes" and sl.lower is None and sl.step is None and isinstance(sl.upper, ast.UnaryOp) and isinstance(sl.upper.op, ast.USub) \
                    and isinstance(sl.upper.operand, ast.Constant):
                return "(List.dropLast^[%d] %s)" % (sl.upper.operand.value, a) if sl.upper.operand.value != 1 else "(%s).dropLast" % a, "bytes"
            raise Untranslatable("slice " + ast.dump(sl))
        if isinstance(n, ast.Call):
            f = n.func
            if isinstance(f, ast.Attribute) and isinstance(f.value, ast.Name) and f.value.id == "struct" and f.attr == "pack":
                fields = fmt_fields(n.args[0])
                args = [self.expr(a, env) for a in n.args[1:]]
                if len(fields) != len(args):
                    raise Untranslatable("struct.pack: %d fields, %d arguments" % (len(fields), len(args)))
                items = []
                for fld, (a, ta) in zip(fields, args):
                    if ta == "nat":
                        items.append("(%s, .int %s)" % (fld, a))
                    elif ta == "bytes":
                        items.append("(%s, .bytes %s)" % (fld, a))
                    else:
                        raise Untranslatable("struct.pack argument of type " + ta)
                return "(Mimic.Py.pack [%s])" % ", ".join(items), "bytes"
            if isinstance(f, ast.Name) and f.id == "len" and len(n.args) == 1:
                a, ta = self.expr(n.args[0], env)
                if ta != "bytes":
                    raise Untranslatable("len of " + ta)
                return "(%s).length" % a, "nat"
            if isinstance(f, ast.Name) and f.id in self.sigs:
                ptypes, rt = self.sigs[f.id]
                args = [self.expr(a, env) for a in n.args]
                if [t for _, t in args] != ptypes:
                    raise Untranslatable("call of %s with %r" % (f.id, [t for _, t in args]))
                return "(%s %s)" % (f.id, " ".join(a for a, _ in args)), rt
            raise Untranslatable("call " + ast.dump(f))
        raise Untranslatable("expression " + ast.dump(n))

    def body(self, stmts, env, indent):
        if not stmts:
            raise Untranslatable("function falls off its end")
        s = stmts[0]
        pad = "  " * indent
        if isinstance(s, ast.Expr) and isinstance(s.value, ast.Constant):
            return self.body(stmts[1:], env, indent)      # docstring
        if isinstance(s, ast.Return):
            e, t = self.expr(s.value, env)
            if t != "bytes":
                raise Untranslatable("encoder returns " + t)
            return pad + e
        if isinstance(s, ast.Assign) and len(s.targets) == 1 and isinstance(s.targets[0], ast.Name):
            e, t = self.expr(s.value, env)
            env2 = dict(env)
            env2[s.targets[0].id] = t
            return pad + "let %s := %s\n" % (s.targets[0].id, e) + self.body(stmts[1:], env2, indent)
        if isinstance(s, ast.If) and not s.orelse and len(s.body) == 1 and isinstance(s.body[0], ast.Return):
            c, tc = self.expr(s.test, env)
            if tc != "bool":
                raise Untranslatable("condition of type " + tc)
            e, t = self.expr(s.body[0].value, env)
            return pad + "if %s then %s else\n" % (c, e) + self.body(stmts[1:], env, indent)
        raise Untranslatable("statement " + ast.dump(s)[:200])


class Rd:
    """reader functions: (lean return type, body)"""

    def __init__(self, sigs):
        self.sigs = sigs   # name -> (extra param names, result type 'nat' | 'int' | 'bytes')

    def iexpr(self, n, env):
        """integer expressions over unpacked tuple elements and ints"""
        if isinstance(n, ast.Constant) and isinstance(n.value, int):
            return str(n.value), "nat"
        if isinstance(n, ast.Name) and n.id in env:
            return n.id, env[n.id]
        if isinstance(n, ast.Subscript) and isinstance(n.value, ast.Name) and n.value.id in env and env[n.value.id].startswith("tuple:") \
                and isinstance(n.slice, ast.Constant):
            kinds = env[n.value.id][6:].split(",")
            k = kinds[n.slice.value]
            if k == "u":
                return "(%s.getD %d 0).toNat" % (n.value.id, n.slice.value), "nat"
            return "(%s.getD %d 0)" % (n.value.id, n.slice.value), "int"
        if isinstance(n, ast.BinOp):
            a, ta = self.iexpr(n.left, env)
            b, tb = self.iexpr(n.right, env)
            if ta == tb == "nat":
                if isinstance(n.op, ast.Add):
                    return "(%s + %s)" % (a, b), "nat"
                if isinstance(n.op, ast.LShift) and isinstance(n.right, ast.Constant):
                    return "(%s * %d)" % (a, 2 ** n.right.value), "nat"
            raise Untranslatable("reader arithmetic " + ast.dump(n.op))
        raise Untranslatable("reader expression " + ast.dump(n)[:200])

    def unpack(self, call, env):
        """struct.unpack(fmt, data) → (lean list-of-fmt, data var, kinds)"""
        if not (isinstance(call, ast.Call) and isinstance(call.func, ast.Attribute) and isinstance(call.func.value, ast.Name)
                and call.func.value.id == "struct" and call.func.attr == "unpack" and len(call.args) == 2 and isinstance(call.args[1], ast.Name)):
            raise Untranslatable("expected struct.unpack(fmt, data)")
        fields = fmt_fields(call.args[0])
        kinds = []
        for f in fields:
            ch = f[1:]
            if ch in UNSIGNED:
                kinds.append("u")
            elif ch in SIGNED:
                kinds.append("s")
            else:
                raise Untranslatable("unpack field " + f)
        d = call.args[1].id
        if env.get(d) != "bytes":
            raise Untranslatable("unpack of non-bytes " + d)
        return "[%s]" % ", ".join(fields), d, kinds

    def body(self, stmts, env, r, indent, rtype):
        """returns Lean text of type Option (T × Bytes); `r` is the name of the current reader state"""
        pad = "  " * indent
        if not stmts:
            raise Untranslatable("reader falls off its end")
        s = stmts[0]
        rest = stmts[1:]
        if isinstance(s, ast.Expr) and isinstance(s.value, ast.Constant):
            return self.body(rest, env, r, indent, rtype)
        # data = reader.read(k)
        if isinstance(s, ast.Assign) and len(s.targets) == 1 and isinstance(s.targets[0], ast.Name) and self.is_read(s.value):
            k = self.read_arg(s.value, env)
            v = s.targets[0].id
            r2 = r + "'"
            env2 = dict(env)
            env2[v] = "bytes"
            if k is None:
                return pad + "let %s := %s\n" % (v, r) + pad + "let %s : Mimic.Py.Bytes := []\n" % r2 + self.body(rest, env2, r2, indent, rtype)
            return (pad + "let %s := (Mimic.Py.read %s %s).1\n" % (v, k, r) + pad + "let %s := (Mimic.Py.read %s %s).2\n" % (r2, k, r)
                    + self.body(rest, env2, r2, indent, rtype))
        # t = struct.unpack(fmt, data)
        if isinstance(s, ast.Assign) and len(s.targets) == 1 and isinstance(s.targets[0], ast.Name) and isinstance(s.value, ast.Call) \
                and isinstance(s.value.func, ast.Attribute) and s.value.func.attr == "unpack":
            fl, d, kinds = self.unpack(s.value, env)
            v = s.targets[0].id
            env2 = dict(env)
            env2[v] = "tuple:" + ",".join(kinds)
            return (pad + "match Mimic.Py.unpack %s %s with\n" % (fl, d) + pad + "| none => none\n" + pad + "| some %s =>\n" % v
                    + self.body(rest, env2, r, indent + 1, rtype))
        # x = other_reader(reader, ...)
        if isinstance(s, ast.Assign) and len(s.targets) == 1 and isinstance(s.targets[0], ast.Name) and self.is_reader_call(s.value):
            call, t = self.reader_call(s.value, env, r)
            v = s.targets[0].id
            r2 = r + "'"
            env2 = dict(env)
            env2[v] = t
            return (pad + "match %s with\n" % call + pad + "| none => none\n" + pad + "| some (%s, %s) =>\n" % (v, r2)
                    + self.body(rest, env2, r2, indent + 1, rtype))
        # if x == c: return ...
        if isinstance(s, ast.If) and not s.orelse and len(s.body) == 1 and isinstance(s.body[0], ast.Return):
            t = s.test
            if not (isinstance(t, ast.Compare) and len(t.ops) == 1 and isinstance(t.ops[0], ast.Eq)):
                raise Untranslatable("reader condition " + ast.dump(t))
            a, ta = self.iexpr(t.left, env)
            b, tb = self.iexpr(t.comparators[0], env)
            return (pad + "if %s = %s then\n" % (a, b) + self.ret(s.body[0], env, r, indent + 1, rtype) + "\n" + pad + "else\n"
                    + self.body(rest, env, r, indent + 1, rtype))
        if isinstance(s, ast.Return):
            return self.ret(s, env, r, indent, rtype)
        raise Untranslatable("reader statement " + ast.dump(s)[:200])

    def is_read(self, n):
        return (isinstance(n, ast.Call) and isinstance(n.func, ast.Attribute) and n.func.attr == "read"
                and isinstance(n.func.value, ast.Name) and n.func.value.id == "reader")

    def read_arg(self, n, env):
        if not n.args:
            return None
        a = n.args[0]
        if isinstance(a, ast.Constant):
            return str(a.value)
        if isinstance(a, ast.Name) and env.get(a.id) == "nat":
            return a.id
        raise Untranslatable("reader.read argument " + ast.dump(a))

    def is_reader_call(self, n):
        return isinstance(n, ast.Call) and isinstance(n.func, ast.Name) and n.func.id in self.sigs

    def reader_call(self, n, env, r):
        extra, t = self.sigs[n.func.id]
        if not (n.args and isinstance(n.args[0], ast.Name) and n.args[0].id == "reader"):
            raise Untranslatable("reader call without the reader as first argument")
        args = []
        for a in n.args[1:]:
            e, ta = self.iexpr(a, env)
            if ta != "nat":
                raise Untranslatable("reader call argument of type " + ta)
            args.append(e)
        if len(args) != len(extra):
            raise Untranslatable("arity of " + n.func.id)
        return "%s %s%s" % (n.func.id, r, "".join(" " + a for a in args)), t

    def ret(self, s, env, r, indent, rtype):
        pad = "  " * indent
        v = s.value
        # return struct.unpack(fmt, data)[i]
        if isinstance(v, ast.Subscript) and isinstance(v.slice, ast.Constant) and isinstance(v.value, ast.Call) and isinstance(v.value.func, ast.Attribute) \
                and v.value.func.attr == "unpack":
            fl, d, kinds = self.unpack(v.value, env)
            k = kinds[v.slice.value]
            got = "(t.getD %d 0).toNat" % v.slice.value if k == "u" else "(t.getD %d 0)" % v.slice.value
            want = "nat" if k == "u" else "int"
            if want != rtype:
                raise Untranslatable("return type %s where %s expected" % (want, rtype))
            return pad + "match Mimic.Py.unpack %s %s with\n" % (fl, d) + pad + "| none => none\n" + pad + "| some t => some (%s, %s)" % (got, r)
        if self.is_read(v):
            if rtype != "bytes":
                raise Untranslatable("returns bytes where %s expected" % rtype)
            k = self.read_arg(v, env)
            if k is None:
                return pad + "some (%s, [])" % r
            if not k.isdigit():
                return pad + "Mimic.Py.readN %s %s" % (k, r)        # computed size: OverflowError past 2^63-1
            return pad + "some (Mimic.Py.read %s %s)" % (k, r)
        if self.is_reader_call(v):
            call, t = self.reader_call(v, env, r)
            if t != rtype:
                raise Untranslatable("returns %s where %s expected" % (t, rtype))
            return pad + call
        e, t = self.iexpr(v, env)
        if t != rtype:
            raise Untranslatable("returns %s where %s expected" % (t, rtype))
        return pad + "some (%s, %s)" % (e, r)


LEAN_T = {"nat": "Nat", "int": "Int", "bytes": "Mimic.Py.Bytes"}


def translate_types_module():
    """→ Lean source of namespace Mimic.Extracted.Types"""
    from mysql_mimic import types as T
    tree = ast.parse(inspect.getsource(T))
    funcs = [n for n in tree.body if isinstance(n, ast.FunctionDef)]
    enc_sigs, rd_sigs = {}, {}
    for f in funcs:
        if f.name in SKIP:
            continue
        params = [a.arg for a in f.args.args]
        ann = {a.arg: ast.unparse(a.annotation) if a.annotation is not None else None for a in f.args.args}
        ret = ast.unparse(f.returns) if f.returns is not None else None
        if params and params[0] == "reader":
            extra = params[1:]
            if any(ann[p] != "int" for p in extra):
                raise Untranslatable("reader %s: parameter types %r" % (f.name, ann))
            # result type: decided from the body below (signed formats → int)
            rd_sigs[f.name] = (extra, {"int": "nat", "bytes": "bytes"}.get(ret))
        elif ret == "bytes":
            ptypes = []
            for p in params:
                if ann[p] == "int":
                    ptypes.append("nat")
                elif ann[p] == "bytes":
                    ptypes.append("bytes")
                else:
                    raise Untranslatable("encoder %s: parameter %s : %s" % (f.name, p, ann[p]))
            enc_sigs[f.name] = (ptypes, "bytes")
        else:
            raise Untranslatable("function %s has an unexpected signature" % f.name)
    # readers whose unpack format is signed return Int
    for f in funcs:
        if f.name in rd_sigs and rd_sigs[f.name][1] == "nat":
            src = ast.unparse(f)
            import re
            m = re.search(r"struct\.unpack\('<([a-zA-Z]+)'", src)
            if m and all(ch in SIGNED for ch in m.group(1)):
                rd_sigs[f.name] = (rd_sigs[f.name][0], "int")
    out = ["-- GENERATED by harness/extract.py (harness/pytrans.py) from /repo/mysql_mimic/types.py — do not edit",
           "import Mimic.Py", "namespace Mimic.Extracted.Types", "open Mimic.Py", ""]
    enc = Enc(enc_sigs)
    rd = Rd(rd_sigs)
    names = []
    for f in funcs:
        if f.name in enc_sigs:
            ptypes, _ = enc_sigs[f.name]
            params = [a.arg for a in f.args.args]
            env = dict(zip(params, ptypes))
            body = enc.body(f.body, env, 1)
            out.append("def %s %s: Bytes :=\n%s\n" % (f.name, "".join("(%s : %s) " % (p, LEAN_T[t]) for p, t in zip(params, ptypes)), body))
            names.append(f.name)
        elif f.name in rd_sigs:
            extra, t = rd_sigs[f.name]
            env = {p: "nat" for p in extra}
            body = rd.body(f.body, env, "r", 1, t)
            out.append("def %s (r : Bytes) %s: Option (%s × Bytes) :=\n%s\n" % (f.name, "".join("(%s : Nat) " % p for p in extra), LEAN_T[t], body))
            names.append(f.name)
    out.append("def translated : List String := [%s]" % ", ".join('"%s"' % n for n in names))
    out.append("def skipped : List String := [%s]" % ", ".join('"%s"' % n for n in sorted(SKIP)))
    out.append("end Mimic.Extracted.Types")
    return "\n".join(out) + "\n"


if __name__ == "__main__":
    print(translate_types_module())


# ----------------------------------------------------------------------------- value encoders of results.py
class FieldEnc(Enc):
    """encoders over the fields of a date / datetime / timedelta value: `val.<field>` becomes a parameter, isinstance
    tests are decided by the specialisation, `b"".join([...])`, chained comparisons, divmod and nested ifs are translated"""

    def __init__(self, sigs, fields, isinstance_facts):
        super().__init__(sigs)
        self.fields = fields            # attribute name -> parameter name
        self.facts = isinstance_facts   # unparse(isinstance test) -> bool

    def expr(self, n, env):
        if isinstance(n, ast.Attribute) and isinstance(n.value, ast.Name) and n.value.id == "val" and n.attr in self.fields:
            return self.fields[n.attr], "nat"
        if isinstance(n, ast.Compare) and len(n.ops) > 1 and all(isinstance(o, ast.Eq) for o in n.ops):
            items = [self.expr(x, env) for x in [n.left] + n.comparators]
            if any(t != "nat" for _, t in items):
                raise Untranslatable("chained comparison of non-integers")
            return "(" + " ∧ ".join("%s = %s" % (items[i][0], items[i + 1][0]) for i in range(len(items) - 1)) + ")", "bool"
        if isinstance(n, ast.Call) and isinstance(n.func, ast.Attribute) and n.func.attr == "join" and isinstance(n.func.value, ast.Constant) \
                and n.func.value.value == b"" and len(n.args) == 1 and isinstance(n.args[0], ast.List):
            items = [self.expr(x, env) for x in n.args[0].elts]
            if any(t != "bytes" for _, t in items):
                raise Untranslatable("join of non-bytes")
            return "(" + " ++ ".join(a for a, _ in items) + ")", "bytes"
        return super().expr(n, env)

    def decide(self, test):
        u = ast.unparse(test)
        if u in self.facts:
            return self.facts[u]
        return None

    def block(self, stmts, env, indent):
        """a block that ends by returning on every path"""
        pad = "  " * indent
        if not stmts:
            raise Untranslatable("block falls off its end")
        s, rest = stmts[0], stmts[1:]
        if isinstance(s, ast.Expr) and isinstance(s.value, ast.Constant):
            return self.block(rest, env, indent)
        if isinstance(s, ast.Return):
            e, t = self.expr(s.value, env)
            if t != "bytes":
                raise Untranslatable("encoder returns " + t)
            return pad + e
        if isinstance(s, ast.Assign):
            # val = abs(val) / val = datetime.fromtimestamp(val): the value object itself is abstract here
            if len(s.targets) == 1 and isinstance(s.targets[0], ast.Name) and s.targets[0].id == "val":
                return self.block(rest, env, indent)
            # a, b = divmod(x, k)
            if len(s.targets) == 1 and isinstance(s.targets[0], ast.Tuple) and isinstance(s.value, ast.Call) and isinstance(s.value.func, ast.Name) \
                    and s.value.func.id == "divmod" and len(s.targets[0].elts) == 2:
                x, tx = self.expr(s.value.args[0], env)
                k, tk = self.expr(s.value.args[1], env)
                a, b = [e.id for e in s.targets[0].elts]
                env2 = dict(env)
                env2[a] = env2[b] = "nat"
                return pad + "let %s := %s / %s\n" % (a, x, k) + pad + "let %s := %s %% %s\n" % (b, x, k) + self.block(rest, env2, indent)
            # is_negative = val < timedelta(0): a fact about the abstract value, supplied as a parameter
            if len(s.targets) == 1 and isinstance(s.targets[0], ast.Name) and isinstance(s.value, ast.Compare) and "timedelta" in ast.unparse(s.value):
                if s.targets[0].id not in env:
                    raise Untranslatable("sign test assigned to a name that is not a parameter")
                return self.block(rest, env, indent)
            # x = y = z = expr
            e, t = self.expr(s.value, env)
            env2 = dict(env)
            out = ""
            for tg in s.targets:
                if not isinstance(tg, ast.Name):
                    raise Untranslatable("assignment target " + ast.dump(tg))
                if tg.id in self.fields.values():
                    # re-binding of a field parameter (year = val.year): identity
                    if e != tg.id:
                        out += pad + "let %s := %s\n" % (tg.id, e)
                else:
                    out += pad + "let %s := %s\n" % (tg.id, e)
                env2[tg.id] = t
            return out + self.block(rest, env2, indent)
        if isinstance(s, ast.If):
            d = self.decide(s.test)
            if d is True:
                return self.block(list(s.body) + ([] if self.returns(s.body) else rest), env, indent)
            if d is False:
                return self.block(list(s.orelse) + rest, env, indent)
            c, tc = self.expr(s.test, env)
            if tc != "bool":
                raise Untranslatable("condition of type " + tc)
            if not self.returns(s.body):
                raise Untranslatable("if-branch that does not return")
            els = list(s.orelse) + rest if not (s.orelse and self.returns(s.orelse)) else list(s.orelse)
            return pad + "if %s then\n" % c + self.block(list(s.body), env, indent + 1) + "\n" + pad + "else\n" + self.block(els, env, indent + 1)
        raise Untranslatable("statement " + ast.dump(s)[:200])

    def returns(self, stmts):
        if not stmts:
            return False
        last = stmts[-1]
        if isinstance(last, ast.Return):
            return True
        if isinstance(last, ast.If) and last.orelse:
            return self.returns(last.body) and self.returns(last.orelse)
        return False


def translate_results_encoders():
    """→ Lean source of namespace Mimic.Extracted.ResultsCode: _binary_encode_date (datetime and date specialisations)
    and _binary_encode_timedelta as functions of the value's fields"""
    from mysql_mimic import results as R
    tree = ast.parse(inspect.getsource(R))
    fn = {n.name: n for n in tree.body if isinstance(n, ast.FunctionDef)}
    sigs = {"uint_1": (["nat"], "bytes"), "uint_2": (["nat"], "bytes"), "uint_4": (["nat"], "bytes")}
    out = ["-- GENERATED by harness/extract.py (harness/pytrans.py) from /repo/mysql_mimic/results.py — do not edit",
           "import Mimic.Py", "import Mimic.Extracted.Types", "namespace Mimic.Extracted.ResultsCode", "open Mimic.Py Mimic.Extracted.Types", ""]
    # datetime value
    dt_fields = {k: k for k in ("year", "month", "day", "hour", "minute", "second", "microsecond")}
    f = fn["_binary_encode_date"]
    e = FieldEnc(sigs, dt_fields, {"isinstance(val, (float, int))": False, "isinstance(val, datetime)": True})
    env = {k: "nat" for k in dt_fields}
    out.append("/-- `_binary_encode_date` for a `datetime` value -/\ndef binary_encode_datetime (year month day hour minute second microsecond : Nat) : Bytes :=\n"
               + e.block(f.body, env, 1) + "\n")
    e = FieldEnc(sigs, {k: k for k in ("year", "month", "day")}, {"isinstance(val, (float, int))": False, "isinstance(val, datetime)": False})
    env = {k: "nat" for k in ("year", "month", "day")}
    out.append("/-- `_binary_encode_date` for a `date` value -/\ndef binary_encode_date (year month day : Nat) : Bytes :=\n" + e.block(f.body, env, 1) + "\n")
    # timedelta value: abs(val).days / .seconds / .microseconds and the sign
    f = fn["_binary_encode_timedelta"]
    td_fields = {"days": "days", "seconds": "seconds", "microseconds": "microseconds"}
    e = FieldEnc(sigs, td_fields, {})
    env = {"days": "nat", "seconds": "nat", "microseconds": "nat", "is_negative": "nat"}
    out.append("/-- `_binary_encode_timedelta`: fields of `abs(val)` and the sign (0 / 1) -/\n"
               "def binary_encode_timedelta (is_negative days seconds microseconds : Nat) : Bytes :=\n" + e.block(f.body, env, 1) + "\n")
    out.append("end Mimic.Extracted.ResultsCode")
    return "\n".join(out) + "\n"


# ----------------------------------------------------------------------------- reply packet builders of packets.py
class PartsEnc(Enc):
    """functions that collect `parts` and return `_concat(*parts)`.  Text arguments stand for their encoded bytes
    (`server_charset.encode(x)` is `x`): the codec is abstract."""

    def __init__(self, sigs, caps_bits):
        super().__init__(sigs)
        self.caps_bits = caps_bits

    def expr(self, n, env):
        if isinstance(n, ast.Constant) and isinstance(n.value, bytes):
            return "([%s] : Bytes)" % ", ".join(str(b) for b in n.value), "bytes"
        if isinstance(n, ast.Constant) and isinstance(n.value, str) and n.value == "":
            return "([] : Bytes)", "bytes"
        if isinstance(n, ast.Name) and env.get(n.id) == "bool":
            return n.id, "boolv"
        if isinstance(n, ast.UnaryOp) and isinstance(n.op, ast.Not):
            a, ta = self.expr(n.operand, env)
            if ta == "boolv":
                return "%s = false" % a, "bool"
            raise Untranslatable("not of " + ta)
        if isinstance(n, ast.IfExp):
            c, tc = self.cond(n.test, env)
            a, ta = self.expr(n.body, env)
            b, tb = self.expr(n.orelse, env)
            if ta != tb:
                raise Untranslatable("conditional expression with branches of different types")
            return "(if %s then %s else %s)" % (c, a, b), ta
        if isinstance(n, ast.BinOp) and isinstance(n.op, ast.BitOr):
            a, ta = self.expr(n.left, env)
            b, tb = self.expr(n.right, env)
            if ta == tb == "nat":
                return "(%s ||| %s)" % (a, b), "nat"
            raise Untranslatable("| on " + ta)
        if isinstance(n, ast.Compare) and len(n.ops) == 1 and isinstance(n.ops[0], ast.In) and isinstance(n.left, ast.Attribute) \
                and isinstance(n.left.value, ast.Name) and n.left.value.id == "Capabilities":
            a, ta = self.expr(n.comparators[0], env)
            if n.left.attr not in self.caps_bits or ta != "nat":
                raise Untranslatable("capability test " + ast.unparse(n))
            return "Mimic.Py.hasBit %s %d = true" % (a, self.caps_bits[n.left.attr]), "bool"
        if isinstance(n, ast.Compare) and len(n.ops) == 1 and isinstance(n.ops[0], ast.Is) and isinstance(n.comparators[0], ast.Constant) \
                and n.comparators[0].value is None and isinstance(n.left, ast.Name) and env.get(n.left.id) == "optbytes":
            return "%s = none" % n.left.id, "bool"
        if isinstance(n, ast.Call) and isinstance(n.func, ast.Attribute) and n.func.attr == "encode" and isinstance(n.func.value, ast.Name) \
                and n.func.value.id == "server_charset" and len(n.args) == 1:
            a = n.args[0]
            if isinstance(a, ast.Call) and isinstance(a.func, ast.Name) and a.func.id == "str" and len(a.args) == 1:
                a = a.args[0]
            if isinstance(a, ast.Name) and env.get(a.id) == "bytes":
                return a.id, "bytes"
            if isinstance(a, ast.Name) and env.get(a.id) == "optbytes":
                return "(%s.getD [])" % a.id, "bytes"
            raise Untranslatable("server_charset.encode of " + ast.unparse(a))
        if isinstance(n, ast.Call) and isinstance(n.func, ast.Name) and n.func.id == "len" and len(n.args) == 1:
            a, ta = self.expr(n.args[0], env)
            if ta == "bytes":
                return "(%s).length" % a, "nat"
        return super().expr(n, env)

    def cond(self, n, env):
        c, t = self.expr(n, env)
        if t == "boolv":
            return "%s = true" % c, "bool"
        if t != "bool":
            raise Untranslatable("condition of type " + t)
        return c, "bool"

    def appends(self, stmts, env, acc):
        """a block that only extends `parts` (possibly under nested ifs) → Lean expression for the new value of parts"""
        for s in stmts:
            if isinstance(s, ast.Expr) and isinstance(s.value, ast.Call) and isinstance(s.value.func, ast.Attribute) \
                    and isinstance(s.value.func.value, ast.Name) and s.value.func.value.id == "parts":
                m = s.value.func.attr
                if m == "append":
                    e, t = self.expr(s.value.args[0], env)
                    if t != "bytes":
                        raise Untranslatable("append of " + t)
                    acc = "(%s ++ %s)" % (acc, e)
                elif m == "extend" and isinstance(s.value.args[0], ast.List):
                    for x in s.value.args[0].elts:
                        e, t = self.expr(x, env)
                        if t != "bytes":
                            raise Untranslatable("extend with " + t)
                        acc = "(%s ++ %s)" % (acc, e)
                else:
                    raise Untranslatable("parts." + m)
            elif isinstance(s, ast.If):
                c, _ = self.cond(s.test, env)
                a = self.appends(s.body, env, acc)
                b = self.appends(s.orelse, env, acc) if s.orelse else acc
                acc = "(if %s then %s else %s)" % (c, a, b)
            elif isinstance(s, ast.Assign) and len(s.targets) == 1 and isinstance(s.targets[0], ast.Name):
                # a local used by the appends that follow (e.g. default_values = server_charset.encode(default))
                e, t = self.expr(s.value, env)
                env[s.targets[0].id] = t
                acc = "(let %s := %s; %s)" % (s.targets[0].id, e, "%s")
                raise Untranslatable("local assignment inside an append block")
            else:
                raise Untranslatable("statement in append block: " + ast.dump(s)[:120])
        return acc

    def function(self, f, env):
        lets = []
        parts = None
        for s in f.body:
            if isinstance(s, ast.Expr) and isinstance(s.value, ast.Constant):
                continue
            if isinstance(s, ast.Assign) and len(s.targets) == 1 and isinstance(s.targets[0], ast.Name) and s.targets[0].id == "parts" \
                    and isinstance(s.value, ast.List):
                items = [self.expr(x, env) for x in s.value.elts]
                if any(t != "bytes" for _, t in items):
                    raise Untranslatable("parts element that is not bytes")
                parts = "(" + " ++ ".join(a for a, _ in items) + ")" if items else "([] : Bytes)"
                continue
            if isinstance(s, ast.Assign) and len(s.targets) == 1 and isinstance(s.targets[0], ast.Name) and isinstance(s.value, ast.BoolOp) \
                    and isinstance(s.value.op, ast.Or) and len(s.value.values) == 2 and isinstance(s.value.values[0], ast.Name) \
                    and s.value.values[0].id == s.targets[0].id and env.get(s.targets[0].id) == "bytes":
                b = s.value.values[1]
                if isinstance(b, ast.Constant) and b.value == "":
                    continue                      # x = x or ""  : the empty text encodes to no bytes
                e, t = self.expr(b, env)
                if t != "bytes":
                    raise Untranslatable("x or <%s>" % t)
                v = s.targets[0].id
                lets.append("let %s := if %s = [] then %s else %s" % (v, v, e, v))
                continue
            if isinstance(s, ast.Return):
                if not (isinstance(s.value, ast.Call) and isinstance(s.value.func, ast.Name) and s.value.func.id == "_concat"
                        and len(s.value.args) == 1 and isinstance(s.value.args[0], ast.Starred)):
                    raise Untranslatable("return " + ast.unparse(s.value))
                if parts is None:
                    raise Untranslatable("return before parts")
                return "".join("  %s\n" % l for l in lets) + "  " + parts
            if parts is None:
                raise Untranslatable("statement before parts: " + ast.dump(s)[:120])
            parts = self.appends([s], env, parts)
        raise Untranslatable("no return")


def translate_reply_builders():
    from mysql_mimic import packets as P, errors as E
    from mysql_mimic.types import Capabilities
    tree = ast.parse(inspect.getsource(P))
    fn = {n.name: n for n in tree.body if isinstance(n, ast.FunctionDef)}
    caps_bits = {c.name: int(c).bit_length() - 1 for c in Capabilities}
    sigs = {"uint_1": (["nat"], "bytes"), "uint_2": (["nat"], "bytes"), "uint_3": (["nat"], "bytes"), "uint_4": (["nat"], "bytes"),
            "uint_8": (["nat"], "bytes"), "uint_len": (["nat"], "bytes"), "str_len": (["bytes"], "bytes"), "str_rest": (["bytes"], "bytes"),
            "str_null": (["bytes"], "bytes"), "str_fixed": (["nat", "bytes"], "bytes"), "get_sqlstate": (["nat"], "bytes")}
    out = ["-- GENERATED by harness/extract.py (harness/pytrans.py) from /repo/mysql_mimic/packets.py, errors.py — do not edit",
           "import Mimic.Py", "import Mimic.Extracted.Types", "namespace Mimic.Extracted.PacketsCode", "open Mimic.Py Mimic.Extracted.Types", ""]
    # get_sqlstate from the table
    src = inspect.getsource(E.get_sqlstate)
    if "SQLSTATES.get(code, b\"HY000\")" not in src and "SQLSTATES.get(code, b'HY000')" not in src:
        raise Untranslatable("get_sqlstate is no longer a table lookup with default HY000")
    rows = ", ".join("(%d, [%s])" % (int(k), ", ".join(str(b) for b in v)) for k, v in E.SQLSTATES.items())
    out.append("def sqlstates : List (Nat × Bytes) := [%s]" % rows)
    out.append("def get_sqlstate (code : Nat) : Bytes := (sqlstates.lookup code).getD [72, 89, 48, 48, 48]\n")
    e = PartsEnc(sigs, caps_bits)
    specs = [
        ("make_ok", [("capabilities", "nat"), ("status_flags", "nat"), ("eof", "bool"), ("affected_rows", "nat"), ("last_insert_id", "nat"),
                     ("warnings", "nat"), ("flags", "nat")]),
        ("make_eof", [("capabilities", "nat"), ("status_flags", "nat"), ("warnings", "nat"), ("flags", "nat")]),
        ("make_error", [("capabilities", "nat"), ("msg", "bytes"), ("code", "nat")]),
        ("make_column_definition_41", [("schema", "bytes"), ("table", "bytes"), ("org_table", "bytes"), ("name", "bytes"), ("org_name", "bytes"),
                                       ("character_set", "nat"), ("column_length", "nat"), ("column_type", "nat"), ("flags", "nat"), ("decimals", "nat"),
                                       ("is_com_field_list", "bool"), ("default", "optbytes")]),
    ]
    lt = {"nat": "Nat", "bytes": "Bytes", "bool": "Bool", "optbytes": "Option Bytes"}
    for name, params in specs:
        f = fn[name]
        declared = [a.arg for a in f.args.args]
        want = [p for p, _ in params]
        if [p for p in declared if p != "server_charset"] != want:
            raise Untranslatable("%s: parameters are %r" % (name, declared))
        env = dict(params)
        body = e.function(f, env)
        out.append("def %s %s: Bytes :=\n%s\n" % (name, "".join("(%s : %s) " % (p, lt[t]) for p, t in params), body))
    out.append("end Mimic.Extracted.PacketsCode")
    return "\n".join(out) + "\n"


# ----------------------------------------------------------------------------- the catalog-routing decision of session.py
def translate_info_schema_decision():
    """Session._info_schema_middleware: the comprehension that resolves unqualified tables and the all(...) test.
    → Lean: info_schema_intercepts (found : List String) (database : Option String) (catalog : List String) : Bool"""
    from mysql_mimic import session as S
    tree = ast.parse(inspect.getsource(S))
    f = None
    for n in ast.walk(tree):
        if isinstance(n, ast.AsyncFunctionDef) and n.name == "_info_schema_middleware":
            f = n
    if f is None:
        raise Untranslatable("_info_schema_middleware not found")
    body = [s for s in f.body if not (isinstance(s, ast.Expr) and isinstance(s.value, ast.Constant))]
    if len(body) != 3:
        raise Untranslatable("_info_schema_middleware: expected assignment, if, return; got %d statements" % len(body))
    asg, cond, ret = body
    # dbs = [<or-chain over db, self.database, ""> for db in find_dbs(q.expression)]
    if not (isinstance(asg, ast.Assign) and isinstance(asg.value, ast.ListComp) and len(asg.value.generators) == 1
            and not asg.value.generators[0].ifs and ast.unparse(asg.value.generators[0].iter) == "find_dbs(q.expression)"):
        raise Untranslatable("first statement is not `dbs = [... for db in find_dbs(q.expression)]`")
    var = asg.value.generators[0].target.id
    lst = asg.targets[0].id

    def strexpr(n):
        """string-valued expression → Lean term of type String"""
        if isinstance(n, ast.Name) and n.id == var:
            return var
        if isinstance(n, ast.Constant) and isinstance(n.value, str):
            return lean_string(n.value)
        if isinstance(n, ast.Attribute) and ast.unparse(n) == "self.database":
            return "(database.getD \"\")"          # None and "" are both falsy
        if isinstance(n, ast.BoolOp) and isinstance(n.op, ast.Or):
            parts = [strexpr(v) for v in n.values]
            out = parts[-1]
            for p in reversed(parts[:-1]):
                out = "(if %s ≠ \"\" then %s else %s)" % (p, p, out)
            return out
        if isinstance(n, ast.Call) and isinstance(n.func, ast.Attribute) and n.func.attr == "lower" and not n.args:
            return "(Mimic.Py.lower %s)" % strexpr(n.func.value)
        raise Untranslatable("string expression " + ast.unparse(n))

    elt = strexpr(asg.value.elt)
    # if dbs and all(<test> for db in dbs): return await self._query_info_schema(q.expression)
    if not (isinstance(cond, ast.If) and not cond.orelse and isinstance(cond.test, ast.BoolOp) and isinstance(cond.test.op, ast.And)
            and len(cond.test.values) == 2 and isinstance(cond.test.values[0], ast.Name) and cond.test.values[0].id == lst):
        raise Untranslatable("second statement is not `if dbs and all(...)`")
    allc = cond.test.values[1]
    if not (isinstance(allc, ast.Call) and isinstance(allc.func, ast.Name) and allc.func.id == "all" and isinstance(allc.args[0], ast.GeneratorExp)
            and ast.unparse(allc.args[0].generators[0].iter) == lst):
        raise Untranslatable("second conjunct is not all(... for db in dbs)")
    v2 = allc.args[0].generators[0].target.id
    t = allc.args[0].elt
    if not (isinstance(t, ast.Compare) and len(t.ops) == 1 and isinstance(t.ops[0], ast.In) and ast.unparse(t.comparators[0]) == "INFO_SCHEMA"):
        raise Untranslatable("membership test is not `... in INFO_SCHEMA`")
    save = var
    var = v2
    member = strexpr(t.left)
    var = save
    if "_query_info_schema" not in ast.unparse(cond.body[0]) or "q.next()" not in ast.unparse(ret):
        raise Untranslatable("branches are not _query_info_schema / q.next()")
    out = ["-- GENERATED by harness/extract.py (harness/pytrans.py) from /repo/mysql_mimic/session.py — do not edit",
           "import Mimic.Py", "namespace Mimic.Extracted.DispatchCode", "",
           "/-- `_info_schema_middleware`: `found` = find_dbs(expression) (\"\" for an unqualified table) -/",
           "def info_schema_intercepts (found : List String) (database : Option String) (catalog : List String) : Bool :=",
           "  let %s := found.map (fun %s => %s)" % (lst, save, elt),
           "  (!%s.isEmpty) && %s.all (fun %s => catalog.contains %s)" % (lst, lst, v2, member),
           "", "end Mimic.Extracted.DispatchCode"]
    return "\n".join(out) + "\n"


def lean_string(s):
    return '"' + s.replace("\\", "\\\\").replace('"', '\\"') + '"'


# ----------------------------------------------------------------------------- like_to_regex of schema.py
def translate_like_to_regex():
    """schema.like_to_regex: the per-character loop → Lean `List Char → List Mimic.Like.A`"""
    from mysql_mimic import schema as S
    tree = ast.parse(inspect.getsource(S))
    f = [n for n in tree.body if isinstance(n, ast.FunctionDef) and n.name == "like_to_regex"]
    if not f:
        raise Untranslatable("like_to_regex not found")
    f = f[0]
    body = [s for s in f.body if not (isinstance(s, ast.Expr) and isinstance(s.value, ast.Constant))]
    if not (len(body) == 3 and isinstance(body[0], ast.Assign) and ast.unparse(body[0]) == "parts = []" and isinstance(body[1], ast.For)
            and isinstance(body[2], ast.Return)):
        raise Untranslatable("like_to_regex: expected `parts = []`, a for loop and a return")
    loop = body[1]
    if not (isinstance(loop.target, ast.Name) and ast.unparse(loop.iter) == f.args.args[0].arg and len(loop.body) == 1 and isinstance(loop.body[0], ast.If)):
        raise Untranslatable("like_to_regex: loop is not `for char in like: if ...`")
    ch = loop.target.id

    def atom(call):
        u = ast.unparse(call)
        if u == "parts.append('.*')":
            return ".dotStar"
        if u == "parts.append('.')":
            return ".dot"
        if u == "parts.append(re.escape(%s))" % ch:
            return "(.chr %s)" % ch
        raise Untranslatable("like_to_regex appends " + u)

    def branch(node):
        if isinstance(node, ast.If):
            t = node.test
            if not (isinstance(t, ast.Compare) and isinstance(t.left, ast.Name) and t.left.id == ch and len(t.ops) == 1 and isinstance(t.ops[0], ast.Eq)
                    and isinstance(t.comparators[0], ast.Constant) and isinstance(t.comparators[0].value, str) and len(t.comparators[0].value) == 1):
                raise Untranslatable("like_to_regex condition " + ast.unparse(t))
            if len(node.body) != 1 or len(node.orelse) != 1:
                raise Untranslatable("like_to_regex branch shape")
            c = t.comparators[0].value
            return "if %s = '%s' then %s else %s" % (ch, c, atom(node.body[0].value), branch(node.orelse[0]))
        if isinstance(node, ast.Expr):
            return atom(node.value)
        raise Untranslatable("like_to_regex branch " + ast.dump(node)[:100])
    ret = ast.unparse(body[2].value)
    if ret != "re.compile(''.join(parts), flags=re.DOTALL)":
        raise Untranslatable("like_to_regex returns " + ret)
    return "\n".join([
        "-- GENERATED by harness/extract.py (harness/pytrans.py) from /repo/mysql_mimic/schema.py — do not edit",
        "import Mimic.Like", "namespace Mimic.Extracted.LikeCode", "open Mimic.Like", "",
        "/-- `like_to_regex`: the atoms appended for each character of the pattern (the pattern is compiled with DOTALL) -/",
        "def like_to_regex (like : List Char) : List A :=",
        "  like.map (fun %s => %s)" % (ch, branch(loop.body[0])),
        "", "end Mimic.Extracted.LikeCode"]) + "\n"


# ----------------------------------------------------------------------------- Variables.get_schema / set / get of variables.py
def translate_variables_store():
    """variables.Variables.get_schema / set / get → Lean over the types of Mimic.Variables (the schema is an association
    list of `Schema` records, `self.values` a `Store`, a value an `Arg`; `type_(value)` is `coerce`, the model of the five
    type callables).  Error codes become the model's error classes."""
    from mysql_mimic import variables as Vm
    tree = ast.parse(inspect.getsource(Vm))
    cls = [n for n in tree.body if isinstance(n, ast.ClassDef) and n.name == "Variables"][0]
    fn = {f.name: f for f in cls.body if isinstance(f, ast.FunctionDef)}
    ERR = {"UNKNOWN_SYSTEM_VARIABLE": ".unknown", "PARSE_ERROR": ".notDynamic", "WRONG_VALUE_FOR_VAR": ".badValue", "NOT_SUPPORTED_YET": ".notSupported"}

    def stmts(f):
        return [s for s in f.body if not (isinstance(s, ast.Expr) and isinstance(s.value, ast.Constant))]

    def raise_err(s):
        if not (isinstance(s, ast.Raise) and isinstance(s.exc, ast.Call) and ast.unparse(s.exc.func) == "MysqlError"):
            raise Untranslatable("raise " + ast.unparse(s))
        code = [k.value for k in s.exc.keywords if k.arg == "code"]
        if not code or not (isinstance(code[0], ast.Attribute) and code[0].attr in ERR):
            raise Untranslatable("error code of " + ast.unparse(s))
        return ERR[code[0].attr]

    # get_schema
    b = stmts(fn["get_schema"])
    if not (len(b) == 3 and ast.unparse(b[0]) == "schema = self.schema.get(name)" and isinstance(b[1], ast.If) and ast.unparse(b[1].test) == "not schema"
            and len(b[1].body) == 1 and ast.unparse(b[2]) == "return schema"):
        raise Untranslatable("get_schema has an unexpected body")
    e_unknown = raise_err(b[1].body[0])
    out = ["-- GENERATED by harness/extract.py (harness/pytrans.py) from /repo/mysql_mimic/variables.py — do not edit",
           "import Mimic.Variables", "namespace Mimic.Extracted.VariablesCode", "open Mimic.Variables", "",
           "def get_schema (schema : List Schema) (name : String) : Except Err Schema :=",
           "  match findSchema schema name with",
           "  | none => .error %s" % e_unknown,
           "  | some s => .ok s", ""]
    # set
    b = stmts(fn["set"])
    params = [a.arg for a in fn["set"].args.args]
    if params != ["self", "name", "value", "force"]:
        raise Untranslatable("set: parameters %r" % params)
    if not (len(b) == 4 and ast.unparse(b[0]) == "name = name.lower()" and ast.unparse(b[1]) == "type_, default, dynamic = self.get_schema(name)"):
        raise Untranslatable("set: prologue")
    g = b[2]
    if not (isinstance(g, ast.If) and not g.orelse and len(g.body) == 1):
        raise Untranslatable("set: guard")
    gt = ast.unparse(g.test)
    if gt != "not dynamic and (not force)":
        raise Untranslatable("set: guard condition " + gt)
    e_guard = raise_err(g.body[0])
    a = b[3]
    if not (isinstance(a, ast.If) and ast.unparse(a.test) == "value is DEFAULT or value is None" and len(a.body) == 1 and len(a.orelse) == 1
            and ast.unparse(a.body[0]) == "self.values[name] = default" and ast.unparse(a.orelse[0]) == "self.values[name] = type_(value)"):
        raise Untranslatable("set: assignment")
    out += ["def set (schema : List Schema) (cs : List String) (values : Store) (name : String) (value : Arg) (force : Bool) : Except Err Store :=",
            "  let name := lower name",
            "  match get_schema schema name with",
            "  | .error e => .error e",
            "  | .ok sc =>",
            "    if (!sc.dynamic && !force) then .error %s else" % e_guard,
            "    match value with",
            "    | .dflt => .ok (put values name sc.dflt)",
            "    | .val .none => .ok (put values name sc.dflt)",
            "    | .val v => (match coerce cs sc.ty v with | .ok w => .ok (put values name w) | .error e => .error e)",
            "    | .complex => .error .notSupported   -- not a Python value: `expression_to_value` raised before `set` was called", ""]
    # get
    b = stmts(fn["get"])
    if not (len(b) == 4 and ast.unparse(b[0]) == "name = name.lower()" and isinstance(b[1], ast.If) and ast.unparse(b[1].test) == "name in self.values"
            and ast.unparse(b[1].body[0]) == "return self.values[name]" and ast.unparse(b[2]) == "_, default, _ = self.get_schema(name)"
            and ast.unparse(b[3]) == "return default"):
        raise Untranslatable("get has an unexpected body")
    out += ["def get (schema : List Schema) (values : Store) (name : String) : Except Err V :=",
            "  let name := lower name",
            "  match values.lookup name with",
            "  | some v => .ok v",
            "  | none => match get_schema schema name with",
            "    | .error e => .error e",
            "    | .ok sc => .ok sc.dflt", ""]
    b = stmts(fn["list"])
    if not (len(b) == 1 and ast.unparse(b[0]) == "return [(name, self.get(name)) for name in sorted(self.schema)]"):
        raise Untranslatable("list has an unexpected body")
    out += ["def list (schema : List Schema) (values : Store) (sortedNames : List String) : List (String × V) :=",
            "  sortedNames.filterMap (fun name => match get schema values name with | .ok v => some (name, v) | .error _ => none)", "",
            "end Mimic.Extracted.VariablesCode"]
    return "\n".join(out) + "\n"
