"""In-memory TLS conversation against the real server (ssl.MemoryBIO client <-> loop.start_tls server)."""
from __future__ import annotations

import asyncio
import ssl
import os

from lib import BASE, C, Peer, RecSession, mkserver, pkt, hs_response, ssl_request, settle, split_packets

CERT = "/repo/tests/fixtures/certificate.pem"
KEY = "/repo/tests/fixtures/key.pem"


def server_ctx():
    ctx = ssl.SSLContext(ssl.PROTOCOL_TLS_SERVER)
    ctx.load_cert_chain(CERT, KEY)
    return ctx


class TlsClient:
    def __init__(self):
        cctx = ssl.SSLContext(ssl.PROTOCOL_TLS_CLIENT)
        cctx.check_hostname = False
        cctx.verify_mode = ssl.CERT_NONE
        self.inc = ssl.MemoryBIO()
        self.outg = ssl.MemoryBIO()
        self.so = cctx.wrap_bio(self.inc, self.outg, server_side=False)

    def hello(self) -> bytes:
        try:
            self.so.do_handshake()
        except ssl.SSLWantReadError:
            pass
        return self.outg.read()


async def tls_conversation(coalesce: bool, cuts=None, chunk1: bool = False):
    """SSLRequest [+ClientHello in the same read if coalesce], TLS handshake, login, PING.
    Returns dict(ok, detail, pings)."""
    sess = RecSession()
    srv = mkserver([sess], ssl=server_ctx())
    a = Peer(srv)
    await a.greet()
    cl = TlsClient()
    caps = BASE | C.CLIENT_SSL
    sslreq = pkt(1, ssl_request(caps))
    hello = cl.hello()
    if coalesce:
        a.t.feed(sslreq + hello)
    else:
        a.t.feed(sslreq)
        await settle()
        a.t.feed(hello)
    done = False
    for _ in range(20):
        await settle()
        raw = a.take_raw()
        if raw:
            cl.inc.write(raw)
        try:
            cl.so.do_handshake()
            done = True
            break
        except ssl.SSLWantReadError:
            d = cl.outg.read()
            if d:
                a.t.feed(d)
    if not done:
        await a.finish()
        return dict(ok=False, detail="TLS handshake did not complete (bytes after SSLRequest lost)", pings=0)
    d = cl.outg.read()
    if d:
        a.t.feed(d)

    def feed_enc(b: bytes):
        cl.so.write(b)
        enc = cl.outg.read()
        if chunk1:
            for x in enc:
                a.t.feed(bytes([x]))
        else:
            a.t.feed(enc)

    def read_dec():
        raw = a.take_raw()
        if raw:
            cl.inc.write(raw)
        try:
            return cl.so.read(1 << 16)
        except ssl.SSLWantReadError:
            return b""

    feed_enc(pkt(2, hs_response("u", caps=caps)))
    await settle()
    auth = split_packets(read_dec())
    feed_enc(pkt(0, b"\x0e"))
    await settle()
    ping = split_packets(read_dec())
    ok = len(auth) == 1 and auth[0][1][:1] == b"\x00" and len(ping) == 1 and ping[0][1][:1] == b"\x00"
    await a.finish()
    return dict(ok=ok, detail=(auth, ping), pings=1)


class TlsPeer:
    """a logged-in client over in-memory TLS: `send(payload_packets)` encrypts and feeds, `recv()` returns the decrypted bytes
    the server has written so far"""

    def __init__(self, sess, **server_kw):
        self.sess = sess
        self.srv = mkserver([sess], ssl=server_ctx(), **server_kw)
        self.a = Peer(self.srv)
        self.cl = TlsClient()
        self.caps = BASE | C.CLIENT_SSL
        self.plain = b""

    async def login(self, extra_caps=0) -> bool:
        a, cl = self.a, self.cl
        await a.greet()
        self.caps = int(BASE | C.CLIENT_SSL) | int(extra_caps)
        a.t.feed(pkt(1, ssl_request(self.caps)))
        await settle()
        a.t.feed(cl.hello())
        done = False
        for _ in range(20):
            await settle()
            raw = a.take_raw()
            if raw:
                cl.inc.write(raw)
            try:
                cl.so.do_handshake()
                done = True
                break
            except ssl.SSLWantReadError:
                d = cl.outg.read()
                if d:
                    a.t.feed(d)
        if not done:
            return False
        d = cl.outg.read()
        if d:
            a.t.feed(d)
        self.send(pkt(2, hs_response("u", caps=self.caps)))
        await settle()
        auth = split_packets(self.recv())
        return len(auth) == 1 and auth[0][1][:1] == b"\x00"

    def send(self, b: bytes):
        self.cl.so.write(b)
        self.a.t.feed(self.cl.outg.read())

    def recv(self) -> bytes:
        raw = self.a.take_raw()
        if raw:
            self.cl.inc.write(raw)
        out = b""
        while True:
            try:
                d = self.cl.so.read(1 << 20)
            except ssl.SSLWantReadError:
                break
            if not d:
                break
            out += d
        return out
