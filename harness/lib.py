"""Shared correspondence-harness library.

Everything here drives the *real* mysql_mimic code in-process:
  * MemT      – in-memory asyncio.Transport (start_tls compatible, harness-controlled flow control)
  * Peer      – one client connection against a real MysqlServer._client_connected_cb
  * wire encoders for client packets and a strict decoder for server packets written from the
    protocol documentation (not from mysql_mimic)
  * RecSession – recording application session
Run with /venv/bin/python (editable install of /repo → always the working tree).
"""
from __future__ import annotations

import asyncio
import logging
import struct
from hashlib import sha1
from typing import Any, Dict, List, Optional, Sequence, Tuple

logging.disable(logging.CRITICAL)

from mysql_mimic import MysqlServer, Session  # noqa: E402
import enum as _enum  # noqa: E402


class C(_enum.IntFlag):
    """client capability flags, from the MySQL protocol documentation — deliberately NOT imported from the code under test:
    the reference client must keep speaking the real protocol if the server's own table changes"""
    CLIENT_LONG_PASSWORD = 1 << 0
    CLIENT_FOUND_ROWS = 1 << 1
    CLIENT_LONG_FLAG = 1 << 2
    CLIENT_CONNECT_WITH_DB = 1 << 3
    CLIENT_NO_SCHEMA = 1 << 4
    CLIENT_COMPRESS = 1 << 5
    CLIENT_ODBC = 1 << 6
    CLIENT_LOCAL_FILES = 1 << 7
    CLIENT_IGNORE_SPACE = 1 << 8
    CLIENT_PROTOCOL_41 = 1 << 9
    CLIENT_INTERACTIVE = 1 << 10
    CLIENT_SSL = 1 << 11
    CLIENT_IGNORE_SIGPIPE = 1 << 12
    CLIENT_TRANSACTIONS = 1 << 13
    CLIENT_RESERVED = 1 << 14
    CLIENT_SECURE_CONNECTION = 1 << 15
    CLIENT_MULTI_STATEMENTS = 1 << 16
    CLIENT_MULTI_RESULTS = 1 << 17
    CLIENT_PS_MULTI_RESULTS = 1 << 18
    CLIENT_PLUGIN_AUTH = 1 << 19
    CLIENT_CONNECT_ATTRS = 1 << 20
    CLIENT_PLUGIN_AUTH_LENENC_CLIENT_DATA = 1 << 21
    CLIENT_CAN_HANDLE_EXPIRED_PASSWORDS = 1 << 22
    CLIENT_SESSION_TRACK = 1 << 23
    CLIENT_DEPRECATE_EOF = 1 << 24
    CLIENT_OPTIONAL_RESULTSET_METADATA = 1 << 25
    CLIENT_ZSTD_COMPRESSION_ALGORITHM = 1 << 26
    CLIENT_QUERY_ATTRIBUTES = 1 << 27
    MULTI_FACTOR_AUTHENTICATION = 1 << 28
    CLIENT_CAPABILITY_EXTENSION = 1 << 29
    CLIENT_SSL_VERIFY_SERVER_CERT = 1 << 30
    CLIENT_REMEMBER_OPTIONS = 1 << 31

BASE = C.CLIENT_PROTOCOL_41 | C.CLIENT_SECURE_CONNECTION | C.CLIENT_PLUGIN_AUTH
M = 0xFFFFFF


# ----------------------------------------------------------------------------- transport
class MemT(asyncio.Transport):
    _start_tls_compatible = True

    def __init__(self, loop):
        super().__init__()
        self.out = bytearray()
        self.closed = False
        self.proto = None
        self.loop = loop
        self.paused_reading = False
        self.blocked = False
        self.writes: List[int] = []  # size of each transport.write
        self.fail_write_at: Optional[int] = None  # index of the write call that raises
        self.lost = False
        # asyncio's selector transport (CPython >= 3.12) keeps a memoryview of the caller's object for whatever the
        # socket did not take at once; while such a view exists a bytearray cannot be resized (BufferError)
        self.held: List[memoryview] = []

    def set_protocol(self, p):
        self.proto = p

    def get_protocol(self):
        return self.proto

    def write(self, b):
        idx = len(self.writes)
        self.writes.append(len(b))
        if self.fail_write_at is not None and idx >= self.fail_write_at and not self.lost:
            # emulate a socket error: asyncio transports report it through connection_lost
            self.lost = True
            self.closed = True
            self.loop.call_soon(self.proto.connection_lost, ConnectionResetError("injected"))
            return
        if self.lost:
            return
        self.out += bytes(b)
        if self.blocked and len(b):
            self.held.append(memoryview(b))

    def close(self):
        if not self.closed:
            self.closed = True
            self.loop.call_soon(self.proto.connection_lost, None)

    def is_closing(self):
        return self.closed

    def abort(self):
        self.close()

    def pause_reading(self):
        self.paused_reading = True

    def resume_reading(self):
        self.paused_reading = False

    def is_reading(self):
        return not self.paused_reading

    def get_write_buffer_size(self):
        return 0

    def get_write_buffer_limits(self):
        return (0, 0)

    def get_extra_info(self, n, d=None):
        return d

    def can_write_eof(self):
        return False

    def feed(self, data: bytes):
        p = self.proto
        if isinstance(p, asyncio.BufferedProtocol):
            asyncio.protocols._feed_data_to_buffered_proto(p, data)
        else:
            p.data_received(data)

    def feed_eof(self):
        self.proto.eof_received()

    def reset_by_peer(self):
        if not self.closed:
            self.closed = True
            self.lost = True
            self.proto.connection_lost(ConnectionResetError("peer"))

    def block(self):
        if not self.blocked:
            self.blocked = True
            self.proto.pause_writing()

    def unblock(self):
        if self.blocked:
            self.blocked = False
            for mv in self.held:
                mv.release()
            self.held.clear()
            self.proto.resume_writing()


async def settle(n: int = 40):
    for _ in range(n):
        await asyncio.sleep(0)


# ----------------------------------------------------------------------------- framing helpers
def pkt(seq: int, payload: bytes) -> bytes:
    out = b""
    while True:
        part, payload = payload[:M], payload[M:]
        out += struct.pack("<I", len(part))[:3] + bytes([seq & 0xFF]) + part
        seq += 1
        if len(part) < M:
            return out


def split_packets(b: bytes) -> List[Tuple[int, bytes]]:
    """Independent reassembly: list of (seq, payload) for every wire packet (no merging)."""
    out = []
    i = 0
    while i + 4 <= len(b):
        l = int.from_bytes(b[i : i + 3], "little")
        if i + 4 + l > len(b):
            break
        out.append((b[i + 3], bytes(b[i + 4 : i + 4 + l])))
        i += 4 + l
    if i != len(b):
        out.append((-1, bytes(b[i:])))  # trailing garbage / partial packet
    return out


def lenenc(n: int) -> bytes:
    if n < 251:
        return bytes([n])
    if n < 1 << 16:
        return b"\xfc" + struct.pack("<H", n)
    if n < 1 << 24:
        return b"\xfd" + struct.pack("<I", n)[:3]
    return b"\xfe" + struct.pack("<Q", n)


def lenstr(b: bytes) -> bytes:
    return lenenc(len(b)) + b


class BadLenenc(ValueError):
    pass


def rd_lenenc(b: bytes, i: int) -> Tuple[int, int]:
    c = b[i]
    if c < 251:
        return c, i + 1
    if c == 0xFC:
        return struct.unpack_from("<H", b, i + 1)[0], i + 3
    if c == 0xFD:
        return int.from_bytes(b[i + 1 : i + 4], "little"), i + 4
    if c == 0xFE:
        return struct.unpack_from("<Q", b, i + 1)[0], i + 9
    raise BadLenenc("bad lenenc 0x%02x" % c)


def rd_lenstr(b: bytes, i: int) -> Tuple[bytes, int]:
    n, i = rd_lenenc(b, i)
    if i + n > len(b):
        raise ValueError("lenstr overruns")
    return b[i : i + n], i + n


# ----------------------------------------------------------------------------- client packets
def hs_response(
    user: str | bytes,
    auth: bytes = b"",
    caps: int = BASE,
    plugin: Optional[str | bytes] = "mysql_native_password",
    db: Optional[str | bytes] = None,
    charset: int = 255,
    attrs: Optional[Dict[bytes, bytes]] = None,
    codec: str = "utf8",
) -> bytes:
    def e(x):
        return x if isinstance(x, bytes) else x.encode(codec)

    caps = C(int(caps))
    p = struct.pack("<IIB", int(caps), 1 << 24, charset) + bytes(23) + e(user) + b"\0"
    if C.CLIENT_PLUGIN_AUTH_LENENC_CLIENT_DATA in caps:
        p += lenstr(auth)
    else:
        p += bytes([len(auth)]) + auth
    if C.CLIENT_CONNECT_WITH_DB in caps:
        p += e(db or "") + b"\0"
    if C.CLIENT_PLUGIN_AUTH in caps:
        p += e(plugin or "") + b"\0"
    if C.CLIENT_CONNECT_ATTRS in caps:
        body = b"".join(lenstr(k) + lenstr(v) for k, v in (attrs or {}).items())
        p += lenstr(body)
    return p


def ssl_request(caps: int, charset: int = 255) -> bytes:
    return struct.pack("<IIB", int(caps), 1 << 24, charset) + bytes(23)


def scramble(pw: bytes, nonce: bytes) -> bytes:
    h1 = sha1(pw).digest()
    h2 = sha1(h1).digest()
    h3 = sha1(nonce + h2).digest()
    return bytes(a ^ b for a, b in zip(h1, h3))


def parse_greeting(payload: bytes) -> Dict[str, Any]:
    """Strict HandshakeV10 decoder (protocol documentation)."""
    if payload[0] != 10:
        raise ValueError("protocol version")
    i = 1
    j = payload.index(b"\0", i)
    version = payload[i:j]
    i = j + 1
    cid = struct.unpack_from("<I", payload, i)[0]
    i += 4
    a1 = payload[i : i + 8]
    i += 8
    if payload[i] != 0:
        raise ValueError("filler")
    i += 1
    caps_lo, cs, status, caps_hi, alen = struct.unpack_from("<HBHHB", payload, i)
    i += 8
    if payload[i : i + 10] != bytes(10):
        raise ValueError("reserved")
    i += 10
    caps = caps_lo | (caps_hi << 16)
    n2 = max(13, alen - 8)
    a2 = payload[i : i + n2]
    i += n2
    plugin = None
    if caps & int(C.CLIENT_PLUGIN_AUTH):
        j = payload.index(b"\0", i)
        plugin = payload[i:j]
        i = j + 1
    if i != len(payload):
        raise ValueError("trailing bytes in greeting")
    data = a1 + a2
    return dict(
        version=version, cid=cid, caps=caps, charset=cs, status=status, auth_len=alen,
        auth_data=data, nonce=data.rstrip(b"\0"), plugin=plugin,
    )


# parameter encoding for COM_QUERY attributes / COM_STMT_EXECUTE
T_TINY, T_SHORT, T_LONG, T_FLOAT, T_DOUBLE, T_NULL, T_LONGLONG, T_INT24 = 1, 2, 3, 4, 5, 6, 8, 9
T_YEAR, T_VARCHAR, T_BLOB, T_VAR_STRING, T_STRING = 13, 15, 0xFC, 0xFD, 0xFE
T_TINY_BLOB, T_MEDIUM_BLOB, T_LONG_BLOB = 0xF9, 0xFA, 0xFB
INT_FMT = {T_TINY: "b", T_SHORT: "h", T_YEAR: "h", T_LONG: "i", T_INT24: "i", T_LONGLONG: "q"}


def enc_param_value(t: int, unsigned: bool, v: Any) -> bytes:
    if v is None:
        return b""
    if t in INT_FMT:
        f = INT_FMT[t]
        return struct.pack("<" + (f.upper() if unsigned else f), v)
    if t == T_FLOAT:
        return struct.pack("<f", v)
    if t == T_DOUBLE:
        return struct.pack("<d", v)
    if t == T_NULL:
        return b""
    return lenstr(v)  # bytes


def enc_params(params: Sequence[Tuple[int, bool, Any, bytes]], names: bool, skip: Sequence[int] = ()) -> bytes:
    """params: (type, unsigned, value-or-None, name-bytes). Returns null bitmap + bound flag + types + values.
    `skip`: indexes whose value is delivered by long data (no inline value)."""
    n = len(params)
    if n == 0:
        return b""
    bm = bytearray((n + 7) // 8)
    for i, (_, _, v, _) in enumerate(params):
        if v is None:
            bm[i // 8] |= 1 << (i % 8)
    out = bytes(bm) + b"\x01"
    for t, u, _, name in params:
        out += bytes([t, 0x80 if u else 0])
        if names:
            out += lenstr(name)
    for i, (t, u, v, _) in enumerate(params):
        if v is not None and i not in skip:
            out += enc_param_value(t, u, v)
    return out


def com_query(sql: bytes, caps: int = BASE, attrs: Sequence[Tuple[int, bool, Any, bytes]] = ()) -> bytes:
    p = b"\x03"
    if C.CLIENT_QUERY_ATTRIBUTES in C(int(caps)):
        p += lenenc(len(attrs)) + lenenc(1) + enc_params(attrs, True)
    return p + sql


def com_stmt_execute(
    stmt_id: int, params: Sequence[Tuple[int, bool, Any, bytes]] = (), caps: int = BASE,
    flags: int = 0, attrs: Sequence[Tuple[int, bool, Any, bytes]] = (), send_count: Optional[bool] = None,
    skip: Sequence[int] = (),
) -> bytes:
    qa = C.CLIENT_QUERY_ATTRIBUTES in C(int(caps))
    allp = list(params) + (list(attrs) if qa else [])
    if send_count is None:
        send_count = qa and (len(allp) > 0)
    if qa and send_count and not params:
        flags |= 0x08  # PARAMETER_COUNT_AVAILABLE
    p = b"\x17" + struct.pack("<IBI", stmt_id, flags, 1)
    if qa and (len(params) > 0 or (flags & 0x08)):
        p += lenenc(len(allp))
    p += enc_params(allp, qa, skip)
    return p


def com_change_user(user: bytes, auth: bytes, db: bytes, charset: Optional[int] = 255,
                    plugin: Optional[bytes] = b"mysql_native_password", caps: int = BASE,
                    attrs: Optional[Dict[bytes, bytes]] = None) -> bytes:
    caps = C(int(caps))
    p = b"\x11" + user + b"\0" + bytes([len(auth)]) + auth + db + b"\0"
    if charset is not None:
        p += struct.pack("<H", charset)
        if C.CLIENT_PLUGIN_AUTH in caps:
            p += (plugin or b"") + b"\0"
        if C.CLIENT_CONNECT_ATTRS in caps:
            body = b"".join(lenstr(k) + lenstr(v) for k, v in (attrs or {}).items())
            p += lenstr(body)
    return p


# ----------------------------------------------------------------------------- strict server-side decoding
class Bad(ValueError):
    pass


def kind_of_generic(p: bytes, caps: int) -> str:
    """Classify a generic response packet (context-free part)."""
    if not p:
        return "EMPTY"
    if p[0] == 0xFF:
        return "ERR"
    if p[0] == 0x00:
        return "OK"
    if p[0] == 0xFE and len(p) < 9:
        return "EOF" if not (int(caps) & int(C.CLIENT_DEPRECATE_EOF)) else "OKEOF"
    if p[0] == 0xFE:
        return "OKEOF"
    return "DATA"


def parse_err(p: bytes, proto41: bool = True) -> Tuple[int, bytes, bytes]:
    """ERR packet. `proto41=False`: the pre-handshake form without SQL state (capabilities unknown)."""
    if len(p) < 3 or p[0] != 0xFF:
        raise Bad("malformed ERR %r" % p[:12])
    if not proto41:
        return struct.unpack_from("<H", p, 1)[0], b"", p[3:]
    if len(p) < 9 or p[3:4] != b"#":
        raise Bad("malformed ERR %r" % p[:12])
    return struct.unpack_from("<H", p, 1)[0], p[4:9], p[9:]


def parse_ok(p: bytes) -> Dict[str, int]:
    if p[0] not in (0, 0xFE):
        raise Bad("not OK")
    a, i = rd_lenenc(p, 1)
    l, i = rd_lenenc(p, i)
    if len(p) != i + 4:
        raise Bad("OK packet length %d, expected %d" % (len(p), i + 4))
    st, w = struct.unpack_from("<HH", p, i)
    return dict(affected=a, last_id=l, status=st, warnings=w)


def parse_eof(p: bytes) -> Dict[str, int]:
    if len(p) != 5 or p[0] != 0xFE:
        raise Bad("malformed EOF %r" % p)
    w, st = struct.unpack_from("<HH", p, 1)
    return dict(status=st, warnings=w)


def parse_coldef(p: bytes, field_list: bool = False) -> Dict[str, Any]:
    try:
        i = 0
        vals = []
        for _ in range(6):
            s, i = rd_lenstr(p, i)
            vals.append(s)
        n, i = rd_lenenc(p, i)
        if n != 0x0C:
            raise Bad("coldef fixed-length marker %d" % n)
        cs, clen, ctype, flags, dec, filler = struct.unpack_from("<HIBHBH", p, i)
        i += 12
        default = None
        if field_list:
            dl, i = rd_lenenc(p, i)
            if dl:
                # documented form: lenenc length of default then that many bytes
                default = p[i : i + dl]
                if len(default) != dl:
                    raise Bad("coldef default overruns")
                i += dl
        if i != len(p):
            raise Bad("coldef trailing bytes (%d of %d consumed)" % (i, len(p)))
        if vals[0] != b"def":
            raise Bad("coldef catalog")
        return dict(schema=vals[1], table=vals[2], org_table=vals[3], name=vals[4], org_name=vals[5],
                    charset=cs, length=clen, type=ctype, flags=flags, decimals=dec, default=default)
    except (IndexError, struct.error, ValueError) as e:
        raise Bad("coldef: %s" % e)


def decode_resultset(pkts: List[bytes], caps: int) -> Dict[str, Any]:
    """Strict text/binary result-set grammar:
       ColCount ColDef^n [EOF if !DEPRECATE_EOF] Row* (EOF | OK_as_EOF | ERR). Returns structure; raises Bad."""
    dep = bool(int(caps) & int(C.CLIENT_DEPRECATE_EOF))
    if not pkts:
        raise Bad("empty response")
    i0 = 0
    if int(caps) & int(C.CLIENT_OPTIONAL_RESULTSET_METADATA):
        # negotiated: the packet starts with one byte metadata_follows (0 = RESULTSET_METADATA_NONE: no definitions follow,
        # 1 = FULL), then the length-encoded column count
        if len(pkts[0]) < 2 or pkts[0][0] not in (0, 1):
            raise Bad("CLIENT_OPTIONAL_RESULTSET_METADATA negotiated: column count packet %r lacks a valid metadata_follows byte" % pkts[0][:12])
        if pkts[0][0] == 0:
            raise Bad("metadata_follows = NONE is not requested by this client (resultset_metadata is FULL)")
        i0 = 1
    try:
        n, i = rd_lenenc(pkts[0], i0)
    except (ValueError, IndexError, struct.error):
        raise Bad("column count packet expected, got %r" % pkts[0][:40])
    if i != len(pkts[0]) or n == 0:
        raise Bad("column count packet")
    if len(pkts) < 1 + n:
        raise Bad("missing column definitions")
    cols = [parse_coldef(p) for p in pkts[1 : 1 + n]]
    k = 1 + n
    if not dep:
        if k >= len(pkts):
            raise Bad("missing metadata EOF")
        parse_eof(pkts[k])
        k += 1
    rows = []
    while True:
        if k >= len(pkts):
            raise Bad("missing terminator")
        p = pkts[k]
        k += 1
        if p[:1] == b"\xff":
            term = ("ERR", parse_err(p))
            break
        if p[:1] == b"\xfe" and len(p) < 9 and not dep:
            term = ("EOF", parse_eof(p))
            break
        if p[:1] == b"\xfe" and dep and len(p) < 0xFFFFFF:
            term = ("OKEOF", parse_ok(p))
            break
        rows.append(p)
    if k != len(pkts):
        raise Bad("%d packets after terminator" % (len(pkts) - k))
    return dict(cols=cols, rows=rows, term=term)


def decode_text_row(p: bytes, ncols: int) -> List[Optional[bytes]]:
    out = []
    i = 0
    for _ in range(ncols):
        if i >= len(p):
            raise Bad("text row short")
        if p[i] == 0xFB:
            out.append(None)
            i += 1
        else:
            s, i = rd_lenstr(p, i)
            out.append(s)
    if i != len(p):
        raise Bad("text row trailing bytes")
    return out


def decode_binary_row(p: bytes, types: Sequence[int]) -> List[Any]:
    """Binary protocol row → list of raw python values (ints, bytes, tuples for temporal)."""
    n = len(types)
    if p[0] != 0:
        raise Bad("binary row header")
    nb = (n + 7 + 2) // 8
    bm = p[1 : 1 + nb]
    if len(bm) != nb:
        raise Bad("binary row bitmap short")
    i = 1 + nb
    out: List[Any] = []
    for c, t in enumerate(types):
        if bm[(c + 2) // 8] & (1 << ((c + 2) % 8)):
            out.append(None)
            continue
        if t in (1,):
            out.append(struct.unpack_from("<b", p, i)[0]); i += 1
        elif t in (2, 13):
            out.append(struct.unpack_from("<h", p, i)[0]); i += 2
        elif t in (3, 9):
            out.append(struct.unpack_from("<i", p, i)[0]); i += 4
        elif t == 8:
            out.append(struct.unpack_from("<q", p, i)[0]); i += 8
        elif t == 4:
            out.append(("f", p[i : i + 4])); i += 4
        elif t == 5:
            out.append(("d", p[i : i + 8])); i += 8
        elif t in (7, 10, 12):
            l = p[i]; i += 1
            if l not in (0, 4, 7, 11):
                raise Bad("date length %d" % l)
            f = [0, 0, 0, 0, 0, 0, 0]
            if l >= 4:
                f[0], f[1], f[2] = struct.unpack_from("<HBB", p, i)
            if l >= 7:
                f[3], f[4], f[5] = struct.unpack_from("<BBB", p, i + 4)
            if l >= 11:
                f[6] = struct.unpack_from("<I", p, i + 7)[0]
            i += l
            out.append(("dt",) + tuple(f))
        elif t == 11:
            l = p[i]; i += 1
            if l not in (0, 8, 12):
                raise Bad("time length %d" % l)
            neg = days = h = m = s = us = 0
            if l >= 8:
                neg, days, h, m, s = struct.unpack_from("<BIBBB", p, i)
                if neg not in (0, 1) or h > 23 or m > 59 or s > 59:
                    raise Bad("time fields out of range")
            if l == 12:
                us = struct.unpack_from("<I", p, i + 8)[0]
                if us > 999999:
                    raise Bad("time microseconds out of range")
            i += l
            total = ((days * 24 + h) * 60 + m) * 60 + s
            out.append(("td", (-1 if neg else 1) * (total * 1000000 + us)))
        else:
            s, i = rd_lenstr(p, i)
            out.append(s)
    if i != len(p):
        raise Bad("binary row trailing bytes (%d of %d)" % (i, len(p)))
    return out


# ----------------------------------------------------------------------------- application side
class RecSession(Session):
    """Recording application session. `script` maps call index of query → behaviour."""

    def __init__(self, behaviour=None, schema=None):
        super().__init__()
        self.log: List[Any] = []
        self.behaviour = behaviour  # callable(sess, expression, sql, attrs) -> result or raises / coroutine
        self._schema = schema or {}

    async def init(self, connection):
        self.log.append(("init", self.username, self.database))
        await super().init(connection)

    async def close(self):
        self.log.append(("close",))
        await super().close()

    async def reset(self):
        self.log.append(("reset", self.username, self.database))
        await super().reset()        # whatever the library's Session does on a reset is part of what is checked

    async def use(self, database):
        self.log.append(("use", database))
        await super().use(database)

    async def query(self, expression, sql, attrs):
        self.log.append(("query", sql, dict(attrs), self.username, self.database))
        if self.behaviour is not None:
            r = self.behaviour(self, expression, sql, attrs)
            if asyncio.iscoroutine(r):
                r = await r
            return r
        return [(1,)], ["a"]

    async def schema(self):
        return self._schema


class RawSession(RecSession):
    """Records what reaches `handle_query` (the application boundary of the Connection layer) without parsing it."""

    def __init__(self, result=None):
        super().__init__()
        self.result = result

    async def handle_query(self, sql, attrs):
        self.log.append(("hq", sql, dict(attrs), self.username, self.database))
        r = self.result
        if callable(r):
            r = r(self, sql, attrs)
            if asyncio.iscoroutine(r):
                r = await r
            return r
        return r if r is not None else ([(1,)], ["a"])


class Peer:
    """One client connection to a real server, over MemT."""

    def __init__(self, srv: MysqlServer):
        loop = asyncio.get_running_loop()
        self.t = MemT(loop)
        self.r = asyncio.StreamReader(loop=loop)
        self.p = asyncio.StreamReaderProtocol(self.r, loop=loop)
        self.t.set_protocol(self.p)
        self.p.connection_made(self.t)
        self.w = asyncio.StreamWriter(self.t, self.p, self.r, loop)
        self.task = asyncio.ensure_future(srv._client_connected_cb(self.r, self.w))
        self.pos = 0
        self.greeting: Optional[Dict[str, Any]] = None
        self.caps = int(BASE)

    def take_raw(self) -> bytes:
        b = bytes(self.t.out[self.pos :])
        self.pos = len(self.t.out)
        return b

    def take(self) -> List[Tuple[int, bytes]]:
        return split_packets(self.take_raw())

    async def send(self, b: bytes, n: int = 40):
        self.t.feed(b)
        await settle(n)

    async def greet(self):
        await settle()
        g = self.take()
        if g and g[0][1][:1] == b"\x0a":
            self.greeting = parse_greeting(g[0][1])
        return g

    async def login(self, user="u", caps=BASE, auth=b"", **kw):
        g = await self.greet()
        self.caps = int(caps) & (self.greeting["caps"] if self.greeting else 0xFFFFFFFF)
        await self.send(pkt(1, hs_response(user, auth=auth, caps=caps, **kw)))
        return self.take()

    async def cmd(self, payload: bytes, n: int = 40):
        await self.send(pkt(0, payload), n)
        return self.take()

    async def finish(self):
        try:
            if not self.task.done():
                self.t.feed_eof()
                await settle()
        except BaseException:  # noqa
            pass
        if not self.task.done():
            self.task.cancel()
            await settle()
        if self.task.done() and not self.task.cancelled():
            self.task.exception()  # mark retrieved

    def done(self) -> bool:
        return self.task.done()


def mkserver(sessions, **kw):
    it = iter(sessions)
    return MysqlServer(session_factory=lambda: next(it), **kw)


def run(coro):
    return asyncio.run(coro)
