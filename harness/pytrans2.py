"""Second-generation translator Python -> Lean 4 for the packet parsers of mysql_mimic/packets.py and the helpers they
use (NullBitmap of results.py, read_str_null of types.py).  Target library: lean/Mimic/Py.lean.

A function becomes a Lean definition returning `Option …` (`none` = the Python code raises).  A function over an
`io.BytesIO` threads the reader position explicitly and returns `(value, position)`.  Supported: assignments (also
tuple targets, augmented, annotated, attribute targets on dataclass values), if / elif / else (branches that return,
raise or fall through with updated variables), `for` over range / enumerate / lists, `while` (explicit fuel, Py.loopM),
return, raise, calls of other translated functions and of the translated wire primitives, dataclass construction,
list / dict comprehensions over translated lists, integer / bytes / boolean expressions, capability tests.

Types are taken from annotations and simple inference; `Any` positions are `Py.Val`.  Everything outside the fragment
raises Untranslatable (an extraction error for the generated file only)."""
import ast
import inspect
import dataclasses

from pytrans import Untranslatable

NAT, INT, BOOL, BYTES, STR, VAL, NONE, CS = ("nat",), ("int",), ("bool",), ("bytes",), ("str",), ("val",), ("none",), ("cs",)


def T_opt(t): return ("opt", t)
def T_list(t): return ("list", t)
def T_tuple(ts): return ("tuple", tuple(ts))
def T_dict(k, v): return ("dict", k, v)
def T_rec(n): return ("rec", n)
def T_sum(a, b): return ("sum", a, b)
def T_fn(args, ret): return ("fn", tuple(args), ret)


def lean_type(t):
    k = t[0]
    if k in ("nat", "cs"):
        return "Nat"
    if k == "int":
        return "Int"
    if k == "bool":
        return "Bool"
    if k == "bytes":
        return "Bytes"
    if k == "str":
        return "S"
    if k == "val":
        return "(Val S)"
    if k == "opt":
        return "(Option %s)" % lean_type(t[1])
    if k in ("list", "iter"):
        return "(List %s)" % lean_type(t[1])
    if k == "tuple":
        return "(" + " × ".join(lean_type(x) for x in t[1]) + ")"
    if k == "dict":
        return "(List (%s × %s))" % (lean_type(t[1]), lean_type(t[2]))
    if k == "rec":
        return "(%s S)" % t[1]
    if k == "sum":
        return "(Sum %s %s)" % (lean_type(t[1]), lean_type(t[2]))
    if k == "fn":
        return "(" + " → ".join([lean_type(x) for x in t[1]] + ["Option " + lean_type(t[2])]) + ")"
    if k == "unit":
        return "Unit"
    if k == "abs":
        return t[1]
    raise Untranslatable("type %r" % (t,))


def parse_ann(src, overrides=None):
    """annotation source text → type"""
    n = ast.parse(src, mode="eval").body
    return ann_type(n)


def ann_type(n):
    u = ast.unparse(n)
    simple = {"int": NAT, "bytes": BYTES, "bytearray": BYTES, "str": STR, "bool": BOOL, "Any": VAL, "Capabilities": NAT, "CharacterSet": CS,
              "ColumnType": NAT, "ServerStatus": NAT, "ComStmtExecuteFlags": NAT, "None": ("unit",)}
    if u in simple:
        return simple[u]
    if isinstance(n, ast.Subscript):
        h = ast.unparse(n.value)
        args = n.slice.elts if isinstance(n.slice, ast.Tuple) else [n.slice]
        if h == "Optional":
            return T_opt(ann_type(args[0]))
        if h in ("List", "Sequence"):
            return T_list(ann_type(args[0]))
        if h == "Tuple":
            return T_tuple([ann_type(a) for a in args])
        if h == "Dict":
            return T_dict(ann_type(args[0]), ann_type(args[1]))
        if h == "Union" and len(args) == 2:
            return T_sum(ann_type(args[0]), ann_type(args[1]))
        if h == "Callable":
            return T_fn([ann_type(a) for a in args[0].elts], ann_type(args[1]))
    if isinstance(n, ast.Name):
        return T_rec(n.id)
    raise Untranslatable("annotation " + u)


class Fn:
    """signature of a translated (or library) function"""

    def __init__(self, name, lean, params, ret, reader, partial, fuel=False, env=False):
        self.name, self.lean, self.params, self.ret = name, lean, params, ret   # params: [(name, type)] without the reader
        self.reader, self.partial, self.fuel, self.env = reader, partial, fuel, env


def lean_str_lit(v):
    return '"' + v.replace("\\", "\\\\").replace('"', '\\"').replace("\n", "\\n") + '"'


def lean_char_lit(v):
    return "'" + {"\\": "\\\\", "'": "\\'"}.get(v, v) + "'"


def ind(text, n=1):
    pad = "  " * n
    return "\n".join(pad + l if l else l for l in text.split("\n"))


class Ctx:
    def __init__(self, tr, fn_name, env, rd, ret, reader_fn, partial):
        self.tr, self.fn_name, self.env, self.rd, self.ret, self.reader_fn, self.partial = tr, fn_name, dict(env), rd, ret, reader_fn, partial
        self.counter = [0]
        self.rd_alias = set()      # python names bound to the reader object
        self.narrow = set()        # source text of Optional expressions known to be non-None here (`if x:` on Optional[int])

    def fresh(self, base):
        self.counter[0] += 1
        return "%s_%d" % (base, self.counter[0])

    def copy(self):
        c = Ctx(self.tr, self.fn_name, self.env, self.rd, self.ret, self.reader_fn, self.partial)
        c.counter = self.counter
        c.rd_alias = set(self.rd_alias)
        c.narrow = set(self.narrow)
        for k, v in self.__dict__.items():      # attributes added by subclasses of the translator (aliases, loop packers)
            if k not in c.__dict__ or k in ("aliases", "brk", "in_loop"):
                setattr(c, k, dict(v) if isinstance(v, dict) else v)
        return c


class Translator:
    def __init__(self, module, enums, records, field_overrides=None, fuel_hints=None):
        self.module = module
        self.tree = ast.parse(inspect.getsource(module))
        self.enums = enums          # name -> {member: int}; 'flag' enums are in self.flags
        self.flags = set()
        self.strict_enums = {}      # enum name -> Lean predicate deciding membership (ValueError otherwise)
        self.records = records      # name -> [(field, type, default-lean or None)]
        self.fns = {}               # python name -> Fn
        self.fuel_hints = fuel_hints or {}
        self.local_types = {}       # function name -> {local: type} for empty containers (`x = []`, `x = {}`)
        self.out = []
        self.loops = []

    # ---------------------------------------------------------------- coercion
    def coerce(self, e, t, want):
        if want is None or t == want:
            return e
        if t[0] in ("nat", "cs") and want[0] in ("nat", "cs"):
            return e
        if t == NAT and want == INT:
            return "(Int.ofNat %s)" % e
        if t == NONE and want[0] == "opt":
            return "none"
        if t == NONE and want == VAL:
            return "Val.none"
        if want[0] == "opt" and t[0] != "opt":
            return "(some %s)" % self.coerce(e, t, want[1])
        if want == VAL:
            if t == NAT:
                return "(Val.int (Int.ofNat %s))" % e
            if t == INT:
                return "(Val.int %s)" % e
            if t == STR:
                return "(Val.str %s)" % e
        if t == BOOL and want == NAT:
            return "(if %s then 1 else 0)" % e
        if t[0] == "list" and want[0] == "list" and t[1] is None:
            return "([] : %s)" % lean_type(want)
        if t[0] == "dict" and want[0] == "dict" and t[1] is None:
            return "([] : %s)" % lean_type(want)
        if t[0] == "tuple" and want[0] == "tuple" and len(t[1]) == len(want[1]) and e.startswith("(") and "⟨" not in e:
            raise Untranslatable("tuple coercion of a non-literal")
        if want[0] == "sum":
            if t == want[1]:
                return "(Sum.inl %s)" % e
            if t == want[2]:
                return "(Sum.inr %s)" % e
        raise Untranslatable("cannot use %s as %s" % (lean_type(t) if t != NONE else "None", lean_type(want)))

    def truth(self, e, t):
        k = t[0]
        if k == "bool":
            return e
        if k in ("nat", "cs"):
            return "(%s != 0)" % e
        if k == "int":
            return "(%s != 0)" % e
        if k in ("bytes", "list", "dict"):
            return "(!(%s).isEmpty)" % e
        if k == "opt" and t[1][0] in ("dict", "list", "bytes"):
            return "(match %s with | some x => !x.isEmpty | none => false)" % e
        if k == "opt":
            return "(%s).isSome" % e
        raise Untranslatable("truth value of " + lean_type(t))

    # ---------------------------------------------------------------- expressions: (binds, lean, type)
    def enum_value(self, n):
        if isinstance(n, ast.Attribute) and isinstance(n.value, ast.Name) and n.value.id in self.enums and n.attr in self.enums[n.value.id]:
            return self.enums[n.value.id][n.attr]
        return None

    def expr(self, n, c, want=None):
        binds = []
        e, t = self.ex(n, c, binds, want)
        return binds, e, t

    def ex(self, n, c, binds, want=None):
        """translate; effectful sub-expressions are appended to `binds` as (pattern, option-valued lean term)"""
        if isinstance(n, ast.Await):
            return self.ex(n.value, c, binds, want)      # scheduling is not part of this translation: an await is its value
        ev = self.enum_value(n)
        if ev is not None:
            return str(ev), NAT
        if isinstance(n, (ast.Name, ast.Attribute)) and ast.unparse(n) in c.narrow:
            c.narrow.discard(ast.unparse(n))
            try:
                e0, t0 = self.ex(n, c, binds)
            finally:
                c.narrow.add(ast.unparse(n))
            if t0 == T_opt(NAT):
                return "(%s.getD 0)" % e0, NAT
            return e0, t0
        if isinstance(n, ast.Constant):
            v = n.value
            if v is None:
                return "none", NONE
            if isinstance(v, bool):
                return ("true" if v else "false"), BOOL
            if isinstance(v, int):
                return str(v), NAT
            if isinstance(v, bytes):
                return "([%s] : Bytes)" % ", ".join(str(b) for b in v), BYTES
            if isinstance(v, str) and v == "" and not getattr(self, "concrete_str", False):
                return "E.empty", STR
            if isinstance(v, str) and getattr(self, "concrete_str", False):
                return "(%s.toList)" % lean_str_lit(v), STR
            raise Untranslatable("constant %r" % (v,))
        if isinstance(n, ast.Name):
            if n.id in c.env:
                if c.env[n.id][0] in ("list", "dict") and c.env[n.id][1] is None:
                    raise Untranslatable("use of the empty container %s before its element type is known" % n.id)
                return n.id, c.env[n.id]
            raise Untranslatable("free variable " + n.id)
        if isinstance(n, ast.Attribute):
            # record field
            if isinstance(n.value, ast.Name) and n.value.id in c.env and c.env[n.value.id][0] == "rec":
                rec = c.env[n.value.id][1]
                for f, ft, _ in self.records[rec]:
                    if f == n.attr:
                        return "%s.%s" % (n.value.id, f), ft
                raise Untranslatable("field %s of %s" % (n.attr, rec))
            if isinstance(n.value, ast.Attribute):
                inner, ti = self.ex(n.value, c, binds)
                if ti[0] == "rec":
                    for f, ft, _ in self.records[ti[1]]:
                        if f == n.attr:
                            return "%s.%s" % (inner, f), ft
            if isinstance(n.value, ast.Name) and n.value.id in c.env and c.env[n.value.id] == CS and n.attr == "codec":
                return n.value.id, CS
            # Collation(x).charset
            if n.attr == "charset" and isinstance(n.value, ast.Call) and isinstance(n.value.func, ast.Name) and n.value.func.id == "Collation":
                a, ta = self.ex(n.value.args[0], c, binds)
                v = c.fresh("cs")
                binds.append((v, "E.collation %s" % a))
                return v, CS
            raise Untranslatable("attribute " + ast.unparse(n))
        if isinstance(n, ast.Tuple):
            wants = list(want[1]) if want is not None and want[0] == "tuple" and len(want[1]) == len(n.elts) else [None] * len(n.elts)
            items = [self.ex(x, c, binds, w) for x, w in zip(n.elts, wants)]
            es = [self.coerce(e, t, w) for (e, t), w in zip(items, wants)]
            ts = [w if w is not None else t for (e, t), w in zip(items, wants)]
            return "(" + ", ".join(es) + ")", T_tuple(ts)
        if isinstance(n, ast.List):
            if not n.elts:
                return "[]", ("list", None)
            items = [self.ex(x, c, binds) for x in n.elts]
            t0 = items[0][1]
            return "[" + ", ".join(self.coerce(e, t, t0) for e, t in items) + "]", T_list(t0)
        if isinstance(n, ast.Dict) and not n.keys:
            return "[]", ("dict", None, None)
        if isinstance(n, ast.Set):
            items = [self.ex(x, c, binds) for x in n.elts]
            return "[" + ", ".join(e for e, _ in items) + "]", T_list(items[0][1])
        if isinstance(n, ast.UnaryOp) and isinstance(n.op, ast.Not):
            e, t = self.ex(n.operand, c, binds)
            return "(!%s)" % self.truth(e, t), BOOL
        if isinstance(n, ast.BoolOp):
            parts = [self.ex(v, c, binds) for v in n.values]   # NOTE: operands must be effect-free for short-circuiting to be irrelevant
            op = " && " if isinstance(n.op, ast.And) else " || "
            return "(" + op.join(self.truth(e, t) for e, t in parts) + ")", BOOL
        if isinstance(n, ast.IfExp):
            ct, tt = self.ex(n.test, c, binds)
            b1, b2 = [], []
            a, ta = self.ex(n.body, c, b1, want)
            b, tb = self.ex(n.orelse, c, b2, want)
            if b1 or b2:
                raise Untranslatable("effects inside a conditional expression")
            tw = want or ta
            return "(if %s then %s else %s)" % (self.truth(ct, tt), self.coerce(a, ta, tw), self.coerce(b, tb, tw)), tw
        if isinstance(n, ast.Compare) and len(n.ops) == 1:
            return self.compare(n, c, binds)
        if isinstance(n, ast.BinOp):
            return self.binop(n, c, binds)
        if isinstance(n, ast.Subscript):
            return self.subscript(n, c, binds)
        if isinstance(n, ast.Call):
            return self.call(n, c, binds, want)
        if isinstance(n, ast.JoinedStr) and getattr(self, "concrete_str", False):
            parts = []
            for v in n.values:
                if isinstance(v, ast.Constant) and isinstance(v.value, str):
                    parts.append("%s.toList" % lean_str_lit(v.value))
                elif isinstance(v, ast.FormattedValue) and v.conversion == -1 and v.format_spec is None:
                    e, t = self.ex(v.value, c, binds)
                    if t != STR:
                        raise Untranslatable("f-string piece of type " + lean_type(t))
                    parts.append(e)
                else:
                    raise Untranslatable("f-string piece " + ast.dump(v)[:60])
            return "(" + " ++ ".join(parts) + ")", STR
        if isinstance(n, ast.ListComp) and len(n.generators) == 1:
            return self.listcomp(n, c, binds)
        if isinstance(n, ast.DictComp) and len(n.generators) == 1:
            return self.dictcomp(n, c, binds)
        raise Untranslatable("expression " + ast.unparse(n)[:80])

    def compare(self, n, c, binds):
        op = n.ops[0]
        left, right = n.left, n.comparators[0]
        if isinstance(op, (ast.In, ast.NotIn)):
            neg = isinstance(op, ast.NotIn)
            # Flag.X in flags
            ev = self.enum_value(left)
            if ev is not None and isinstance(left.value, ast.Name) and left.value.id in self.flags:
                b, tb = self.ex(right, c, binds)
                if ev & (ev - 1) == 0 and ev > 0:
                    r = "(Mimic.Py.hasBit %s %d)" % (b, ev.bit_length() - 1)
                elif ev == 0:
                    r = "true"      # a zero-valued flag is contained in every value
                else:
                    raise Untranslatable("composite flag " + ast.unparse(left))
                return ("(!%s)" % r if neg else r), BOOL
            a, ta = self.ex(left, c, binds)
            b, tb = self.ex(right, c, binds)
            if tb[0] == "list":
                r = "(%s.contains %s)" % (b, a)
            elif tb[0] == "dict":
                r = "(Mimic.Py.dictGet %s %s).isSome" % (b, a)
            elif tb[0] == "opt" and tb[1][0] == "dict":
                r = "(match %s with | some d => (Mimic.Py.dictGet d %s).isSome | none => false)" % (b, a)
            else:
                raise Untranslatable("membership in " + lean_type(tb))
            return ("(!%s)" % r if neg else r), BOOL
        if isinstance(op, (ast.Is, ast.IsNot)) and ast.unparse(left) == "asyncio.current_task()" and ast.unparse(right) == "self._task" \
                and "own_task" in c.env:
            return ("(!own_task)" if isinstance(op, ast.IsNot) else "own_task"), BOOL
        if isinstance(op, (ast.Is, ast.IsNot)) and isinstance(right, ast.Constant) and isinstance(right.value, bool):
            a, ta = self.ex(left, c, binds)
            if ta == VAL:
                # the values of `Any` positions are None / int / str / float here (Py.Val): never the objects True / False
                return ("true" if isinstance(op, ast.IsNot) else "false"), BOOL
            raise Untranslatable("`is True/False` on " + lean_type(ta))
        if isinstance(op, (ast.Is, ast.IsNot)) and isinstance(right, ast.Constant) and right.value is None:
            a, ta = self.ex(left, c, binds)
            if ta[0] == "opt":
                r = "(%s).isNone" % a
            elif ta == VAL:
                r = "(%s == Val.none)" % a
            else:
                raise Untranslatable("`is None` on " + lean_type(ta))
            return ("(!%s)" % r if isinstance(op, ast.IsNot) else r), BOOL
        a, ta = self.ex(left, c, binds)
        b, tb = self.ex(right, c, binds)
        sym = {ast.Lt: "<", ast.LtE: "≤", ast.Gt: ">", ast.GtE: "≥", ast.Eq: "==", ast.NotEq: "!="}.get(type(op))
        if sym is None:
            raise Untranslatable("comparison " + ast.unparse(n))
        if ta != tb:
            if {ta, tb} <= {NAT, INT, CS}:
                if INT in (ta, tb):
                    a, b = self.coerce(a, ta, INT) if ta != INT else a, self.coerce(b, tb, INT) if tb != INT else b
            else:
                raise Untranslatable("comparison of %s with %s" % (lean_type(ta), lean_type(tb)))
        if sym in ("==", "!="):
            return "(%s %s %s)" % (a, sym, b), BOOL
        return "(decide (%s %s %s))" % (a, sym, b), BOOL

    def binop(self, n, c, binds):
        a, ta = self.ex(n.left, c, binds)
        b, tb = self.ex(n.right, c, binds)
        op = n.op
        num = (NAT, INT)
        if ta in num and tb in num:
            if isinstance(op, ast.Sub):
                return "(%s - %s)" % (self.coerce(a, ta, INT), self.coerce(b, tb, INT)), INT
            t = INT if INT in (ta, tb) else NAT
            a, b = self.coerce(a, ta, t), self.coerce(b, tb, t)
            if isinstance(op, ast.Add):
                return "(%s + %s)" % (a, b), t
            if isinstance(op, ast.Mult):
                return "(%s * %s)" % (a, b), t
            if t == NAT:
                if isinstance(op, ast.FloorDiv):
                    return "(%s / %s)" % (a, b), NAT
                if isinstance(op, ast.Mod):
                    return "(%s %% %s)" % (a, b), NAT
                if isinstance(op, ast.BitAnd):
                    return "(%s &&& %s)" % (a, b), NAT
                if isinstance(op, ast.BitOr):
                    return "(%s ||| %s)" % (a, b), NAT
                if isinstance(op, ast.BitXor):
                    return "(%s ^^^ %s)" % (a, b), NAT
                if isinstance(op, ast.LShift):
                    return "(%s <<< %s)" % (a, b), NAT
                if isinstance(op, ast.RShift):
                    return "(%s >>> %s)" % (a, b), NAT
                if isinstance(op, ast.Pow):
                    return "(%s ^ %s)" % (a, b), NAT
        if ta == tb == BYTES and isinstance(op, ast.Add):
            return "(%s ++ %s)" % (a, b), BYTES
        raise Untranslatable("operator in " + ast.unparse(n)[:60])

    def subscript(self, n, c, binds):
        a, ta = self.ex(n.value, c, binds)
        sl = n.slice
        if isinstance(sl, ast.Slice):
            if sl.step is not None or ta[0] not in ("bytes", "list"):
                raise Untranslatable("slice " + ast.unparse(n))
            if sl.lower is None and sl.upper is not None:
                u, tu = self.ex(sl.upper, c, binds)
                if tu != NAT:
                    raise Untranslatable("slice bound " + ast.unparse(sl.upper))
                return "(%s.take %s)" % (a, u), ta
            if sl.upper is None and sl.lower is not None:
                l, tl = self.ex(sl.lower, c, binds)
                if tl != NAT:
                    raise Untranslatable("slice bound " + ast.unparse(sl.lower))
                return "(%s.drop %s)" % (a, l), ta
            raise Untranslatable("slice " + ast.unparse(n))
        i, ti = self.ex(sl, c, binds)
        if ta == BYTES and ti == NAT:
            v = c.fresh("byte")
            binds.append((v, "Mimic.Py.byteAt %s %s" % (a, i)))
            return v, NAT
        if ta[0] == "dict":
            v = c.fresh("item")
            binds.append((v, "Mimic.Py.dictGet %s %s" % (a, self.coerce(i, ti, ta[1]))))
            return v, ta[2]
        if ta[0] == "opt" and ta[1][0] == "dict":
            v = c.fresh("item")
            binds.append((v, "(match %s with | some d => Mimic.Py.dictGet d %s | none => none)" % (a, self.coerce(i, ti, ta[1][1]))))
            return v, ta[1][2]
        raise Untranslatable("subscript " + ast.unparse(n))

    def is_reader(self, n, c):
        return isinstance(n, ast.Name) and n.id in c.rd_alias

    def call(self, n, c, binds, want=None):
        f = n.func
        # (f if cond else g)(reader)
        if isinstance(f, ast.IfExp) and len(n.args) == 1 and self.is_reader(n.args[0], c):
            ct, tt = self.ex(f.test, c, binds)
            outs = []
            for br in (f.body, f.orelse):
                fn = self.fns.get(br.id) if isinstance(br, ast.Name) else None
                if fn is None or not fn.reader or fn.params:
                    raise Untranslatable("conditional callee " + ast.unparse(br))
                outs.append((fn.lean, fn.ret))
            tw = want or VAL
            v, r2 = c.fresh("v"), c.fresh("r")
            alts = ["(match %s %s with | none => none | some (x, r') => some (%s, r'))" % (l, c.rd, self.coerce("x", t, tw)) for l, t in outs]
            binds.append(("(%s, %s)" % (v, r2), "(if %s then %s else %s)" % (self.truth(ct, tt), alts[0], alts[1])))
            c.rd = r2
            return v, tw
        if isinstance(f, ast.Name):
            name = f.id
            if name == "len" and len(n.args) == 1:
                a, ta = self.ex(n.args[0], c, binds)
                return "(%s).length" % a, NAT
            if name == "bool" and len(n.args) == 1:
                a, ta = self.ex(n.args[0], c, binds)
                return self.truth(a, ta), BOOL
            if name == "bytes" and len(n.args) == 1 and isinstance(n.args[0], ast.Name) and c.env.get(n.args[0].id, (None,))[0] == "rec" \
                    and (c.env[n.args[0].id][1] + ".__bytes__") in self.fns:
                return self.call_fn(self.fns[c.env[n.args[0].id][1] + ".__bytes__"], [n.args[0]], [], c, binds)
            if name in ("bytearray", "bytes", "str", "list") and len(n.args) == 1:
                a, ta = self.ex(n.args[0], c, binds)
                if name == "str" and ta == VAL and getattr(self, "concrete_str", False):
                    # str() of an `Any`: int → decimal text, float → the environment's text
                    return "(match %s with | Val.int z => Mimic.Py.intText z | Val.flt b => E.fltText b | Val.str t => t | Val.none => \"None\".toList)" % a, STR
                if name in ("bytearray", "bytes") and ta == NAT:
                    return "(List.replicate %s (0 : UInt8))" % a, BYTES
                if (name in ("bytearray", "bytes") and ta == BYTES) or (name == "str" and ta == STR) or (name == "list" and ta[0] == "list"):
                    return a, ta
                raise Untranslatable("%s(%s)" % (name, lean_type(ta)))
            if name == "zip" and len(n.args) == 2:
                a, ta = self.ex(n.args[0], c, binds)
                b, tb = self.ex(n.args[1], c, binds)
                if ta[0] != "list" or tb[0] != "list":
                    raise Untranslatable("zip of non-lists")
                return "(%s.zip %s)" % (a, b), T_list(T_tuple([ta[1], tb[1]]))
            if name == "bytes" and len(n.args) == 1 and isinstance(n.args[0], ast.Name) and c.env.get(n.args[0].id, (None,))[0] == "rec" \
                    and (c.env[n.args[0].id][1] + ".__bytes__") in self.fns:
                return self.call_fn(self.fns[c.env[n.args[0].id][1] + ".__bytes__"], [n.args[0]], [], c, binds)
            if name == "iter" and len(n.args) == 1:
                a, ta = self.ex(n.args[0], c, binds)
                if ta[0] != "list":
                    raise Untranslatable("iter of " + lean_type(ta))
                return a, ("iter", ta[1])
            if name == "str" and len(n.args) == 1 and getattr(self, "concrete_str", False):
                a, ta = self.ex(n.args[0], c, binds)
                if ta == VAL:
                    # str() of an `Any` that is neither str nor None here: int → decimal text, float → the environment's text
                    return "(match %s with | Val.int z => Mimic.Py.intText z | Val.flt b => E.fltText b | Val.str t => t | Val.none => \"None\".toList)" % a, STR
            if name == "max" and len(n.args) == 2:
                a, ta = self.ex(n.args[0], c, binds)
                # max(c, x - y) with c ≥ 0: truncated subtraction gives the same result
                if isinstance(n.args[1], ast.BinOp) and isinstance(n.args[1].op, ast.Sub) and ta == NAT:
                    x, tx = self.ex(n.args[1].left, c, binds)
                    y, ty = self.ex(n.args[1].right, c, binds)
                    if tx == ty == NAT:
                        return "(max %s (%s - %s))" % (a, x, y), NAT
                b, tb = self.ex(n.args[1], c, binds)
                if ta == tb:
                    return "(max %s %s)" % (a, b), ta
                raise Untranslatable("max of mixed types")
            if name == "next" and len(n.args) == 1:
                tgt = n.args[0]
                # next(self.field): the field is an object with a translated __next__ that returns (value, new object)
                if isinstance(tgt, ast.Attribute) and isinstance(tgt.value, ast.Name) and c.env.get(tgt.value.id, (None,))[0] == "rec":
                    obj = tgt.value.id
                    ft = [x[1] for x in self.records[c.env[obj][1]] if x[0] == tgt.attr]
                    if ft and ft[0][0] == "rec" and (ft[0][1] + ".__next__") in self.fns:
                        fn = self.fns[ft[0][1] + ".__next__"]
                        v, o2 = c.fresh("v"), c.fresh("it")
                        binds.append(("pure:(%s, %s)" % (v, o2), "%s %s.%s" % (fn.lean, obj, tgt.attr)))
                        binds.append(("let:%s" % obj, "{ %s with %s := %s }" % (obj, tgt.attr, o2)))
                        return v, fn.ret
                raise Untranslatable("next(" + ast.unparse(tgt) + ")")
            if name == "peek" and len(n.args) == 1 and self.is_reader(n.args[0], c):
                return "(Mimic.Py.peek1 %s)" % c.rd, BYTES
            if name == "_concat":
                if len(n.args) == 1 and isinstance(n.args[0], ast.Starred):
                    a, ta = self.ex(n.args[0].value, c, binds)
                    if ta != T_list(BYTES):
                        raise Untranslatable("_concat(*%s)" % lean_type(ta))
                    return "(%s).flatten" % a, BYTES
                items = [self.ex(x, c, binds) for x in n.args]
                if any(t != BYTES for _, t in items):
                    raise Untranslatable("_concat of non-bytes")
                return "(" + " ++ ".join(e for e, _ in items) + ")", BYTES
            if name in self.enums:
                a, ta = self.ex(n.args[0], c, binds)
                if name in self.flags:
                    return a, NAT                      # IntFlag(x) accepts every integer
                if name in self.strict_enums:
                    v = c.fresh("code")
                    binds.append((v, "(if %s %s then some %s else none)" % (self.strict_enums[name], a, a)))
                    return v, NAT
                raise Untranslatable("enum constructor " + name)
            if name == "cls" and getattr(self, "cls_name", None):
                return self.construct(self.cls_name, n, c, binds)
            if name in self.records:
                return self.construct(name, n, c, binds)
            if name in c.env and c.env[name][0] == "fn":
                ft = c.env[name]
                args = [self.ex(x, c, binds) for x in n.args]
                v = c.fresh("res")
                binds.append((v, "%s %s" % (name, " ".join(self.coerce(e, t, w) for (e, t), w in zip(args, ft[1])))))
                return v, ft[2]
            if name in self.fns:
                return self.call_fn(self.fns[name], n.args, n.keywords, c, binds)
            raise Untranslatable("call of " + name)
        if isinstance(f, ast.Attribute):
            # reader.read() / reader.read(k)
            if self.is_reader(f.value, c) and f.attr == "read":
                if not n.args:
                    e = c.rd
                    r2 = c.fresh("r")
                    binds.append(("(%s : Bytes)" % r2, "some ([] : Bytes)")) if False else None
                    old = c.rd
                    c.rd = "([] : Bytes)"
                    return old, BYTES
                k, tk = self.ex(n.args[0], c, binds)
                if tk != NAT:
                    raise Untranslatable("read(%s)" % lean_type(tk))
                v, r2 = c.fresh("data"), c.fresh("r")
                binds.append(("(%s, %s)" % (v, r2), "Mimic.Py.readN %s %s" % (k, c.rd)))
                c.rd = r2
                return v, BYTES
            # cs.decode(b)  /  b.decode(cs.codec)
            if f.attr == "decode" and len(n.args) == 1:
                recv, tr = self.ex(f.value, c, binds)
                a, ta = self.ex(n.args[0], c, binds)
                if tr == CS and ta == BYTES:
                    cs, b = recv, a
                elif tr == BYTES and ta == CS:
                    cs, b = a, recv
                else:
                    raise Untranslatable("decode: " + ast.unparse(n))
                v = c.fresh("text")
                binds.append((v, "E.decode %s %s" % (cs, b)))
                return v, STR
            # int.from_bytes(b, sys.byteorder) / n.to_bytes(k, sys.byteorder): the byte order is the platform's in both
            # directions; little-endian is used here (the result of a round trip does not depend on it)
            if f.attr == "from_bytes" and isinstance(f.value, ast.Name) and f.value.id == "int" and len(n.args) == 2 \
                    and ast.unparse(n.args[1]) == "sys.byteorder":
                a, ta = self.ex(n.args[0], c, binds)
                if ta != BYTES:
                    raise Untranslatable("from_bytes of " + lean_type(ta))
                return "(Mimic.Py.leVal %s)" % a, NAT
            if f.attr == "to_bytes" and len(n.args) == 2 and ast.unparse(n.args[1]) == "sys.byteorder":
                v, tv = self.ex(f.value, c, binds)
                k, tk = self.ex(n.args[0], c, binds)
                if tv != NAT or tk != NAT:
                    raise Untranslatable("to_bytes on " + lean_type(tv))
                r = c.fresh("raw")
                binds.append((r, "(if %s < 256 ^ %s then some (Mimic.Py.le %s %s) else none)" % (v, k, k, v)))     # OverflowError
                return r, BYTES
            # text.replace("c", "r") with a one-character pattern
            if f.attr == "replace" and len(n.args) == 2 and getattr(self, "concrete_str", False) and isinstance(n.args[0], ast.Constant) \
                    and isinstance(n.args[0].value, str) and len(n.args[0].value) == 1 and isinstance(n.args[1], ast.Constant) \
                    and isinstance(n.args[1].value, str):
                recv, tr = self.ex(f.value, c, binds)
                if tr != STR:
                    raise Untranslatable("replace on " + lean_type(tr))
                return "(Mimic.Py.strReplaceChar %s %s %s.toList)" % (recv, lean_char_lit(n.args[0].value), lean_str_lit(n.args[1].value)), STR
            # REGEX_PARAM.sub(lambda _: F(next(values)), text): every match takes the next value
            if f.attr == "sub" and isinstance(f.value, ast.Name) and f.value.id == "REGEX_PARAM" and len(n.args) == 2 \
                    and isinstance(n.args[0], ast.Lambda):
                lam = n.args[0]
                body = lam.body
                if not (isinstance(body, ast.Call) and isinstance(body.func, ast.Name) and body.func.id in self.fns and len(body.args) == 1
                        and isinstance(body.args[0], ast.Call) and isinstance(body.args[0].func, ast.Name) and body.args[0].func.id == "next"
                        and isinstance(body.args[0].args[0], ast.Name) and c.env.get(body.args[0].args[0].id, (None,))[0] == "iter"):
                    raise Untranslatable("REGEX_PARAM.sub with " + ast.unparse(lam))
                fn = self.fns[body.func.id]
                if fn.partial or fn.reader:
                    raise Untranslatable("replacement function may raise: evaluating it for all values at once is not equivalent")
                it = body.args[0].args[0].id
                text, tt = self.ex(n.args[1], c, binds)
                if tt != STR:
                    raise Untranslatable("sub on " + lean_type(tt))
                v = c.fresh("subst")
                binds.append(("(%s, _)" % v, "Mimic.Py.subIter E.paramAt %s (%s.map (fun x => %s%s x))" % (text, it, fn.lean, " E" if fn.env else "")))
                return v, STR
            # b"".join(xs)
            if f.attr == "join" and isinstance(f.value, ast.Constant) and f.value.value == b"" and len(n.args) == 1:
                a, ta = self.ex(n.args[0], c, binds)
                if ta != T_list(BYTES):
                    raise Untranslatable("join of " + lean_type(ta))
                return "(%s).flatten" % a, BYTES
            # method of an abstract object (supplied as a function parameter)
            if isinstance(f.value, ast.Name) and c.env.get(f.value.id, (None,))[0] == "abs" \
                    and (c.env[f.value.id][1], f.attr) in getattr(self, "abs_methods", {}):
                pname, ptypes, rt, partial = self.abs_methods[(c.env[f.value.id][1], f.attr)]
                args = [self.ex(a, c, binds, pt) for a, pt in zip(n.args, ptypes)]
                term = "%s %s%s" % (pname, f.value.id, "".join(" " + self.coerce(e, t, pt) for (e, t), pt in zip(args, ptypes)))
                if partial:
                    v = c.fresh("enc")
                    binds.append((v, term))
                    return v, rt
                return "(%s)" % term, rt
            # cs.encode(text)
            if f.attr == "encode" and len(n.args) == 1:
                recv, tr = self.ex(f.value, c, binds)
                a, ta = self.ex(n.args[0], c, binds)
                if tr == CS and ta == STR:
                    v = c.fresh("enc")
                    binds.append((v, "E.encode %s %s" % (recv, a)))
                    return v, BYTES
                raise Untranslatable("encode: " + ast.unparse(n))
            # Class.method(args): classmethods / methods of translated classes
            if isinstance(f.value, ast.Name) and (f.value.id + "." + f.attr) in self.fns:
                return self.call_fn(self.fns[f.value.id + "." + f.attr], n.args, n.keywords, c, binds)
            # obj.method(args) where obj : rec
            if isinstance(f.value, ast.Name) and f.value.id in c.env and c.env[f.value.id][0] == "rec":
                key = c.env[f.value.id][1] + "." + f.attr
                if key in self.fns:
                    fn = self.fns[key]
                    if getattr(fn, "mutating", False):
                        obj = f.value.id
                        b2 = []
                        args = [self.ex(a, c, binds, pt) for a, (pn, pt, pd) in zip(n.args, fn.params[1:])]
                        term = "%s%s%s %s%s" % (fn.lean, " E" if fn.env else "", " fuel" if fn.fuel else "", obj,
                                                "".join(" " + self.coerce(e, t, pt) for (e, t), (pn, pt, pd) in zip(args, fn.params[1:])))
                        v, o2 = c.fresh("v"), c.fresh("obj")
                        pat = "(%s, %s)" % (v, o2) if fn.ret != ("unit",) else o2
                        binds.append((pat if fn.partial else "pure:" + pat, term))
                        binds.append(("let:%s" % obj, o2))
                        return (v if fn.ret != ("unit",) else "()"), fn.ret
                    return self.call_fn(fn, [f.value] + list(n.args), n.keywords, c, binds)
            raise Untranslatable("method call " + ast.unparse(n)[:80])
        raise Untranslatable("call " + ast.unparse(n)[:80])

    def call_fn(self, fn, args, keywords, c, binds):
        pos = list(args)
        if fn.reader:
            if not pos or not self.is_reader(pos[0], c):
                # reader passed in another position (e.g. _read_params(capabilities, client_charset, r, …))
                idx = [i for i, a in enumerate(pos) if self.is_reader(a, c)]
                if len(idx) != 1:
                    raise Untranslatable("call of %s without the reader" % fn.name)
                pos.pop(idx[0])
            else:
                pos.pop(0)
        params = list(fn.params)
        if len(pos) > len(params):
            raise Untranslatable("too many arguments for " + fn.name)
        vals = {}
        for (pn, pt, pd), a in zip(params, pos):
            vals[pn] = a
        for k in keywords:
            vals[k.arg] = k.value
        out = []
        for pn, pt, pd in params:
            if pn in vals:
                e, t = self.ex(vals[pn], c, binds, pt)
                out.append(self.coerce(e, t, pt))
            elif pd is not None:
                out.append(pd)
            else:
                raise Untranslatable("missing argument %s of %s" % (pn, fn.name))
        head = fn.lean + (" E" if fn.env else "") + (" fuel" if fn.fuel else "")
        if fn.reader:
            term = "%s %s%s" % (head, c.rd, "".join(" " + x for x in out))
            v, r2 = c.fresh("v"), c.fresh("r")
            binds.append(("(%s, %s)" % (v, r2), term))
            c.rd = r2
            return v, fn.ret
        term = "(%s%s)" % (head, "".join(" " + x for x in out))
        if fn.partial:
            v = c.fresh("v")
            binds.append((v, term[1:-1]))
            return v, fn.ret
        return term, fn.ret

    def construct(self, name, n, c, binds):
        fields = self.records[name]
        given = {k.arg: k.value for k in n.keywords}
        for (f, ft, fd), a in zip(fields, n.args):
            given[f] = a
        parts = []
        for f, ft, fd in fields:
            if f in given:
                e, t = self.ex(given[f], c, binds, ft)
                parts.append("%s := %s" % (f, self.coerce(e, t, ft)))
            elif fd is not None:
                parts.append("%s := %s" % (f, fd))
            else:
                raise Untranslatable("field %s of %s not given" % (f, name))
        return "({ %s } : %s S)" % (", ".join(parts), name), T_rec(name)

    def comp_source(self, gen, c, binds):
        it, tit = self.ex(gen.iter, c, binds)
        if tit[0] != "list":
            raise Untranslatable("comprehension over " + lean_type(tit))
        c2 = c.copy()
        pat = self.bind_target(gen.target, tit[1], c2)
        return it, tit[1], pat, c2

    def bind_target(self, tg, t, c):
        if isinstance(tg, ast.Name):
            c.env[tg.id] = t
            return tg.id
        if isinstance(tg, ast.Tuple) and t[0] == "tuple" and len(tg.elts) == len(t[1]):
            return "(" + ", ".join(self.bind_target(x, tx, c) for x, tx in zip(tg.elts, t[1])) + ")"
        raise Untranslatable("target " + ast.unparse(tg))

    def listcomp(self, n, c, binds):
        g = n.generators[0]
        it, et, pat, c2 = self.comp_source(g, c, binds)
        b2 = []
        e, t = self.ex(n.elt, c2, b2)
        conds = [self.ex(x, c2, b2) for x in g.ifs]
        if b2:
            raise Untranslatable("effects inside a comprehension")
        src = it
        if conds:
            src = "(%s.filter (fun %s => %s))" % (it, pat, " && ".join(self.truth(x, tx) for x, tx in conds))
        return "(%s.map (fun %s => %s))" % (src, pat, e), T_list(t)

    def dictcomp(self, n, c, binds):
        g = n.generators[0]
        it, et, pat, c2 = self.comp_source(g, c, binds)
        b2 = []
        k, tk = self.ex(n.key, c2, b2)
        v, tv = self.ex(n.value, c2, b2)
        conds = [self.ex(x, c2, b2) for x in g.ifs]
        if b2:
            raise Untranslatable("effects inside a comprehension")
        src = it
        if conds:
            src = "(%s.filter (fun %s => %s))" % (it, pat, " && ".join(self.truth(x, tx) for x, tx in conds))
        return "(Mimic.Py.dictOf (%s.map (fun %s => (%s, %s))))" % (src, pat, k, v), T_dict(tk, tv)

    # ---------------------------------------------------------------- the monad of partial functions (hooks for subclasses)
    def m_ok(self, x):
        return "some %s" % x

    def m_fail(self):
        return "none"

    def m_bind(self, term, pat, body):
        """bind of a term of the function's own monad"""
        return "match %s with\n| none => none\n| some %s =>\n%s" % (term, pat, ind(body))

    def m_bind_opt(self, term, pat, body):
        """bind of an `Option` (a callee that may raise)"""
        return "match %s with\n| none => %s\n| some %s =>\n%s" % (term, self.m_fail(), pat, ind(body))

    # ---------------------------------------------------------------- statements
    def wrap(self, binds, body):
        """emit the effect binds in order around `body`"""
        if any(not p.startswith(("let:", "pure:")) for p, _ in binds) and not self._partial_mode:
            raise Untranslatable("effects in a total function")
        for pat, term in reversed(binds):
            if pat.startswith("let:"):
                body = "let %s := %s\n%s" % (pat[4:], term, body)
            elif pat.startswith("pure:"):
                body = "match %s with\n| %s =>\n%s" % (term, pat[5:], ind(body))
            else:
                body = self.m_bind_opt(term, pat, body)
        return body

    def result(self, c, e):
        """a function result in the function's monad"""
        if getattr(self, "mutating", False):
            e = "(%s, self)" % e if e != "()" else "self"
        if c.reader_fn:
            return "some (%s, %s)" % (e, c.rd)
        return "some %s" % e if c.partial else e

    def assigned(self, stmts, c):
        """names (re)bound by a block that falls through, in first-assignment order"""
        out = []

        def add(x):
            if x not in out:
                out.append(x)

        def tgt(t):
            if isinstance(t, ast.Name):
                add(t.id)
            elif isinstance(t, ast.Attribute) and isinstance(t.value, ast.Name):
                add(t.value.id)
            elif isinstance(t, ast.Subscript) and isinstance(t.value, ast.Name):
                add(t.value.id)
            elif isinstance(t, ast.Subscript) and isinstance(t.value, ast.Attribute) and isinstance(t.value.value, ast.Name):
                add(t.value.value.id)
            elif isinstance(t, (ast.Tuple, ast.List)):
                for x in t.elts:
                    tgt(x)

        def walk(ss):
            for s in ss:
                for x in ast.walk(s):
                    if isinstance(x, ast.Call) and isinstance(x.func, ast.Attribute) and isinstance(x.func.value, ast.Name) \
                            and x.func.value.id in c.env and c.env[x.func.value.id][0] == "rec" \
                            and getattr(self.fns.get(c.env[x.func.value.id][1] + "." + x.func.attr), "mutating", False):
                        add(x.func.value.id)
                    if isinstance(x, ast.Call) and isinstance(x.func, ast.Attribute) and isinstance(x.func.value, ast.Attribute) \
                            and isinstance(x.func.value.value, ast.Name) and x.func.attr in ("extend", "clear", "write", "pop", "reset", "cancel"):
                        add(x.func.value.value.id)
                    if isinstance(x, ast.Call) and isinstance(x.func, ast.Name) and x.func.id == "next" and x.args \
                            and isinstance(x.args[0], ast.Attribute) and isinstance(x.args[0].value, ast.Name):
                        add(x.args[0].value.id)
                if isinstance(s, ast.Assign):
                    for t in s.targets:
                        tgt(t)
                elif isinstance(s, (ast.AugAssign, ast.AnnAssign)):
                    tgt(s.target)
                elif isinstance(s, ast.If):
                    walk(s.body)
                    walk(s.orelse)
                elif isinstance(s, (ast.For, ast.While)):
                    walk(s.body)
                elif isinstance(s, ast.Expr) and isinstance(s.value, ast.Call) and isinstance(s.value.func, ast.Attribute) \
                        and s.value.func.attr in ("append", "extend", "flip", "pop") and isinstance(s.value.func.value, ast.Name):
                    add(s.value.func.value.id)
        walk(stmts)
        return out

    def terminates(self, stmts):
        """does every path through the block end in return / raise?"""
        if not stmts:
            return False
        s = stmts[-1]
        if isinstance(s, (ast.Return, ast.Raise, ast.Break)):
            return True
        if isinstance(s, ast.If) and s.orelse:
            return self.terminates(s.body) and self.terminates(s.orelse)
        return False

    def uses_reader(self, stmts, c):
        for s in stmts:
            for x in ast.walk(s):
                if isinstance(x, ast.Name) and x.id in c.rd_alias:
                    return True
        return False

    def block(self, stmts, c, k):
        """translate `stmts`; `k(c)` gives the Lean text for what follows when the block falls through"""
        if not stmts:
            return k(c)
        s, rest = stmts[0], stmts[1:]
        cont = lambda c2: self.block(rest, c2, k)
        if isinstance(s, ast.Expr) and isinstance(s.value, ast.Constant):
            return cont(c)
        if isinstance(s, ast.Pass):
            return cont(c)
        if isinstance(s, ast.Expr) and isinstance(s.value, ast.Call) and isinstance(s.value.func, ast.Attribute) \
                and isinstance(s.value.func.value, ast.Name) and s.value.func.value.id in ("logger", "logging") \
                and not any(isinstance(x, (ast.Await, ast.NamedExpr)) for x in ast.walk(s)):
            return cont(c)      # logging has no effect on what the function computes
        if isinstance(s, ast.Return):
            if s.value is None:
                return self.result(c, "()")
            binds, e, t = self.expr(s.value, c, c.ret)
            return self.wrap(binds, self.result(c, self.coerce(e, t, c.ret)))
        if isinstance(s, ast.Raise):
            if not c.partial:
                raise Untranslatable("raise in a total function")
            return self.m_fail()
        if isinstance(s, ast.Assert):
            # `assert isinstance(x, C)` on a sum-typed value is handled by the callers that need it
            raise Untranslatable("assert")
        if isinstance(s, ast.AnnAssign) and s.value is not None and isinstance(s.target, ast.Name):
            t = ann_type(s.annotation)
            binds, e, te = self.expr(s.value, c, t)
            c.env[s.target.id] = t
            return self.wrap(binds, "let %s : %s := %s\n%s" % (s.target.id, lean_type(t), self.coerce(e, te, t), cont(c)))
        if isinstance(s, ast.Assign) and len(s.targets) == 1:
            return self.assign(s.targets[0], s.value, c, cont)
        if isinstance(s, ast.AugAssign) and isinstance(s.op, ast.BitOr) and isinstance(s.target, ast.Subscript) \
                and isinstance(s.target.value, ast.Attribute) and isinstance(s.target.value.value, ast.Name) \
                and c.env.get(s.target.value.value.id, (None,))[0] == "rec":
            obj, fld = s.target.value.value.id, s.target.value.attr
            ft = [x[1] for x in self.records[c.env[obj][1]] if x[0] == fld]
            if ft and ft[0] == BYTES:
                binds = []
                ix, ti = self.ex(s.target.slice, c, binds)
                vx, tv = self.ex(s.value, c, binds)
                old, new = c.fresh("old"), c.fresh("new")
                binds.append((old, "Mimic.Py.byteAt %s.%s %s" % (obj, fld, ix)))                    # IndexError
                binds.append((new, "(if (%s ||| %s) < 256 then some (%s ||| %s) else none)" % (old, vx, old, vx)))    # ValueError: byte must be in range(0, 256)
                return self.wrap(binds, "let %s := { %s with %s := %s.%s.set %s (UInt8.ofNat %s) }\n%s" % (obj, obj, fld, obj, fld, ix, new, cont(c)))
        if isinstance(s, ast.AugAssign) and isinstance(s.target, ast.Name):
            fake = ast.BinOp(left=ast.Name(id=s.target.id, ctx=ast.Load()), op=s.op, right=s.value)
            return self.assign(s.target, fake, c, cont)
        if isinstance(s, ast.Expr) and isinstance(s.value, ast.Await):
            s = ast.Expr(value=s.value.value)
        if isinstance(s, ast.Expr) and isinstance(s.value, ast.Call):
            call = s.value
            f = call.func
            # self.field.extend(x) / self.field.clear() on a bytes field; self.writer.write(x) / self.writer.drain()
            if isinstance(f, ast.Attribute) and isinstance(f.value, ast.Attribute) and isinstance(f.value.value, ast.Name) \
                    and c.env.get(f.value.value.id, (None,))[0] == "rec":
                obj, fld = f.value.value.id, f.value.attr
                ft = [x[1] for x in self.records[c.env[obj][1]] if x[0] == fld]
                if ft and ft[0] == BYTES and f.attr == "extend" and len(call.args) == 1:
                    binds, e, t = self.expr(call.args[0], c, BYTES)
                    return self.wrap(binds, "let %s := { %s with %s := %s.%s ++ %s }\n%s" % (obj, obj, fld, obj, fld, e, cont(c)))
                if ft and ft[0] == T_opt(T_rec("Task")) and f.attr == "cancel" and not call.args:
                    # Task.cancel(): the request is recorded on the task object (delivery is asyncio's business)
                    return "let %s := { %s with %s := (%s.%s).map (fun t => { t with cancel_requested := true }) }\n%s" % (obj, obj, fld, obj, fld, cont(c))
                if ft and ft[0] == BYTES and f.attr == "clear" and not call.args:
                    return "let %s := { %s with %s := [] }\n%s" % (obj, obj, fld, cont(c))
                if ft and ft[0] == T_rec("Writer") and f.attr == "write" and len(call.args) == 1:
                    binds, e, t = self.expr(call.args[0], c, BYTES)
                    return self.wrap(binds, "let %s := { %s with %s := { %s.%s with log := %s.%s.log ++ [%s] } }\n%s" % (
                        obj, obj, fld, obj, fld, obj, fld, e, cont(c)))
                if ft and ft[0][0] == "rec" and (ft[0][1] + "." + f.attr) in self.fns and getattr(self.fns[ft[0][1] + "." + f.attr], "mutating", False) \
                        and self.fns[ft[0][1] + "." + f.attr].ret == ("unit",) and not call.args:
                    fn = self.fns[ft[0][1] + "." + f.attr]
                    return "let %s := { %s with %s := %s %s.%s }\n%s" % (obj, obj, fld, fn.lean, obj, fld, cont(c))
                if ft and ft[0] == T_rec("Writer") and f.attr == "drain" and not call.args:
                    return cont(c)       # StreamWriter.drain(): flow control only (assumption A4 of DESIGN.md)
            if isinstance(f, ast.Attribute) and isinstance(f.value, ast.Name) and f.value.id in c.env:
                obj = f.value.id
                to = c.env[obj]
                if f.attr == "append" and to[0] == "list":
                    binds, e, t = self.expr(call.args[0], c, to[1])
                    if to[1] is None:
                        to = T_list(t)
                        c.env[obj] = to
                    return self.wrap(binds, "let %s := %s ++ [%s]\n%s" % (obj, obj, self.coerce(e, t, to[1]), cont(c)))
                if to[0] == "rec" and (to[1] + "." + f.attr) in self.fns:
                    fn = self.fns[to[1] + "." + f.attr]
                    if fn.ret == T_rec(to[1]):      # a mutating method: returns the new object
                        binds = []
                        e, t = self.call_fn(fn, [f.value] + list(call.args), call.keywords, c, binds)
                        return self.wrap(binds, "let %s := %s\n%s" % (obj, e, cont(c)))
            # self.f.pop(k, None)
            if isinstance(f, ast.Attribute) and f.attr == "pop" and isinstance(f.value, ast.Attribute) and isinstance(f.value.value, ast.Name) \
                    and c.env.get(f.value.value.id, (None,))[0] == "rec" and len(call.args) == 2 \
                    and isinstance(call.args[1], ast.Constant) and call.args[1].value is None:
                obj, fld = f.value.value.id, f.value.attr
                ft = [x[1] for x in self.records[c.env[obj][1]] if x[0] == fld]
                if ft and ft[0][0] == "dict":
                    binds = []
                    kx, tk = self.ex(call.args[0], c, binds)
                    return self.wrap(binds, "let %s := { %s with %s := Mimic.Py.dictErase %s.%s %s }\n%s" % (
                        obj, obj, fld, obj, fld, self.coerce(kx, tk, ft[0][1]), cont(c)))
            binds, e, t = self.expr(call, c)
            return self.wrap(binds, cont(c))
        if isinstance(s, ast.If):
            return self.if_stmt(s, rest, c, k)
        if isinstance(s, ast.For):
            return self.for_stmt(s, c, cont)
        if isinstance(s, ast.While):
            return self.while_stmt(s, c, cont)
        raise Untranslatable("statement " + ast.unparse(s)[:80])

    def assign(self, tg, value, c, cont):
        # r = io.BytesIO(data)
        if isinstance(tg, ast.Name) and isinstance(value, ast.Call) and ast.unparse(value.func) == "io.BytesIO" and len(value.args) == 1:
            binds, e, t = self.expr(value.args[0], c)
            if t != BYTES:
                raise Untranslatable("BytesIO of " + lean_type(t))
            c.rd_alias.add(tg.id)
            r0 = c.fresh("r")
            c.rd = r0
            return self.wrap(binds, "let %s : Bytes := %s\n%s" % (r0, e, cont(c)))
        if isinstance(tg, ast.Name):
            want = c.env.get(tg.id)
            if want is None:
                want = self.local_types.get(c.fn_name, {}).get(tg.id)
            if want is not None and want[0] in ("list", "dict") and want[1] is None:
                want = None
            binds, e, t = self.expr(value, c, want)
            if want is not None and t != want:
                try:
                    e = self.coerce(e, t, want)
                    t = want
                except Untranslatable:
                    if {t, want} <= {NAT, INT}:
                        raise Untranslatable("variable %s changes from %s to %s (declare it Int from the start)" % (tg.id, lean_type(want), lean_type(t)))
                    pass
            c.env[tg.id] = t
            if t[0] in ("list", "dict") and t[1] is None:
                return self.wrap(binds, cont(c))      # no binding: the element type is fixed by the other branch of a join
            return self.wrap(binds, "let %s : %s := %s\n%s" % (tg.id, lean_type(t), e, cont(c)))
        if isinstance(tg, ast.Tuple):
            binds, e, t = self.expr(value, c)
            pat = self.bind_target(tg, t, c)
            return self.wrap(binds, "match %s with\n| %s =>\n%s" % (e, pat, ind(cont(c))))
        if isinstance(tg, ast.Attribute) and isinstance(tg.value, ast.Name) and tg.value.id in c.env and c.env[tg.value.id][0] == "rec":
            obj = tg.value.id
            rec = c.env[obj][1]
            ft = [x[1] for x in self.records[rec] if x[0] == tg.attr]
            if not ft:
                raise Untranslatable("field %s of %s" % (tg.attr, rec))
            binds, e, t = self.expr(value, c, ft[0])
            return self.wrap(binds, "let %s := { %s with %s := %s }\n%s" % (obj, obj, tg.attr, self.coerce(e, t, ft[0]), cont(c)))
        if isinstance(tg, ast.Subscript) and isinstance(tg.value, ast.Name) and tg.value.id in c.env and c.env[tg.value.id][0] == "dict":
            obj = tg.value.id
            binds = []
            kx, tk = self.ex(tg.slice, c, binds)
            vx, tv = self.ex(value, c, binds)
            to = c.env[obj]
            if to[1] is None:
                to = T_dict(tk, tv)
                c.env[obj] = to
            return self.wrap(binds, "let %s := Mimic.Py.dictSet %s %s %s\n%s" % (obj, obj, self.coerce(kx, tk, to[1]), self.coerce(vx, tv, to[2]), cont(c)))
        if isinstance(tg, ast.Subscript) and isinstance(tg.value, ast.Attribute) and isinstance(tg.value.value, ast.Name) \
                and c.env.get(tg.value.value.id, (None,))[0] == "rec":
            obj, fld = tg.value.value.id, tg.value.attr
            ft = [x[1] for x in self.records[c.env[obj][1]] if x[0] == fld]
            if ft and ft[0][0] == "dict":
                binds = []
                kx, tk = self.ex(tg.slice, c, binds)
                vx, tv = self.ex(value, c, binds, ft[0][2])
                return self.wrap(binds, "let %s := { %s with %s := Mimic.Py.dictSet %s.%s %s %s }\n%s" % (
                    obj, obj, fld, obj, fld, self.coerce(kx, tk, ft[0][1]), self.coerce(vx, tv, ft[0][2]), cont(c)))
        raise Untranslatable("assignment to " + ast.unparse(tg))

    def state(self, names, c, with_reader):
        """(pattern / tuple of the given variables [+ reader])"""
        items = list(names) + ([c.rd] if with_reader else [])
        if not items:
            return "()"
        if len(items) == 1:
            return items[0]
        return "(" + ", ".join(items) + ")"

    def if_stmt(self, s, rest, c, k):
        t0 = s.test
        if isinstance(t0, ast.Call) and isinstance(t0.func, ast.Name) and t0.func.id == "isinstance" and len(t0.args) == 2 \
                and isinstance(t0.args[0], ast.Name) and c.env.get(t0.args[0].id) == VAL and ast.unparse(t0.args[1]) == "str" \
                and self.terminates(s.body) and not s.orelse:
            x = t0.args[0].id
            cb = c.copy()
            cb.env[x] = STR
            inner = self.block(list(s.body), cb, None)
            other = self.block(rest, c.copy(), k)
            return "match %s with\n| Val.str %s =>\n%s\n| _ =>\n%s" % (x, x, ind(inner), ind(other))
        binds, ce, ct = self.expr(s.test, c)
        cond = self.truth(ce, ct)
        if ct == T_opt(NAT) and isinstance(s.test, (ast.Name, ast.Attribute)):
            # `if x:` on Optional[int]: true iff x is neither None nor 0; inside the body x is an int
            cond = "(match %s with | some v => v != 0 | none => false)" % ce
            c = c.copy()
            c.narrow.add(ast.unparse(s.test))
        body_t, else_t = self.terminates(s.body), self.terminates(s.orelse)
        cont = lambda c2: self.block(rest, c2, k)
        if body_t and else_t:
            return self.wrap(binds, "if %s then\n%s\nelse\n%s" % (cond, ind(self.block(s.body, c.copy(), None)), ind(self.block(s.orelse, c.copy(), None))))
        if body_t:
            c2 = c.copy()
            els = self.block(list(s.orelse), c2, cont)
            return self.wrap(binds, "if %s then\n%s\nelse\n%s" % (cond, ind(self.block(s.body, c.copy(), None)), ind(els)))
        if else_t:
            c2 = c.copy()
            thn = self.block(list(s.body), c2, cont)
            return self.wrap(binds, "if %s then\n%s\nelse\n%s" % (cond, ind(thn), ind(self.block(s.orelse, c.copy(), None))))
        # a branch that returns / raises on some paths and falls through on others: no join, the continuation is duplicated
        if any(isinstance(x, (ast.Return, ast.Raise)) for br in (s.body, s.orelse) for st in br for x in ast.walk(st)):
            thn = self.block(list(s.body), c.copy(), cont)
            els = self.block(list(s.orelse), c.copy(), cont)
            return self.wrap(binds, "if %s then\n%s\nelse\n%s" % (cond, ind(thn), ind(els)))
        # both branches fall through: join on the assigned variables (and the reader position)
        nb, ne = self.assigned(list(s.body), c), self.assigned(list(s.orelse), c)
        # a name bound in one branch only and unknown before is local to that branch
        names = [x for x in self.assigned(list(s.body) + list(s.orelse), c) if x in c.env or (x in nb and x in ne)]
        with_rd = c.rd is not None and self.uses_reader(list(s.body) + list(s.orelse), c)
        # types after the join: translate both branches with a probe continuation
        types = {}

        def leaf(c2):
            for nm in names:
                if nm not in c2.env:
                    raise Untranslatable("variable %s is not assigned on every path" % nm)
                t = c2.env[nm]
                if nm in types and types[nm] != t:
                    if t[0] in ("list", "dict") and t[1] is None and types[nm][0] == t[0]:
                        t = types[nm]
                    elif types[nm][0] in ("list", "dict") and types[nm][1] is None and types[nm][0] == t[0]:
                        pass
                    elif types[nm][0] == "opt" and t == NONE or (t[0] == "opt" and types[nm] == NONE):
                        t = types[nm] if types[nm][0] == "opt" else t
                    elif {types[nm], t} <= {NAT, INT}:
                        t = INT
                    else:
                        raise Untranslatable("variable %s has types %s and %s after a branch" % (nm, lean_type(types[nm]), lean_type(t)))
                types[nm] = t
            return ""
        saved_pending, saved_lc = list(getattr(self, "pending", [])), dict(getattr(self, "loop_counter", {}))
        tn = s.test
        narrow_else = (isinstance(tn, ast.Compare) and len(tn.ops) == 1 and isinstance(tn.ops[0], ast.Is) and isinstance(tn.left, ast.Name)
                       and isinstance(tn.comparators[0], ast.Constant) and tn.comparators[0].value is None
                       and c.env.get(tn.left.id, (None,))[0] == "opt" and bool(s.orelse))
        for br in (s.body, s.orelse):
            cc = c.copy()
            cc.counter = [c.counter[0]]
            if narrow_else and br is s.orelse:
                cc.env[tn.left.id] = c.env[tn.left.id][1]
            self.block(list(br), cc, leaf)
        self.pending, self.loop_counter = saved_pending, saved_lc      # the probe pass emits nothing
        def leaf2(c2):
            items = [self.coerce(nm, c2.env[nm], types[nm]) for nm in names] + ([c2.rd] if with_rd else [])
            tup = "()" if not items else items[0] if len(items) == 1 else "(" + ", ".join(items) + ")"
            return self.m_ok(tup) if c.partial else tup
        c1, c2 = c.copy(), c.copy()
        if narrow_else and tn.left.id not in names:
            c2.env[tn.left.id] = c.env[tn.left.id][1]
        thn = self.block(list(s.body), c1, leaf2)
        els = self.block(list(s.orelse), c2, leaf2)
        c3 = c.copy()
        for nm in names:
            c3.env[nm] = types[nm]
        if with_rd:
            c3.rd = c.fresh("r")
        pat = self.state(names, c3, with_rd)
        join = "(if %s then\n%s\nelse\n%s)" % (cond, ind(thn), ind(els))
        if narrow_else and tn.left.id not in names:
            join = "(match %s with\n| none =>\n%s\n| some %s =>\n%s)" % (tn.left.id, ind(thn), tn.left.id, ind(els))
        if c.partial:
            return self.wrap(binds, self.m_bind(join, pat, cont(c3)))
        return self.wrap(binds, "match %s with\n| %s =>\n%s" % (join, pat, ind(cont(c3))))

    def loop_state(self, body, c, extra=()):
        names = [nm for nm in self.assigned(body, c) if nm in c.env]
        for x in extra:
            if x in names:
                names.remove(x)
        with_rd = c.rd is not None and self.uses_reader(body, c)
        return names, with_rd

    def for_stmt(self, s, c, cont):
        if s.orelse:
            raise Untranslatable("for … else")
        binds = []
        it = s.iter
        # range(n) / enumerate(xs) / xs
        if isinstance(it, ast.Call) and isinstance(it.func, ast.Name) and it.func.id == "range" and len(it.args) == 1:
            nx, tn = self.ex(it.args[0], c, binds)
            src, et = "(List.range %s)" % nx, NAT
        elif isinstance(it, ast.Call) and isinstance(it.func, ast.Name) and it.func.id == "enumerate" and len(it.args) == 1:
            xs, tx = self.ex(it.args[0], c, binds)
            if tx[0] != "list":
                raise Untranslatable("enumerate of " + lean_type(tx))
            src, et = "((List.range (%s).length).zip %s)" % (xs, xs), T_tuple([NAT, tx[1]])
        else:
            xs, tx = self.ex(it, c, binds)
            if tx[0] != "list":
                raise Untranslatable("for over " + lean_type(tx))
            src, et = xs, tx[1]
        tvars = [x.id for x in ast.walk(s.target) if isinstance(x, ast.Name)]
        names, with_rd = self.loop_state(s.body, c, tvars)
        # element types of containers must be known before the loop
        for nm in names:
            if c.env[nm][0] in ("list", "dict") and c.env[nm][1] is None:
                raise Untranslatable("loop state %s has no element type" % nm)
        cb = c.copy()
        pat = self.bind_target(s.target, et, cb)
        if with_rd:
            cb.rd = c.fresh("r")
        spat = self.state(names, cb, with_rd)
        before = {nm: c.env[nm] for nm in names}

        def leaf(c2):
            items = [self.coerce(nm, c2.env[nm], before[nm]) for nm in names] + ([c2.rd] if with_rd else [])
            tup = "()" if not items else items[0] if len(items) == 1 else "(" + ", ".join(items) + ")"
            return "some %s" % tup
        if self.terminates(s.body) or any(isinstance(x, (ast.Return, ast.Break, ast.Continue)) for st in s.body for x in ast.walk(st)):
            raise Untranslatable("return / break / continue inside a for loop")
        saved = cb.partial
        cb.partial = True
        body = self.block(list(s.body), cb, leaf)
        cb.partial = saved
        init = self.state(names, c, with_rd)
        c3 = c.copy()
        if with_rd:
            c3.rd = c.fresh("r")
        opat = self.state(names, c3, with_rd)
        sty = self.state_type(names, before, with_rd)
        bound = set(tvars) | set(names)
        fn = self.lift(c, "for", [pat, spat], body, "%s → %s → Option %s" % (lean_type(et), sty, sty), bound)
        loop = "Mimic.Py.forM %s %s %s" % (src, init, fn)
        if not c.partial:
            raise Untranslatable("for loop in a total function")
        return self.wrap(binds, "match %s with\n| none => none\n| some %s =>\n%s" % (loop, opat, ind(cont(c3))))

    def while_stmt(self, s, c, cont):
        if s.orelse:
            raise Untranslatable("while … else")
        if not c.partial:
            raise Untranslatable("while loop in a total function")
        hint = self.fuel_hints.get(c.fn_name)
        if hint is None:
            raise Untranslatable("while loop in %s without a fuel hint" % c.fn_name)
        names, with_rd = self.loop_state(s.body, c)
        # a variable that is decremented becomes an Int from the loop entry
        pre = ""
        for st in ast.walk(s):
            if isinstance(st, ast.AugAssign) and isinstance(st.op, ast.Sub) and isinstance(st.target, ast.Name) and c.env.get(st.target.id) == NAT:
                pre += "let %s : Int := Int.ofNat %s\n" % (st.target.id, st.target.id)
                c.env[st.target.id] = INT
        fuel = {"reader": "((%s).length + 1)" % c.rd, "param": "fuel"}[hint]
        cb = c.copy()
        if with_rd:
            cb.rd = c.fresh("r")
        spat = self.state(names, cb, with_rd)
        before = {nm: c.env[nm] for nm in names}
        always = isinstance(s.test, ast.Constant) and s.test.value is True

        def pack(c2):
            items = [self.coerce(nm, c2.env[nm], before[nm]) for nm in names] + ([c2.rd] if with_rd else [])
            return "()" if not items else items[0] if len(items) == 1 else "(" + ", ".join(items) + ")"
        rett = lean_type(c.ret) if not c.reader_fn else "(%s × Bytes)" % lean_type(c.ret)
        if getattr(self, "mutating", False):
            st = lean_type(c.env["self"])
            rett = st if c.ret == ("unit",) else "(%s × %s)" % (lean_type(c.ret), st)
        sty = self.state_type(names, before, with_rd)

        def leaf(c2):
            return "some (Mimic.Py.Step.next %s)" % pack(c2)
        cbb = cb.copy()
        cbb.in_loop = True
        body = self.loop_block(list(s.body), cbb, leaf, pack)
        if always:
            step = body
        else:
            b0, ce, ct = self.expr(s.test, cb)
            if b0:
                raise Untranslatable("effects in a while condition")
            step = "if %s then\n%s\nelse some (Mimic.Py.Step.brk %s)" % (self.truth(ce, ct), ind(body), pack(cb))
        init = self.state(names, c, with_rd)
        c3 = c.copy()
        if with_rd:
            c3.rd = c.fresh("r")
        opat = self.state(names, c3, with_rd)
        fn = self.lift(c, "while", [spat], step, "%s → Option (Step %s %s)" % (sty, sty, rett), set(names))
        loop = "Mimic.Py.loopM (σ := %s) (α := %s) %s %s %s" % (sty, rett, fuel, init, fn)
        after = "none" if always else cont(c3)      # nothing follows a `while True` that has no break
        return pre + ("match %s with\n| none => none\n| some none => none\n| some (some (Mimic.Py.Step.next _)) => none\n"
                      "| some (some (Mimic.Py.Step.ret a)) => some a\n| some (some (Mimic.Py.Step.brk %s)) =>\n%s" % (loop, opat, ind(after)))

    def lift(self, c, kind, pats, body, ty, bound):
        """emit the loop body as a named definition of its own (so that proofs can refer to it) → the term to use"""
        import re
        self.loop_counter = getattr(self, "loop_counter", {})
        k = self.loop_counter.get(c.fn_name, 0) + 1
        self.loop_counter[c.fn_name] = k
        name = "%s_loop%d" % (c.fn_name.replace(".", "_").lstrip("_"), k)
        fvs = []
        for v, t in c.env.items():
            if v in bound or t is None or (t[0] in ("list", "dict") and t[1] is None):
                continue
            if re.search(r"(?<![A-Za-z0-9_.'])%s(?![A-Za-z0-9_'])" % re.escape(v), body):
                fvs.append((v, t))
        uses_env = bool(re.search(r"(?<![A-Za-z0-9_.])E(\.| |\))", body))
        extras = [(pn, pt) for pn, pt in getattr(self, "extra_params", []) if re.search(r"(?<![A-Za-z0-9_.])%s(?![A-Za-z0-9_])" % pn, body)]
        sig = (" (E : Env S)" if uses_env else "") + "".join(" (%s : %s)" % (pn, pt) for pn, pt in extras) \
            + "".join(" (%s : %s)" % (v, lean_type(t)) for v, t in fvs)
        text = "def %s%s : %s :=\n  fun %s =>\n%s\n" % (name, sig, ty, " ".join(pats), ind(body, 2))
        self.pending.append(text)
        return "(%s%s%s%s)" % (name, " E" if uses_env else "", "".join(" " + pn for pn, _ in extras), "".join(" " + v for v, _ in fvs))

    def state_type(self, names, types, with_rd):
        items = [lean_type(types[nm]) for nm in names] + (["Bytes"] if with_rd else [])
        if not items:
            return "Unit"
        return items[0] if len(items) == 1 else "(" + " × ".join(items) + ")"

    def loop_block(self, stmts, c, leaf, pack):
        """a while body: `return e` → Step.ret, `break` → Step.brk, falling through → Step.next"""
        tr = self

        class LoopCtxHack:
            pass
        saved_result = self.result

        def result(cc, e):
            if getattr(self, "mutating", False):
                e = "(%s, self)" % e if e != "()" else "self"
            if cc.reader_fn:
                return "some (Mimic.Py.Step.ret (%s, %s))" % (e, cc.rd)
            return "some (Mimic.Py.Step.ret %s)" % e
        self.result = result
        try:
            # `break` is only supported as the last statement of an if-branch; rewrite it as a pseudo-return
            def k(cc):
                return leaf(cc)
            out = self.block(self.rewrite_breaks(stmts), c, k)
            return out.replace("some (Mimic.Py.Step.ret BREAK_MARKER)", "some (Mimic.Py.Step.brk %s)" % pack(c)) if "BREAK_MARKER" in out else out
        finally:
            self.result = saved_result

    def rewrite_breaks(self, stmts):
        for s in stmts:
            for x in ast.walk(s):
                if isinstance(x, (ast.Break, ast.Continue)):
                    raise Untranslatable("break / continue")
        return stmts

    # ---------------------------------------------------------------- functions
    def find(self, name):
        if "." in name:
            cls, m = name.split(".")
            for n in self.tree.body:
                if isinstance(n, ast.ClassDef) and n.name == cls:
                    for f in n.body:
                        if isinstance(f, (ast.FunctionDef, ast.AsyncFunctionDef)) and f.name == m:
                            return f
        for n in self.tree.body:
            if isinstance(n, ast.FunctionDef) and n.name == name:
                return n
        raise Untranslatable("function %s not found" % name)

    def function(self, name, lean_name=None, param_types=None, ret=None, self_type=None, defaults=None, mutating=False, fuel_param=False):
        """translate one function and register it; returns the Lean text"""
        f = self.find(name)
        lean_name = lean_name or name.replace(".", "_").lstrip("_")
        param_types = param_types or {}
        params = []
        reader = False
        args = list(f.args.args)
        dvals = [None] * (len(args) - len(f.args.defaults)) + list(f.args.defaults)
        env = {}
        for a, d in zip(args, dvals):
            if a.arg == "cls":
                continue
            if a.arg == "self":
                t = self_type
            elif a.arg in param_types:
                t = param_types[a.arg]
            elif a.annotation is not None and ast.unparse(a.annotation) == "io.BytesIO":
                reader = a.arg
                continue
            elif a.annotation is not None:
                t = ann_type(a.annotation)
            else:
                raise Untranslatable("%s: parameter %s has no type" % (name, a.arg))
            dl = None
            if d is not None:
                if isinstance(d, ast.Constant) and d.value is None:
                    dl = "none"
                elif isinstance(d, ast.Constant) and isinstance(d.value, bool):
                    dl = "true" if d.value else "false"
                elif isinstance(d, ast.Constant) and isinstance(d.value, int):
                    dl = str(d.value)
            params.append((a.arg, t, dl))
            env[a.arg] = t
        env.update(getattr(self, "extra_env", {}))
        rt = ret if ret is not None else (ann_type(f.returns) if f.returns is not None else None)
        if rt is None:
            raise Untranslatable("%s: no return type" % name)
        uses_env = False
        last_err = None
        self.mutating = mutating
        for partial in (False, True):
            c = Ctx(self, name, env, "r" if reader else None, rt, bool(reader), partial)
            if reader:
                c.rd_alias.add(reader)
            if (reader or getattr(self, "force_partial", False)) and not partial:
                continue
            self._partial_mode = partial
            self.pending = []
            lc = dict(getattr(self, "loop_counter", {}))
            try:
                body = self.block([s for s in f.body], c, lambda cc: (_ for _ in ()).throw(Untranslatable("%s falls off its end" % name))
                                  if rt != ("unit",) else self.result(cc, "()"))
            except Untranslatable as e:
                last_err = e
                self.loop_counter = lc
                if not partial and ("total function" in str(e) or True):
                    continue
                raise
            uses_env = "E." in body or " E " in body or " E)" in body
            fuel = self.fuel_hints.get(name) == "param"
            sig = "".join(" (%s : %s)" % (p, lean_type(t)) for p, t, _ in params)
            extra = "".join(" (%s : %s)" % (pn, pt) for pn, pt in getattr(self, "extra_params", []) if __import__("re").search(r"(?<![A-Za-z0-9_.])%s(?![A-Za-z0-9_])" % pn, body))
            head = "def %s%s%s%s%s%s" % (lean_name, " (E : Env S)" if uses_env else "", " (fuel : Nat)" if fuel else "", extra, " (r : Bytes)" if reader else "", sig)
            rl = lean_type(rt)
            if mutating:
                rl = lean_type(self_type) if rt == ("unit",) else "(%s × %s)" % (rl, lean_type(self_type))
            if reader:
                rty = "Option (%s × Bytes)" % rl
            else:
                rty = ("Option %s" % rl) if partial else rl
            self.fns[name.split(".")[-1] if "." not in name else name] = Fn(name, lean_name, params, rt, bool(reader), partial, fuel, uses_env)
            self.fns[name.split(".")[-1] if "." not in name else name].mutating = mutating
            self.mutating = False
            if "." in name:
                self.fns[name] = self.fns[name]
            text = "".join(t + "\n" for t in self.pending) + "%s : %s :=\n%s\n" % (head, rty, ind(body))
            self.out.append(text)
            return text
        raise last_err

    def record_decl(self, name):
        fields = self.records[name]
        lines = ["structure %s (S : Type) where" % name]
        for f, t, d in fields:
            lines.append("  %s : %s" % (f, lean_type(t)))
        return "\n".join(lines) + "\n"


def dataclass_fields(cls, overrides=None):
    """[(field, type, default lean)] from a dataclass (annotations as source text via ast)"""
    overrides = overrides or {}
    src = inspect.getsource(cls)
    node = ast.parse(src).body[0]
    out = []
    for s in node.body:
        if isinstance(s, ast.AnnAssign) and isinstance(s.target, ast.Name):
            nm = s.target.id
            t = overrides[nm] if nm in overrides else ann_type(s.annotation)
            d = None
            if s.value is not None:
                v = s.value
                if isinstance(v, ast.Constant) and v.value is None:
                    d = "none"
                elif isinstance(v, ast.Constant) and isinstance(v.value, int):
                    d = str(v.value)
                elif ast.unparse(v) == "field(default_factory=dict)":
                    d = "[]"
                else:
                    raise Untranslatable("default of %s.%s" % (cls.__name__, nm))
            if t is not None:
                out.append((nm, t, d))
    return out


# ----------------------------------------------------------------------------- packets.py parsers
def lib_fns():
    """signatures of the already translated wire primitives (Mimic.Extracted.Types) and of library primitives"""
    fns = {}

    def rd(name, ret, extra=()):
        fns[name] = Fn(name, "Mimic.Extracted.Types." + name, [(p, NAT, None) for p in extra], ret, True, True)
    for n in ("read_uint_1", "read_uint_2", "read_uint_3", "read_uint_4", "read_uint_6", "read_uint_8", "read_uint_len"):
        rd(n, NAT)
    for n in ("read_int_1", "read_int_2", "read_int_4", "read_int_8"):
        rd(n, INT)
    rd("read_str_len", BYTES)
    rd("read_str_rest", BYTES)
    rd("read_str_fixed", BYTES, ("l",))
    fns["read_float"] = Fn("read_float", "Mimic.Py.readFlt (S := S) 4", [], VAL, True, True)
    fns["read_double"] = Fn("read_double", "Mimic.Py.readFlt (S := S) 8", [], VAL, True, True)
    for n, ps in (("uint_1", [NAT]), ("uint_2", [NAT]), ("uint_3", [NAT]), ("uint_4", [NAT]), ("uint_8", [NAT]), ("uint_len", [NAT]),
                  ("str_len", [BYTES]), ("str_null", [BYTES]), ("str_rest", [BYTES]), ("str_fixed", [NAT, BYTES])):
        fns[n] = Fn(n, "Mimic.Extracted.Types." + n, [("a%d" % i, t, None) for i, t in enumerate(ps)], BYTES, False, False)
    return fns


def translate_packet_parsers():
    """→ Lean source of namespace Mimic.Extracted.ParsersCode"""
    from mysql_mimic import packets as P, results as R, types as Ty, prepared as Pr
    from mysql_mimic.types import Capabilities, ColumnType, ComStmtExecuteFlags, ResultsetMetadata
    enums = {"Capabilities": {m.name: int(m) for m in Capabilities}, "ColumnType": {m.name: int(m) for m in ColumnType},
             "ComStmtExecuteFlags": {m.name: int(m) for m in ComStmtExecuteFlags},
             "ResultsetMetadata": {m.name: int(m) for m in ResultsetMetadata}}
    # aliases of flag members (CLIENT_SECURE_CONNECTION = CLIENT_RESERVED2 …) are members of __members__
    for cls in (Capabilities, ColumnType, ComStmtExecuteFlags, ResultsetMetadata):
        for nm, m in cls.__members__.items():
            enums[cls.__name__][nm] = int(m)
    attrs_t = T_dict(STR, STR)
    qattrs_t = T_dict(T_opt(STR), VAL)      # annotated Dict[str, str]; the values are whatever _read_param_value returns
    records = {
        "SSLRequest": dataclass_fields(P.SSLRequest),
        "HandshakeResponse41": dataclass_fields(P.HandshakeResponse41),
        "ComChangeUser": dataclass_fields(P.ComChangeUser),
        "ComQuery": dataclass_fields(P.ComQuery, {"query_attrs": qattrs_t}),
        "ComStmtSendLongData": dataclass_fields(P.ComStmtSendLongData),
        "ComStmtFetch": dataclass_fields(P.ComStmtFetch),
        "ComStmtReset": dataclass_fields(P.ComStmtReset),
        "ComStmtClose": dataclass_fields(P.ComStmtClose),
        "ComFieldList": dataclass_fields(P.ComFieldList),
        "NullBitmap": [("bitmap", BYTES, None), ("offset", NAT, None)],
        "PreparedStatement": dataclass_fields(Pr.PreparedStatement, {"cursor": None}),
    }
    out = ["-- GENERATED by harness/extract.py (harness/pytrans2.py) from /repo/mysql_mimic/{types,results,packets}.py — do not edit",
           "import Mimic.Py", "import Mimic.Extracted.Types", "namespace Mimic.Extracted.ParsersCode", "open Mimic.Py", "",
           "variable {S : Type} [DecidableEq S]", ""]
    # --- types.py: read_str_null
    t_types = Translator(Ty, enums, records, fuel_hints={"read_str_null": "reader"})
    t_types.flags = {"Capabilities", "ComStmtExecuteFlags"}
    t_types.fns.update(lib_fns())
    out.append(t_types.function("read_str_null"))
    # --- results.py: NullBitmap
    t_res = Translator(R, enums, records)
    t_res.flags = t_types.flags
    t_res.fns.update(lib_fns())
    for nm in records:
        pass
    out.append(t_res.record_decl("NullBitmap"))
    nb = T_rec("NullBitmap")
    out.append(t_res.function("NullBitmap._num_bytes", "NullBitmap_num_bytes"))
    t_res.fns["cls._num_bytes"] = t_res.fns["NullBitmap._num_bytes"]
    # `cls(bitmap, offset)` inside the classmethods is the record constructor
    t_res.cls_name = "NullBitmap"
    out.append(t_res.function("NullBitmap.from_buffer", "NullBitmap_from_buffer", ret=nb))
    out.append(t_res.function("NullBitmap._pos", "NullBitmap_pos", self_type=nb))
    out.append(t_res.function("NullBitmap.is_flipped", "NullBitmap_is_flipped", self_type=nb))
    # --- packets.py
    t = Translator(P, enums, records, fuel_hints={"_read_connect_attrs": "reader"})
    t.flags = t_types.flags
    t.strict_enums = {"ColumnType": "E.validType"}
    t.local_types = {"_read_connect_attrs": {"connect_attrs": T_dict(STR, STR)},
                     "_read_params": {"param_types": T_list(T_tuple([STR, NAT, BOOL]))},
                     "make_column_count": {"parts": T_list(BYTES)}}
    t.fns.update(lib_fns())
    t.fns["read_str_null"] = t_types.fns["read_str_null"]
    for k in ("NullBitmap.from_buffer", "NullBitmap.is_flipped"):
        t.fns[k] = t_res.fns[k]
    for nm in ("SSLRequest", "HandshakeResponse41", "ComChangeUser", "ComQuery", "ComStmtSendLongData", "ComStmtFetch", "ComStmtReset",
               "ComStmtClose", "ComFieldList", "PreparedStatement"):
        out.append(t.record_decl(nm))
    order = ["parse_com_stmt_send_long_data", "parse_handle_stmt_fetch", "parse_com_stmt_reset", "parse_com_stmt_close", "parse_com_init_db",
             "parse_com_field_list", "_read_cursor_flags", "_read_param_type", "_read_param_value", "_read_connect_attrs",
             "parse_handshake_response", "parse_com_change_user", "_read_params", "parse_com_query",
             "make_column_count", "make_com_stmt_prepare_ok", "make_auth_more_data", "make_auth_switch_request", "make_handshake_v10"]
    names = []
    overrides = {
        "_read_params": dict(ret=T_list(T_tuple([T_opt(STR), VAL]))),
    }
    for nm in order:
        out.append(t.function(nm, **{k: v for k, v in overrides.get(nm, {}).items() if k != "param_types" or all(x is not None for x in v.values())}))
        names.append(nm)
    out.append("def translated : List String := [%s]" % ", ".join('"%s"' % n for n in ["read_str_null", "NullBitmap._num_bytes", "NullBitmap.from_buffer",
               "NullBitmap._pos", "NullBitmap.is_flipped"] + names))
    out.append("end Mimic.Extracted.ParsersCode")
    return "\n".join(out) + "\n"


if __name__ == "__main__":
    print(translate_packet_parsers())


# ----------------------------------------------------------------------------- control.py: LocalControl, utils.seq
def translate_control():
    """→ Lean source of namespace Mimic.Extracted.ControlCode: utils.seq (__next__, reset) and LocalControl
    (_new_connection_id, add, remove) as functions over explicit object states"""
    from mysql_mimic import control as Ctl, utils as U
    records = {
        "seq": [("size", T_opt(NAT), None), ("value", NAT, None)],
        # class attributes are fields so that the sequence space is a parameter (the check overrides them in a subclass)
        "LocalControl": [("_connection_seq", T_rec("seq"), None), ("_connections", T_dict(NAT, NAT), None), ("server_id", NAT, None),
                         ("_MAX_CONNECTION_SEQ", NAT, None), ("_CONNECTION_ID_BITS", NAT, None), ("_MAX_SERVER_ID", NAT, None)],
    }
    out = ["-- GENERATED by harness/extract.py (harness/pytrans2.py) from /repo/mysql_mimic/{utils,control}.py — do not edit",
           "import Mimic.Py", "namespace Mimic.Extracted.ControlCode", "open Mimic.Py", "",
           "variable {S : Type}", ""]
    tu = Translator(U, {}, records)
    out.append(tu.record_decl("seq"))
    sq = T_rec("seq")
    out.append(tu.function("seq.__next__", "seq_next", self_type=sq, ret=NAT, mutating=True))
    out.append(tu.function("seq.reset", "seq_reset", self_type=sq, ret=("unit",), mutating=True))
    tc = Translator(Ctl, {}, records, fuel_hints={"LocalControl._new_connection_id": "param", "LocalControl.add": "param"})
    tc.fns.update(tu.fns)
    lc = T_rec("LocalControl")
    out.append(tc.record_decl("LocalControl"))
    out.append(tc.function("LocalControl._new_connection_id", "new_connection_id", self_type=lc, ret=NAT, mutating=True))
    out.append(tc.function("LocalControl.add", "add", self_type=lc, param_types={"connection": NAT}, ret=NAT, mutating=True))
    out.append(tc.function("LocalControl.remove", "remove", self_type=lc, ret=("unit",), mutating=True))
    # class constants as they are in the source
    out.append("def maxConnectionSeq : Nat := %d" % Ctl.LocalControl._MAX_CONNECTION_SEQ)
    out.append("def connectionIdBits : Nat := %d" % Ctl.LocalControl._CONNECTION_ID_BITS)
    out.append("def maxServerId : Nat := %d" % Ctl.LocalControl._MAX_SERVER_ID)
    # __init__: the initial state
    src = inspect.getsource(Ctl.LocalControl.__init__)
    want = ["self._connection_seq = seq(self._MAX_CONNECTION_SEQ)", "self._connections: Dict[int, Connection] = {}"]
    for w in want:
        if w not in src:
            raise Untranslatable("LocalControl.__init__ no longer contains `%s`" % w)
    isrc = inspect.getsource(U.seq.__init__)
    if "self.size = size" not in isrc or "self.value = 0" not in isrc:
        raise Untranslatable("seq.__init__ changed")
    out.append("/-- `LocalControl(server_id)` with the class attributes as given -/")
    out.append("def init (server_id n bits maxSid : Nat) : LocalControl S :=\n  { _connection_seq := { size := some n, value := 0 }, _connections := [], server_id := server_id,\n"
               "    _MAX_CONNECTION_SEQ := n, _CONNECTION_ID_BITS := bits, _MAX_SERVER_ID := maxSid }")
    out.append("end Mimic.Extracted.ControlCode")
    return "\n".join(out) + "\n"


# ----------------------------------------------------------------------------- stream.py: MysqlStream.write / drain
def translate_stream():
    """→ Lean source of namespace Mimic.Extracted.StreamCode: MysqlStream.drain and MysqlStream.write over an explicit
    object state (sequence counter, write buffer, the list of `transport.write` calls)"""
    from mysql_mimic import stream as St, utils as U
    records = {
        "seq": [("size", T_opt(NAT), None), ("value", NAT, None)],
        "Writer": [("log", T_list(BYTES), None)],
        "MysqlStream": [("seq", T_rec("seq"), None), ("_buffer", BYTES, None), ("_buffer_size", NAT, None), ("writer", T_rec("Writer"), None)],
    }
    out = ["-- GENERATED by harness/extract.py (harness/pytrans2.py) from /repo/mysql_mimic/{utils,stream}.py — do not edit",
           "import Mimic.Py", "import Mimic.Extracted.Types", "namespace Mimic.Extracted.StreamCode", "open Mimic.Py", "",
           "variable {S : Type}", ""]
    tu = Translator(U, {}, records)
    out.append(tu.record_decl("seq"))
    out.append(tu.function("seq.__next__", "seq_next", self_type=T_rec("seq"), ret=NAT, mutating=True))
    out.append(tu.function("seq.reset", "seq_reset", self_type=T_rec("seq"), ret=("unit",), mutating=True))
    ts = Translator(St, {}, records, fuel_hints={"MysqlStream.write": "param"})
    ts.fns.update(lib_fns())
    ts.fns.update(tu.fns)
    ms = T_rec("MysqlStream")
    out.append(ts.record_decl("Writer"))
    out.append(ts.record_decl("MysqlStream"))
    out.append(ts.function("MysqlStream.drain", "ms_drain", self_type=ms, ret=("unit",), mutating=True))
    out.append(ts.function("MysqlStream.write", "ms_write", self_type=ms, ret=("unit",), mutating=True))
    out.append(ts.function("MysqlStream.reset_seq", "reset_seq", self_type=ms, ret=("unit",), mutating=True))
    isrc = inspect.getsource(St.MysqlStream.__init__)
    for w in ("self.seq = seq(256)", "self._buffer = bytearray()", "self._buffer_size = buffer_size"):
        if w not in isrc:
            raise Untranslatable("MysqlStream.__init__ no longer contains `%s`" % w)
    out.append("def init (buffer_size : Nat) : MysqlStream S :=\n  { seq := { size := some 256, value := 0 }, _buffer := [], _buffer_size := buffer_size, writer := { log := [] } }")
    out.append("end Mimic.Extracted.StreamCode")
    return "\n".join(out) + "\n"


# ----------------------------------------------------------------------------- packets.py: the COM_STMT_EXECUTE path (text is List Char)
def translate_execute():
    """→ Lean source of namespace Mimic.Extracted.ExecuteCode: _encode_param_as_sql, _interpolate_params,
    parse_com_stmt_execute; `str` is `List Char` here (replace, f-strings, regex substitution)"""
    from mysql_mimic import packets as P, prepared as Pr
    from mysql_mimic.types import Capabilities, ColumnType, ComStmtExecuteFlags
    enums = {}
    for cls in (Capabilities, ColumnType, ComStmtExecuteFlags):
        enums[cls.__name__] = {nm: int(m) for nm, m in cls.__members__.items()}
    qattrs_t = T_dict(T_opt(STR), VAL)
    records = {
        "NullBitmap": [("bitmap", BYTES, None), ("offset", NAT, None)],
        "PreparedStatement": dataclass_fields(Pr.PreparedStatement, {"cursor": None}),
        "ComStmtExecute": dataclass_fields(P.ComStmtExecute, {"query_attrs": qattrs_t}),
    }
    t = Translator(P, enums, records)
    t.flags = {"Capabilities", "ComStmtExecuteFlags"}
    t.strict_enums = {"ColumnType": "E.validType"}
    t.concrete_str = True
    t.fns.update(lib_fns())
    PC = "Mimic.Extracted.ParsersCode."
    params_t = T_list(T_tuple([T_opt(STR), VAL]))
    t.fns["_read_params"] = Fn("_read_params", PC + "read_params", [("capabilities", NAT, None), ("client_charset", CS, None), ("parameter_count", NAT, None),
                                                                    ("buffers", T_opt(T_dict(NAT, BYTES)), "none")], params_t, True, True, env=True)
    t.fns["_read_cursor_flags"] = Fn("_read_cursor_flags", PC + "read_cursor_flags", [], T_tuple([BOOL, BOOL]), True, True)
    t.local_types = {"_interpolate_params": {"query_attrs": qattrs_t}}
    out = ["-- GENERATED by harness/extract.py (harness/pytrans2.py) from /repo/mysql_mimic/packets.py — do not edit",
           "import Mimic.Py", "import Mimic.Extracted.Types", "import Mimic.Extracted.ParsersCode", "namespace Mimic.Extracted.ExecuteCode",
           "open Mimic.Py", "open Mimic.Extracted.ParsersCode (PreparedStatement)", "", "abbrev S : Type := List Char", ""]
    out.append(t.record_decl("ComStmtExecute").replace("structure ComStmtExecute (S : Type) where", "structure ComStmtExecute (S : Type) where"))
    out.append(t.function("_encode_param_as_sql"))
    out.append(t.function("_interpolate_params", ret=T_tuple([STR, qattrs_t])))
    out.append(t.function("parse_com_stmt_execute"))
    # the source of REGEX_PARAM is pinned by C06.source_facts (Extracted/Params.lean); E.paramAt is its meaning
    out.append("end Mimic.Extracted.ExecuteCode")
    return "\n".join(out) + "\n"


# ----------------------------------------------------------------------------- utils.py: xor
def translate_utils():
    from mysql_mimic import utils as U
    t = Translator(U, {}, {})
    out = ["-- GENERATED by harness/extract.py (harness/pytrans2.py) from /repo/mysql_mimic/utils.py — do not edit",
           "import Mimic.Py", "namespace Mimic.Extracted.UtilsCode", "open Mimic.Py", "", "variable {S : Type}", ""]
    out.append(t.function("xor"))
    out.append("end Mimic.Extracted.UtilsCode")
    return "\n".join(out) + "\n"


# ----------------------------------------------------------------------------- results.py NullBitmap (write side), packets.py row builders
def translate_rows():
    """→ Lean source of namespace Mimic.Extracted.RowsCode: NullBitmap.new / flip / __bytes__, make_binary_resultrow,
    make_text_resultset_row.  Cell values are `Option W` (None or an opaque application value), columns are opaque; the
    encoders of a column (`binary_encode`, `text_encode`) are function parameters."""
    from mysql_mimic import packets as P, results as R
    records = {"NullBitmap": [("bitmap", BYTES, None), ("offset", NAT, None)]}
    out = ["-- GENERATED by harness/extract.py (harness/pytrans2.py) from /repo/mysql_mimic/{results,packets}.py — do not edit",
           "import Mimic.Py", "import Mimic.Extracted.Types", "import Mimic.Extracted.ParsersCode", "namespace Mimic.Extracted.RowsCode",
           "open Mimic.Py", "open Mimic.Extracted.ParsersCode (NullBitmap NullBitmap_num_bytes NullBitmap_pos)", "",
           "variable {S C W : Type}", ""]
    nb = T_rec("NullBitmap")
    tr = Translator(R, {}, records)
    tr.cls_name = "NullBitmap"
    tr.fns.update(lib_fns())
    PC = "Mimic.Extracted.ParsersCode."
    tr.fns["cls._num_bytes"] = Fn("NullBitmap._num_bytes", PC + "NullBitmap_num_bytes", [("num_bits", NAT, None), ("offset", NAT, None)], NAT, False, False)
    tr.fns["NullBitmap._pos"] = Fn("NullBitmap._pos", PC + "NullBitmap_pos", [("self", nb, None), ("i", NAT, None)], T_tuple([NAT, NAT]), False, False)
    out.append(tr.function("NullBitmap.new", "NullBitmap_new", ret=nb))
    out.append(tr.function("NullBitmap.flip", "NullBitmap_flip", self_type=nb, ret=("unit",), mutating=True))
    out.append(tr.function("NullBitmap.__bytes__", "NullBitmap_bytes", self_type=nb, ret=BYTES))
    tp = Translator(P, {}, records)
    tp.fns.update(lib_fns())
    for k in ("NullBitmap.new", "NullBitmap.flip", "NullBitmap.__bytes__"):
        tp.fns[k] = tr.fns[k]
    W, Cc = ("abs", "W"), ("abs", "C")
    tp.abs_methods = {("C", "binary_encode"): ("binary_encode", [W], BYTES, True), ("C", "text_encode"): ("text_encode", [W], BYTES, True)}
    tp.extra_params = [("binary_encode", "C → W → Option Bytes"), ("text_encode", "C → W → Option Bytes")]
    tp.local_types = {"make_binary_resultrow": {"values": T_list(BYTES)}, "make_text_resultset_row": {"parts": T_list(BYTES)}}
    ptypes = {"row": T_list(T_opt(W)), "columns": T_list(Cc)}
    out.append(tp.function("make_binary_resultrow", param_types=ptypes))
    out.append(tp.function("make_text_resultset_row", param_types=ptypes))
    out.append("end Mimic.Extracted.RowsCode")
    return "\n".join(out) + "\n"


# ----------------------------------------------------------------------------- connection.py: Connection.kill
def translate_kill():
    """→ Lean source of namespace Mimic.Extracted.KillCode: Connection.kill over the three fields it reads and writes;
    `asyncio.current_task() is self._task` is the parameter `own_task`"""
    from mysql_mimic import connection as Cn
    from mysql_mimic.constants import KillKind
    enums = {"KillKind": {nm: int(m.value) for nm, m in KillKind.__members__.items()}}
    records = {"Task": [("cancel_requested", BOOL, None)],
               "Connection": [("_task", T_opt(T_rec("Task")), None), ("_executing", BOOL, None), ("_kill", T_opt(NAT), None)]}
    t = Translator(Cn, enums, records)
    t.extra_env = {"own_task": BOOL}
    out = ["-- GENERATED by harness/extract.py (harness/pytrans2.py) from /repo/mysql_mimic/connection.py — do not edit",
           "import Mimic.Py", "namespace Mimic.Extracted.KillCode", "open Mimic.Py", "", "variable {S : Type}", ""]
    out.append(t.record_decl("Task"))
    out.append(t.record_decl("Connection"))
    out.append(t.function("Connection.kill", "kill", self_type=T_rec("Connection"), param_types={"kind": NAT}, ret=("unit",), mutating=True,
                          ).replace("(kind : Nat)", "(kind : Nat) (own_task : Bool)"))
    out.append("def KILL_QUERY : Nat := %d" % int(KillKind.QUERY.value))
    out.append("def KILL_CONNECTION : Nat := %d" % int(KillKind.CONNECTION.value))
    out.append("end Mimic.Extracted.KillCode")
    return "\n".join(out) + "\n"
