"""Run in a subprocess by harness/props/c07.py: feeds packet families of growing size to a real server in-process and
prints one JSON line per packet with the wall-clock time the event loop was occupied.  The parent enforces a hard
timeout, so a handler that blocks (e.g. catastrophic regex backtracking, which Python cannot interrupt) is reported
instead of hanging the check."""
import asyncio
import json
import os
import struct
import sys
import time

sys.path.insert(0, os.path.dirname(os.path.abspath(__file__)))
from lib import BASE, Peer, RawSession, mkserver, com_stmt_execute, T_VAR_STRING  # noqa: E402
from mysql_mimic import Session  # noqa: E402


def families():
    sizes = [4, 8, 12, 16, 18, 20, 21, 22, 23, 24, 25, 26, 28, 32, 48, 64, 128, 512, 2048]
    fam = {
        "prepare: ? + plain run + unterminated quote": lambda n: b"\x16SELECT ?" + b"x" * n + b"'abc",
        "prepare: ? + plain run + unterminated double quote": lambda n: b"\x16SELECT ? " + b"ab " * (n // 3) + b'"',
        "prepare: ? + unterminated quote + plain run": lambda n: b"\x16SELECT ? AS '" + b"a" * n,
        "prepare: ? + unterminated backtick + plain run": lambda n: b"\x16SELECT ? AS `" + b"a" * n,
        "prepare: ? + mixed-quote literal + plain run": lambda n: b"\x16SELECT ? , \"it's " + b"a" * n + b"\"",
        "prepare: ? + backslashes + unterminated quote": lambda n: b"\x16SELECT ? AS '" + b"\\a" * (n // 2),
        "execute text: ? + unterminated quote + plain run": lambda n: b"\x03SELECT ? AS '" + b"a" * n,
        "prepare: many placeholders": lambda n: b"\x16SELECT " + b"?," * n + b"1",
        "prepare: many quotes": lambda n: b"\x16SELECT ?" + b"'" * n,
        "prepare: alternating quotes": lambda n: b"\x16SELECT ?" + b"'\"`" * (n // 3) + b"x",
        "prepare: ? then many short literals": lambda n: b"\x16SELECT ?" + b" 'a'" * (n // 4) + b" '",
        "query: long literal": lambda n: b"\x03SELECT '" + b"a" * n,
        "field-list: long wildcard": lambda n: b"\x04t\x00" + b"%_" * n,
    }
    for name, f in fam.items():
        for n in sizes:
            yield name, n, f(n)
    # a prepared statement executed with ONE short parameter that is a number written as text with a growing exponent, under
    # every type code whose value is length-encoded text: a handful of bytes must not be expanded into megabytes of SQL
    def execute(tcode, value):
        return [b"\x16SELECT ?", lambda sid: b"\x17" + struct.pack("<IBI", sid, 0, 1) + b"\x00" + b"\x01" + bytes([tcode, 0]) + bytes([len(value)]) + value]
    for tcode, tname in [(0x00, "DECIMAL"), (0xF6, "NEWDECIMAL"), (0xFD, "VAR_STRING"), (0x05, "DOUBLE-as-text"), (0x0F, "VARCHAR")]:
        for exp in [10, 1000, 100000, 5000000, 60000000]:
            yield "execute: %s parameter with a huge exponent" % tname, exp, execute(tcode, b"1e%d" % exp)


class Plain(Session):
    """an ordinary application: the library parses the statement before it gets here"""

    async def query(self, expression, sql, attrs):
        return [(1,)], ["a"]


async def main():
    srv = mkserver((RawSession() for _ in range(10 ** 6)))
    srv_plain = mkserver((Plain() for _ in range(10 ** 6)))
    for name, n, payload in families():
        a = Peer(srv_plain if isinstance(payload, list) else srv)
        if isinstance(payload, list):
            await a.login(caps=int(BASE) & ~(1 << 27))      # without query attributes: the plain parameter block
            for pre in payload[:-1]:
                ack = await a.cmd(pre, n=10)
            payload = payload[-1](struct.unpack_from("<I", ack[0][1], 1)[0])      # the statement id the PREPARE was answered with
        else:
            await a.login()
        # CPU time of this process, not wall-clock: a loaded machine must not look like a slow handler
        t0 = time.process_time()
        out = await a.cmd(payload, n=10)
        dt = time.process_time() - t0
        print(json.dumps(dict(family=name, n=n, payload=payload.hex(), seconds=round(dt, 4), replied=bool(out))), flush=True)
        await a.finish()
        if dt > 1.5:
            # do not go on to the next size of a family that is already far too slow
            print(json.dumps(dict(family=name, n=n, stop=True)), flush=True)
            return


if __name__ == "__main__":
    asyncio.run(main())
