"""C17 — query attributes reach the application exactly as sent.

Tie: correspondence of Mimic.Params.parseQuery / parseExecute with the real connection: COM_QUERY and
COM_STMT_EXECUTE with 0..n attributes (all value kinds, NULLs, empty / multi-byte / duplicate names), 0..m positional
parameters, capability negotiated or not, SQL texts starting with 0x00-0x02; oracle: the mapping and SQL received by
the application equal what the client attached."""
import asyncio
import os
import random
import struct
import sys

sys.path.insert(0, os.path.join(os.path.dirname(os.path.abspath(__file__)), ".."))
from framework import Check, drive, hexs  # noqa: E402
from lib import BASE, C, Peer, RawSession, mkserver, com_query, com_stmt_execute, pkt, settle  # noqa: E402
from paramgen import gen_param, gen_name, canon_attrs, expected_value  # noqa: E402

SQLS = [b"select 1", b"\x00abc", b"\x01\x01select", b"\x02x", b"", b"select '\xc3\xa9'", b"select ? from t", b"  ", b"\x00\x01\x01\x00"]


async def run_case(chk, rng, lines, impl):
    client_flag = rng.random() < 0.7
    s = RawSession()
    if rng.random() < 0.2:
        # a server configured without CLIENT_QUERY_ATTRIBUTES: a client that sets the flag in its handshake response anyway
        # (as libmysqlclient does) goes by the server's greeting and sends bare SQL, which must arrive untouched
        from mysql_mimic.constants import DEFAULT_SERVER_CAPABILITIES
        from mysql_mimic.types import Capabilities
        srv = mkserver([s], capabilities=DEFAULT_SERVER_CAPABILITIES & ~Capabilities.CLIENT_QUERY_ATTRIBUTES)
        chk.count("server-without-query-attributes")
    else:
        srv = mkserver([s])
    a = Peer(srv)
    await a.login(caps=BASE | (C.CLIENT_QUERY_ATTRIBUTES if client_flag else 0))
    caps = a.caps                                        # what was negotiated: greeting ∧ client flags
    qa = bool(int(caps) & int(C.CLIENT_QUERY_ATTRIBUTES))
    for rep in range(rng.randrange(1, 4)):
        nattr = rng.choice([0, 0, 1, 2, 3, 7, 8, 9, 16, 17])
        distinct = rng.random() < 0.8
        names, attrs = [], []
        for i in range(nattr):
            nm = gen_name(rng)
            if distinct:
                while nm in names:
                    nm = nm + b"%d" % i
            names.append(nm)
            attrs.append(gen_param(rng, name=nm))
        types = {p[3].decode("utf8"): p[0] for p in attrs}
        want_attrs = {}
        for p in attrs:
            want_attrs[p[3].decode("utf8")] = expected_value(p)
        before = len(s.log)
        if rng.random() < 0.5:
            sql = rng.choice(SQLS)
            payload = com_query(sql, caps=caps, attrs=attrs)
            out = await a.cmd(payload, n=30)
            lines.append("par query %d %s" % (1 if qa else 0, hexs(payload[1:])))
            kind = "query"
            want_sql = sql.decode("utf8")
            nparams = 0
            pvals = []
        else:
            nparams = rng.choice([0, 0, 1, 2, 3, 8])
            template = "select " + ", ".join(["?"] * nparams) + " from t" if nparams else rng.choice(["select 1", "do 'x?'"])
            o = await a.cmd(b"\x16" + template.encode())
            sid = struct.unpack_from("<I", o[0][1], 1)[0]
            params = [gen_param(rng, allow_float=False) for _ in range(nparams)]
            pvals = [expected_value(p) for p in params]
            before = len(s.log)
            payload = com_stmt_execute(sid, params, caps=caps, attrs=attrs)
            out = await a.cmd(payload, n=30)
            lines.append("par exec %d %d %s - %s" % (1 if qa else 0, nparams, hexs(template.encode()), hexs(payload[5:])))
            kind = "exec"
            want_sql = None
        got = [l for l in s.log[before:] if l[0] == "hq"]
        chk.case((kind, qa, payload), nontrivial=nattr > 0, sample=dict(kind=kind, qa=qa, attrs=[(p[3].decode(), repr(p[2])[:20]) for p in attrs][:4],
                 received=[(g[1][:30], str(g[2])[:80]) for g in got]) if rng.random() < 0.004 else None)
        chk.count("%s:qa=%s,attrs=%s" % (kind, qa, "0" if nattr == 0 else "1-7" if nattr < 8 else "8+"))
        if len(got) != 1:
            impl.append("err")
            if qa or kind == "exec" or True:
                # a well-formed command must reach the application
                try:
                    want_sql is None or want_sql
                    bad_utf8 = False
                except Exception:  # noqa
                    bad_utf8 = True
                chk.fail("well-formed command did not reach the application exactly once", dict(kind=kind, qa=qa, payload=hexs(payload),
                         reply=[p[:60] for _, p in out][:1]))
            continue
        _, sql_r, attrs_r, _, _ = got[0]
        extra = " cursor=0" if kind == "exec" else ""
        impl.append("sql=%s attrs=%s%s" % (hexs(sql_r.encode("utf8")), canon_attrs(attrs_r, types), extra))
        # oracle
        exp_attrs = want_attrs if qa else {}
        if attrs_r != exp_attrs and not any(isinstance(v, float) for v in exp_attrs.values()):
            chk.fail("attribute mapping received differs from the attributes sent", dict(kind=kind, qa=qa, sent=str(exp_attrs)[:300], received=str(attrs_r)[:300]))
        elif any(isinstance(v, float) for v in exp_attrs.values()):
            if set(attrs_r) != set(exp_attrs) or any((attrs_r[k] != v) for k, v in exp_attrs.items()):
                chk.fail("attribute mapping received differs from the attributes sent", dict(kind=kind, qa=qa, sent=str(exp_attrs)[:300], received=str(attrs_r)[:300]))
        if kind == "query" and sql_r != want_sql:
            chk.fail("SQL text altered by attaching attributes", dict(qa=qa, sent=want_sql, received=sql_r))
        if kind == "exec":
            # independence: same SQL as the attribute-free execute (computed on a fresh connection state: same statement)
            before2 = len(s.log)
            await a.cmd(com_stmt_execute(sid, params, caps=caps, attrs=[]), n=30)
            g2 = [l for l in s.log[before2:] if l[0] == "hq"]
            if len(g2) != 1 or g2[0][1] != sql_r:
                chk.fail("attaching attributes altered the SQL / bound parameters", dict(with_attrs=sql_r, without=[x[1] for x in g2]))
    await a.finish()


CHARSETS = {"latin1": (8, "latin-1", "caf\u00e9 \u00fc"), "utf8mb4": (255, "utf8", "\u043a\u043b\u044e\u0447 \u4e2d"), "cp1251": (51, "cp1251", "\u043a\u043b\u044e\u0447"),
            "gbk": (28, "gbk", "\u4e2d\u6587")}


async def charset_switch(chk, rng, count):
    """the client character set in force when the attributes arrive is the one of the most recent switch (handshake collation,
    then SET NAMES / SET character_set_client, i.e. the session variable), not the one of the handshake: names and string
    values in that set reach the application exactly"""
    for i in range(count):
        first, second = rng.sample(sorted(CHARSETS), 2)
        caps = BASE | C.CLIENT_QUERY_ATTRIBUTES
        s = RawSession()
        srv = mkserver([s])
        a = Peer(srv)
        await a.login(caps=caps, charset=CHARSETS[first][0])
        kind = rng.choice(["query", "exec", "exec-prepared-before"])
        sid = None
        if kind == "exec-prepared-before":
            # the statement is prepared under the FIRST character set; the set in force when the EXECUTE arrives decodes it
            o = await a.cmd(b"\x16select ? from t")
            sid = struct.unpack_from("<I", o[0][1], 1)[0]
        how = rng.choice(["variable", "change-user"])      # (the SET NAMES statement itself is C14 / C15's subject; this session records raw queries)
        if kind == "exec-prepared-before":
            how = "variable"                               # (COM_CHANGE_USER would not drop the statement, but keep this case minimal)
        if how == "variable":
            # the effect of `SET NAMES <second>` (C14 / C15 check that statement itself): the session variable changes
            s.variables.set("character_set_client", second)
        else:
            # COM_CHANGE_USER carries a collation: its character set is in force for everything after it
            from lib import com_change_user
            await a.cmd(com_change_user(b"u2", b"", b"db", charset=CHARSETS[second][0], caps=caps), n=30)
        after = rng.choice([None, None, "reset-connection", "ping", "stmt-reset"])
        if after == "reset-connection":
            await a.cmd(b"\x1f", n=20)            # not an event that changes the client character set
        elif after == "ping":
            await a.cmd(b"\x0e", n=20)
        elif after == "stmt-reset":
            o0 = await a.cmd(b"\x16select 1")
            await a.cmd(b"\x1a" + o0[0][1][1:5], n=20)
        _, codec, text = CHARSETS[second]
        name, value = text, text[::-1]
        attrs = [(253, False, value.encode(codec), name.encode(codec)), (3, False, 7, "n".encode(codec))]
        before = len(s.log)
        want_sql = None
        if kind == "query":
            out = await a.cmd(com_query(b"select 1", caps=caps, attrs=attrs), n=30)
        else:
            if sid is None:
                o = await a.cmd(b"\x16select ? from t")
                sid = struct.unpack_from("<I", o[0][1], 1)[0]
            before = len(s.log)
            pval = text + "!"
            out = await a.cmd(com_stmt_execute(sid, [(253, False, pval.encode(codec), b"")], caps=caps, attrs=attrs), n=30)
            want_sql = "select '%s' from t" % pval
        got = [l for l in s.log[before:] if l[0] == "hq"]
        await a.finish()
        desc = dict(handshake_charset=first, switched_to=second, switched_by=how, then=after, command=kind, attribute_name=name, attribute_value=value)
        chk.count("charset-switch:%s->%s" % (first, second))
        chk.case(("switch", first, second, kind, how, after))
        if len(got) != 1:
            chk.fail("command with attributes in the switched character set did not reach the application", desc, dict(reply=[p[:60] for _, p in out][:1]))
        elif got[0][2] != {name: value, "n": 7}:
            chk.fail("attribute names / values were decoded with another character set than the one in force", desc, dict(received=str(got[0][2])[:200]))
        elif want_sql is not None and got[0][1] != want_sql:
            chk.fail("a string parameter sent along with the attributes was decoded with another character set than the one in force", desc,
                     dict(received=got[0][1], expected=want_sql))


async def after_failed_execution(chk, rng, count):
    """a statement executed again after an execution that failed in the application (or was given long data that the failed
    execution consumed): the second COM_STMT_EXECUTE is self-contained -- its inline parameters and its attributes reach the
    application exactly as sent, whatever the first one left behind"""
    for i in range(count):
        caps = BASE | C.CLIENT_QUERY_ATTRIBUTES
        state = dict(fail=False)

        def result(sess, sql, attrs, state=state):
            if state["fail"]:
                state["fail"] = False
                from mysql_mimic.errors import MysqlError, ErrorCode
                raise rng.choice([RuntimeError("application failure"), MysqlError("no", code=ErrorCode.PARSE_ERROR)])
            return [(1,)], ["a"]
        s = RawSession(result=result)
        srv = mkserver([s])
        a = Peer(srv)
        await a.login(caps=caps)
        nparams = rng.choice([1, 2])
        o = await a.cmd(b"\x16select " + b", ".join([b"?"] * nparams) + b" from t")
        sid = struct.unpack_from("<I", o[0][1], 1)[0]
        long_data = rng.random() < 0.7
        first_inline = [(253, False, b"first%d" % k, b"") for k in range(nparams)]
        skip = []
        if long_data:
            a.t.feed(pkt(0, b"\x18" + struct.pack("<IH", sid, 0) + b"long-first"))      # COM_STMT_SEND_LONG_DATA has no response
            await settle(5)
            skip = [0]
        first_fails = rng.random() < 0.7
        state["fail"] = first_fails
        await a.cmd(com_stmt_execute(sid, first_inline, caps=caps, attrs=[(253, False, b"a1", b"k")], skip=skip), n=30)
        between = rng.choice([None, None, "ping"])
        if between == "ping":
            await a.cmd(b"\x0e", n=20)
        second_inline = [(253, False, b"second%d" % k, b"") for k in range(nparams)]
        attrs = [(253, False, b"req-2", b"request_id"), (253, False, b"alice", b"user")]
        before = len(s.log)
        out = await a.cmd(com_stmt_execute(sid, second_inline, caps=caps, attrs=attrs), n=30)
        got = [l for l in s.log[before:] if l[0] == "hq"]
        await a.finish()
        desc = dict(params=nparams, long_data_before_first=long_data, first_execution_failed=first_fails, between=between)
        chk.count("re-execute after %s" % ("failure" if first_fails else "success"))
        chk.case(("reexec", nparams, long_data, first_fails, between, i))
        want_sql = "select " + ", ".join("'second%d'" % k for k in range(nparams)) + " from t"
        if len(got) != 1:
            chk.fail("a re-executed statement with attributes did not reach the application exactly once", desc, dict(reply=[p[:60] for _, p in out][:1]))
        elif got[0][2] != {"request_id": "req-2", "user": "alice"}:
            chk.fail("attribute mapping received differs from the attributes sent (statement executed again after an earlier execution)", desc,
                     dict(received=str(got[0][2])[:200], sql=got[0][1]))
        elif got[0][1] != want_sql:
            chk.fail("the parameters bound differ from the ones sent inline with the attributes (statement executed again)", desc,
                     dict(received=got[0][1], expected=want_sql))


def main():
    chk = Check("C17", sys.argv[1:])
    chk.rule = ("COM_QUERY / COM_STMT_EXECUTE with 0,1,2,3,7,8,9,16,17 attributes (values over all supported binary types and NULL; "
                "names empty / multi-byte / 300 bytes / duplicate), 0..8 positional parameters, SQL texts incl. ones starting with "
                "0x00-0x02 and empty, capability negotiated or not. non-trivial = at least one attribute")
    chk.assumptions = ["utf8 is the client character set in these runs (C15 covers the others)"]
    chk.tie(["MimicProps.C17"])
    rng = random.Random(chk.seed)
    lines, impl = [], []

    async def go():
        for k in range(500 if not chk.thorough else 60000):
            await run_case(chk, rng, lines, impl)
        await charset_switch(chk, rng, 40 if not chk.thorough else 1500)
        await after_failed_execution(chk, rng, 24 if not chk.thorough else 600)

    asyncio.run(go())
    model = drive(lines)
    chk.compare("parse_com_query / parse_com_stmt_execute vs Mimic.Params", lines, model, impl)
    chk.finish()


if __name__ == "__main__":
    from framework import guarded
    guarded("C17", main)
