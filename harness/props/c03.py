"""C03 — every command gets exactly one complete, well-formed response (lockstep).

Tie: correspondence of the L4 machine (Mimic.Conn, generic in the handler script) + the handler scripts
(Mimic.Script.scriptOf) with the real Connection: random command programs over the whole supported command set, both
CLIENT_DEPRECATE_EOF settings, application outcomes (no result, 0..n rows, failures before / while streaming, awaiting
sources), compared event by event.  Oracle: a strict client-side grammar for each command's response, consecutive
sequence ids from the command's own, and silence afterwards."""
import asyncio
import os
import random
import struct
import sys

sys.path.insert(0, os.path.join(os.path.dirname(os.path.abspath(__file__)), ".."))
from framework import Check, drive, hexs  # noqa: E402
from lib import (decode_text_row, BASE, C, pkt, com_stmt_execute, com_change_user, decode_resultset, parse_coldef, parse_eof, parse_ok, parse_err,
                 settle, Bad, T_LONG)  # noqa: E402
from connharness import Driven, plan_token, rows_token  # noqa: E402


def gen_rows(rng, allow_susp=True, allow_boom=True, big=False):
    n = rng.choice([0, 1, 2, 3, 5]) if not big else rng.choice([255, 256, 257, 600])
    steps = [("row", 100 + i, allow_susp and rng.random() < 0.15) for i in range(n)]
    if allow_boom and rng.random() < 0.2:
        k = rng.randrange(0, len(steps) + 1)
        steps = steps[:k] + [("boom", allow_susp and rng.random() < 0.3)]
    return steps


def gen_plan(rng, big=False):
    fail = rng.choice(["none"] * 6 + ["generic", "mysql"])
    ncols = rng.choice([0, 1, 1, 2, 3, 9])
    return dict(callSusp=rng.random() < 0.25, fail=fail, ncols=ncols if fail == "none" else 1,
                rows=gen_rows(rng, big=big) if (fail == "none" and ncols > 0) else [], sync=rng.random() < 0.4)


def fetch_steps(n, remaining):
    out = []
    for st in remaining[:n] if n < len(remaining) else remaining:
        out.append(st)
        if st[0] == "boom":
            break
    return out[:n] if n < len(out) else out


class Prog:
    """generates one command at a time, tracking prepared statements and cursors like a client would"""

    def __init__(self, rng, drv):
        self.rng, self.d = rng, drv
        self.stmts = {}      # sid -> dict(np, cursor: list | None)
        self.next_sid = 0

    def next(self, big=False):
        rng = self.rng
        dep = self.d.dep
        kinds = ["query", "query", "ping", "ping2", "ping3", "initdb", "prepare", "execute", "execute", "fetch", "fetch", "reset", "close",
                 "longdata", "fieldlist", "unknown", "malformed", "changeuser"]
        k = rng.choice(kinds)
        known = list(self.stmts)
        if k == "query":
            p = gen_plan(rng, big)
            return ("query", b"\x03select 1", p["ncols"], p, "query " + plan_token(p))
        if k in ("ping", "ping2", "ping3"):
            return ("simple", {"ping": b"\x0e", "ping2": b"\x1f", "ping3": b"\x0d"}[k], 0, None, "ping")
        if k == "initdb":
            f = rng.random() < 0.2
            self.d.sess.use_fails = f
            return ("simple", b"\x02somedb", 0, None, "initdb %d" % f)
        if k == "prepare":
            np_ = rng.choice([0, 1, 2, 5])
            sid = self.next_sid
            self.next_sid += 1
            self.stmts[sid] = dict(np=np_, cursor=None)
            return ("prepare", b"\x16select " + b", ".join([b"?"] * np_) + b" from t", 0, None, "prepare %d" % np_)
        if k == "execute":
            use_known = known and rng.random() < 0.85
            sid = rng.choice(known) if use_known else 9999
            cursor = rng.random() < 0.5
            p = gen_plan(rng, big)
            np_ = self.stmts[sid]["np"] if use_known else 0
            payload = com_stmt_execute(sid, [(T_LONG, False, 7, b"")] * np_, caps=self.d.caps, flags=1 if cursor else 0)
            if use_known:
                ok_result = p["fail"] == "none" and p["ncols"] > 0
                self.stmts[sid]["cursor"] = list(p["rows"]) if (cursor and ok_result) else None
                self.stmts[sid]["ncols"] = p["ncols"]
            return ("execute", payload, p["ncols"], p, "execute %d %d %s" % (1 if use_known else 0, 1 if cursor else 0, plan_token(p)))
        if k == "fetch":
            use_known = known and rng.random() < 0.85
            sid = rng.choice(known) if use_known else 9999
            n = rng.choice([0, 1, 2, 3, 10, 2 ** 32 - 1])
            cur = self.stmts[sid]["cursor"] if use_known else None
            has = cur is not None
            rem = cur if has else []
            tok = "fetch %d %d %d %s" % (1 if use_known else 0, 1 if has else 0, n, rows_token(rem))
            ncols = self.stmts[sid].get("ncols", 1) if use_known else 1
            if has:
                used = fetch_steps(n, rem)
                if used and used[-1][0] == "boom":
                    self.stmts[sid]["cursor"] = []
                else:
                    self.stmts[sid]["cursor"] = rem[len(used):]
                    if len(used) < n and not (used and used[-1][0] == "boom"):
                        self.stmts[sid]["cursor"] = []
            return ("fetch", b"\x1c" + struct.pack("<II", sid, n), ncols, None, tok)
        if k == "reset":
            use_known = known and rng.random() < 0.7
            sid = rng.choice(known) if use_known else 9999
            if use_known:
                self.stmts[sid]["cursor"] = None
            return ("simple", b"\x1a" + struct.pack("<I", sid), 0, None, "reset %d" % (1 if use_known else 0))
        if k == "close":
            sid = rng.choice(known) if known and rng.random() < 0.6 else 9999
            self.stmts.pop(sid, None)
            return ("none", b"\x19" + struct.pack("<I", sid), 0, None, "close")
        if k == "longdata":
            sid = rng.choice(known) if known and rng.random() < 0.6 else 9999
            # chunks are cut by byte count: they may end inside a character or be binary; parameter 7 is beyond every
            # statement of this program, so the data never reaches a later execute
            chunk = rng.choice([b"chunk", b"caf\xc3", b"\xa9", b"\xff\xfe\x00", b""])
            return ("none", b"\x18" + struct.pack("<IH", sid, 0 if chunk == b"chunk" else 7) + chunk, 0, None, "longdata")
        if k == "fieldlist":
            p = gen_plan(rng)
            p["rows"] = [("row", i, False) for i in range(rng.choice([0, 1, 3]))]
            p["ncols"] = 6
            p["fieldlist"] = True
            return ("fieldlist", b"\x04t\x00", 0, p, "fieldlist " + plan_token(p))
        if k == "unknown":
            return ("simple", bytes([rng.choice([0x05, 0x0a, 0x63, 0xfe])]) + b"x", 0, None, "unknown")
        if k == "malformed":
            return ("simple", rng.choice([b"\x17\x00", b"\x1c\x01", b"\x1a"]), 0, None, "malformed")
        # change user (accepted: any user without password authenticates with an empty response)
        ok = rng.random() < 0.7
        payload = com_change_user(b"u2" if ok else b"locked", b"" if ok else b"y" * 20, b"db", caps=self.d.caps)
        return ("simple", payload, 0, None, "changeuser %d" % (1 if ok else 0))


def oracle(chk, d, kindtok, cls, dep):
    """strict client-side grammar on the raw packets of the finished command"""
    pk = [p for _, p in d.cur_pkts]
    k = kindtok.split()[0]
    try:
        if k in ("close", "longdata"):
            if pk:
                raise Bad("reply to a no-reply command")
            return
        if not pk:
            raise Bad("no response")
        if pk[0][:1] == b"\xff":
            parse_err(pk[0])
            if len(pk) != 1:
                raise Bad("packets after ERR")
            return
        if k in ("ping", "initdb", "reset", "changeuser", "unknown", "malformed"):
            if len(pk) != 1 or pk[0][:1] != b"\x00":
                raise Bad("expected exactly one OK/ERR")
            parse_ok(pk[0])
        elif k == "prepare":
            np_ = struct.unpack_from("<H", pk[0], 7)[0]
            want = 1 + np_ + (1 if (np_ and not dep) else 0)
            if len(pk) != want:
                raise Bad("prepare-OK block has %d packets, expected %d" % (len(pk), want))
            for p in pk[1:1 + np_]:
                parse_coldef(p)
            if np_ and not dep:
                parse_eof(pk[-1])
        elif k == "fieldlist":
            for p in pk[:-1]:
                parse_coldef(p, field_list=True)
            (parse_ok if dep else parse_eof)(pk[-1])
        elif k == "fetch":
            (parse_ok if dep else parse_eof)(pk[-1]) if pk[-1][:1] != b"\xff" else parse_err(pk[-1])
        else:
            if len(pk) == 1 and pk[0][:1] == b"\x00":
                parse_ok(pk[0])
            elif "execute" == k and " 1 " in kindtok[:14] and kindtok.split()[2] == "1":
                # cursor-opening execute: count, coldefs, terminator with CURSOR_EXISTS
                optmeta = bool(int(d.peer.caps) & int(C.CLIENT_OPTIONAL_RESULTSET_METADATA))
                n = pk[0][1] if optmeta and len(pk[0]) > 1 else pk[0][0]
                if pk[0] != (b"\x01" if optmeta else b"") + bytes([n]):
                    raise Bad("column count packet %r (metadata_follows byte %s)" % (pk[0][:8], "negotiated" if optmeta else "not negotiated"))
                for p in pk[1:1 + n]:
                    parse_coldef(p)
                if len(pk) != n + 2:
                    raise Bad("cursor-open response has %d packets, expected %d" % (len(pk), n + 2))
                (parse_ok if dep else parse_eof)(pk[-1])
            else:
                decode_resultset(pk, d.peer.caps)
    except (Bad, IndexError, struct.error) as e:
        chk.fail("response is not exactly one complete well-formed response", dict(command=kindtok, deprecate_eof=dep,
                 error=str(e), packets=[p[:12].hex() for p in pk][:12]))


async def run_program(chk, rng, lines, impl, big=False):
    dep = rng.random() < 0.5
    d = Driven(dep)
    lines.append("conn new")
    impl.append((await d.start()).replace("open", "OPEN"))
    lines.append("conn login ok 0 0")
    impl.append(await d.login("ok"))
    prog = Prog(rng, d)
    ncmds = rng.randrange(1, 13)
    trace = []
    for _ in range(ncmds):
        cls, payload, ncols, plan, tok = prog.next(big)
        trace.append(tok)
        lines.append("conn cmd %d %s" % (1 if dep else 0, tok))
        impl.append(await d.command(cls if cls != "none" else "simple", payload, ncols, plan))
        if "?" in impl[-1].split(" ")[0]:
            # the strict client-side decoder could not place a packet / a field of it (reserved byte, status word, counters)
            chk.fail("a packet of the response is not well-formed for a standard client", dict(command=tok, deprecate_eof=dep), impl[-1][:200])
        guard = 0
        while d.sess.pending and not d.peer.done() and guard < 2000:
            lines.append("conn resume")
            impl.append(await d.event("resume"))
            guard += 1
        chk.count("cmd:" + tok.split()[0])
        # quiescence + oracle
        await settle(20)
        extra = d.peer.take()
        if extra and not d.peer.done():
            chk.fail("packet sent after the response was complete", dict(command=tok, extra=[p[:10].hex() for _, p in extra]))
        if d.seq_errors:
            chk.fail("sequence ids do not count up from the command's own", dict(command=tok, errors=d.seq_errors[:3]))
            d.seq_errors.clear()
        oracle(chk, d, tok, cls, dep)
        d.cur = None
        if d.peer.done():
            break
    chk.case(("prog", dep, tuple(trace)), nontrivial=len(trace) >= 2, sample=dict(deprecate_eof=dep, program=trace[:6], reports=impl[-3:]) if rng.random() < 0.01 else None)
    await d.finish()


def canon(x):
    # the implementation's coarse phase: every non-closed model phase is "open"
    for ph in ("greeting", "idle", "parked-drain", "parked-future", "OPEN"):
        x = x.replace(" " + ph + " ", " open ")
    return x


def reply_packets(chk, rng, n):
    """byte level: make_ok / make_eof / make_error / make_column_definition_41 against Mimic.Reply, and every column
    definition through the specification decoder (coldef_roundtrip)"""
    from mysql_mimic import packets
    from mysql_mimic.types import Capabilities as Cap, ServerStatus, ColumnType, ColumnDefinition
    from mysql_mimic.charset import CharacterSet
    from mysql_mimic.errors import ErrorCode, get_sqlstate
    lines, impl, inputs = [], [], []
    edge = [0, 1, 250, 251, 252, 255, 256, 65535, 65536, 2 ** 24 - 1, 2 ** 24, 2 ** 32, 2 ** 63, 2 ** 64 - 1]
    codes = list(ErrorCode)
    for _ in range(n):
        k = rng.choice(["ok", "eof", "err", "coldef", "coldef", "coldef-fl"])
        p41 = rng.random() < 0.85
        caps = Cap(0)
        if p41:
            caps |= Cap.CLIENT_PROTOCOL_41
        trans = rng.random() < 0.5
        if trans:
            caps |= Cap.CLIENT_TRANSACTIONS
        if k == "ok":
            a, l = rng.choice(edge), rng.choice(edge)
            st, w, fl = rng.randrange(0, 1 << 15), rng.randrange(0, 1 << 16), rng.choice([0, 0x40, 0x80])
            eof = rng.random() < 0.4
            b = packets.make_ok(caps, ServerStatus(st), eof=eof, affected_rows=a, last_insert_id=l, warnings=w, flags=fl)
            lines.append("rep ok %d %d %d %d %d %d %d" % (p41, trans, eof, a, l, st | fl, w))
            if p41:
                try:
                    from lib import parse_ok, Bad
                    d = parse_ok(b)
                    if (d["affected"], d["last_id"], d["status"], d["warnings"]) != (a, l, st | fl, w) or b[:1] != (b"\xfe" if eof else b"\x00"):
                        chk.fail("OK packet does not decode to the fields that were sent", dict(line=lines[-1]), d)
                except Bad as e:
                    chk.fail("OK packet not decodable by a standard client", dict(line=lines[-1], packet=hexs(b)), str(e))
        elif k == "eof":
            st, w, fl = rng.randrange(0, 1 << 15), rng.randrange(0, 1 << 16), rng.choice([0, 0x40, 0x80])
            b = packets.make_eof(caps, ServerStatus(st), warnings=w, flags=fl)
            lines.append("rep eof %d %d %d" % (p41, w, st | fl))
            if p41:
                try:
                    from lib import parse_eof, Bad
                    d = parse_eof(b)
                    if (d["warnings"], d["status"]) != (w, st | fl):
                        chk.fail("EOF packet does not decode to the fields that were sent", dict(line=lines[-1]), d)
                except Bad as e:
                    chk.fail("EOF packet not decodable by a standard client", dict(line=lines[-1], packet=hexs(b)), str(e))
        elif k == "err":
            code = rng.choice(codes)
            msg = "".join(rng.choice("abc é☃'\\%") for _ in range(rng.randrange(0, 12)))
            b = packets.make_error(caps, CharacterSet.utf8mb4, msg=msg, code=code)
            lines.append("rep err %d %d %s %s" % (p41, int(code), hexs(get_sqlstate(code)), hexs(msg.encode())))
            if p41:
                try:
                    from lib import parse_err, Bad
                    c2, st2, m2 = parse_err(b)
                    if (c2, m2) != (int(code), msg.encode()) or len(st2) != 5:
                        chk.fail("ERR packet does not decode to the code / message that were sent", dict(line=lines[-1]), (c2, st2, m2))
                except Bad as e:
                    chk.fail("ERR packet not decodable by a standard client", dict(line=lines[-1], packet=hexs(b)), str(e))
        else:
            def nm():
                return "".join(rng.choice("abcxyz_é☃ ") for _ in range(rng.choice([0, 1, 3, 8, 250, 251, 300]) if rng.random() < 0.2 else rng.randrange(0, 9)))
            sc, tb, ot, name, on = nm(), nm(), nm(), nm(), nm()
            cs = rng.choice(list(CharacterSet))
            ln, ty = rng.choice([0, 1, 255, 256, 65535, 2 ** 32 - 1]), rng.choice(list(ColumnType))
            fg, dc = rng.randrange(0, 1 << 16), rng.randrange(0, 256)
            fl = k == "coldef-fl"
            df = rng.choice([None, None, "", "x", "NULL", "0", "a" * 300]) if fl else None
            b = packets.make_column_definition_41(CharacterSet.utf8mb4, schema=sc, table=tb, org_table=ot, name=name, org_name=on, character_set=cs,
                                                  column_length=ln, column_type=ty, flags=ColumnDefinition(fg), decimals=dc, is_com_field_list=fl, default=df)
            # the function's own defaulting of empty names: org_table := table, org_name := name
            ot2, on2 = (ot or tb), (on or name)
            dtok = "x" if not fl else ("N" if df is None else hexs(df.encode()) if df != "" else "N")
            lines.append("rep coldef %s %s %s %s %s %d %d %d %d %d %s" % (hexs(sc.encode()), hexs(tb.encode()), hexs(ot2.encode()), hexs(name.encode()),
                                                                       hexs(on2.encode()), int(cs), ln, int(ty), fg, dc, dtok))
            # oracle: a standard client's strict decoder must accept the packet and read the fields back
            try:
                from lib import parse_coldef, Bad
                cd = parse_coldef(b, field_list=fl)
                back = (cd["schema"], cd["table"], cd["org_table"], cd["name"], cd["org_name"], cd["charset"], cd["length"], cd["type"], cd["flags"], cd["decimals"])
                want = (sc.encode(), tb.encode(), ot2.encode(), name.encode(), on2.encode(), int(cs), ln, int(ty), fg, dc)
                if back != want or (fl and (cd["default"] or None) != ((df or "").encode() or None)):
                    chk.fail("column definition does not decode to the fields that were sent", dict(line=lines[-1]), dict(got=repr(back)[:300], default=repr(cd["default"])))
            except Bad as e:
                chk.fail("column definition packet not decodable by a standard client", dict(line=lines[-1], packet=hexs(b)[:400]), str(e))
            b = (b, "roundtrip")
        impl.append(hexs(b) if isinstance(b, bytes) else hexs(b[0]) + " " + b[1])
        inputs.append(lines[-1])
        chk.count("reply:" + k)
        chk.case(("reply", lines[-1]))
    out = drive(lines)
    chk.compare("reply packets (OK / EOF / ERR / column definition) = Mimic.Reply, and decodable by the specification decoder", inputs, out, impl)


async def wide_responses(chk, rng, n):
    """responses with packets around and above the stream's buffer threshold: still one complete response whose
    sequence ids count up from 1 and whose rows arrive in order (text protocol, binary protocol, cursor fetch)"""
    from lib import Peer, RecSession, mkserver, decode_resultset, decode_text_row, decode_binary_row, com_stmt_execute, C as Caps
    from mysql_mimic import ResultColumn, ColumnType
    import struct as _st
    for i in range(n):
        dep = rng.random() < 0.5
        caps = int(BASE) | (int(Caps.CLIENT_DEPRECATE_EOF) if dep else 0)
        if rng.random() < 0.5:
            # a flag the server may or may not support: what counts is what was negotiated (Peer.login masks with the greeting)
            caps |= int(Caps.CLIENT_OPTIONAL_RESULTSET_METADATA)
        widths = [rng.choice([1, 10, 200, 5000, 32700, 32760, 32764, 32768, 33000, 40000, 70000]) for _ in range(rng.randrange(1, 7))]
        rows = [("%d:" % k + "x" * w,) for k, w in enumerate(widths)]
        sess = RecSession(behaviour=lambda se, e, sql, at: (list(rows), [ResultColumn("a", ColumnType.VARCHAR)]))
        srv = mkserver([sess])
        a = Peer(srv)
        await a.login(caps=caps)
        mode = rng.choice(["text", "binary", "fetch"])
        desc = dict(mode=mode, deprecate_eof=dep, widths=widths)
        chk.count("wide:" + mode)
        chk.case(("wide", mode, tuple(widths), dep))
        outs = []
        if mode == "text":
            outs.append((await a.cmd(b"\x03select a from t", n=120), "text"))
        else:
            o = await a.cmd(b"\x16select a from t")
            sid = _st.unpack_from("<I", o[0][1], 1)[0]
            if mode == "binary":
                outs.append((await a.cmd(com_stmt_execute(sid, [], caps=a.caps, flags=0), n=120), "binary"))
            else:
                await a.cmd(com_stmt_execute(sid, [], caps=a.caps, flags=1), n=60)
                outs.append((await a.cmd(b"\x1c" + _st.pack("<II", sid, len(rows) + 1), n=120), "fetch"))
        for out, kind in outs:
            seqs = [q for q, _ in out]
            if seqs != [(k + 1) % 256 for k in range(len(seqs))]:
                chk.fail("sequence ids of a response do not count up from the command's own", desc, seqs[:12])
                continue
            try:
                pk = [p for _, p in out]
                if kind == "fetch":
                    got = [decode_binary_row(p, [253])[0] for p in pk[:-1]]
                else:
                    rs = decode_resultset(pk, a.caps)
                    got = [decode_text_row(r, 1)[0] if kind == "text" else decode_binary_row(r, [253])[0] for r in rs["rows"]]
                got = [g.decode() if isinstance(g, (bytes, bytearray)) else g for g in got]
                if got != [r[0] for r in rows]:
                    chk.fail("rows of a response with large packets arrive changed or out of order", desc, [str(g)[:12] for g in got])
            except Exception as e:  # noqa
                chk.fail("response with large packets is not a well-formed result set", desc, repr(e)[:300])
        await a.finish()


async def after_odd_set_statements(chk, rng):
    """SET statements in unusual spellings (character set names in upper / mixed case, quoted or bare, unknown names, wrong
    types) — whether the server accepts or rejects them is C14 / C15's business; here: each of them and every command after
    them gets exactly one complete response, and the connection stays in step"""
    from lib import Peer, RecSession, mkserver
    from mysql_mimic import ResultColumn, ColumnType
    stmts = ["SET NAMES 'UTF8MB4'", "SET NAMES Latin1", "SET CHARACTER SET 'Utf8'", "SET character_set_results = 'LATIN1'",
             "SET character_set_client = 'LATIN1'", "SET NAMES utf8mb4 COLLATE UTF8MB4_GENERAL_CI", "SET character_set_results = 'nosuch'",
             "SET character_set_results = 5", "SET character_set_results = NULL", "SET NAMES DEFAULT", "SET time_zone = 'Nowhere/City'",
             "SET time_zone = '+25:00'", "SET sql_mode = 'ANSI,NOSUCHMODE'", "SET autocommit = 'maybe'"]
    follow = [(b"\x03SELECT a FROM t", "rs"), (b"\x03SELECT a FROM boom", "err"), (b"\x02db2", "ok"), (b"\x03SELECT 1", "rs"),
              (b"\x16SELECT ? FROM t", "prep"), (b"\x0e", "ok")]
    for st in stmts:
        for dep in (False, True):
            def beh(sess, e, sql, attrs):
                if "boom" in sql:
                    raise RuntimeError("application failure")
                return [(1, "x")], [ResultColumn("a", ColumnType.LONGLONG), ResultColumn("b", ColumnType.VARCHAR)]
            s = RecSession(beh)
            srv = mkserver([s])
            a = Peer(srv)
            caps = BASE | (C.CLIENT_DEPRECATE_EOF if dep else 0)
            await a.login(caps=caps)
            desc = dict(statement=st, deprecate_eof=dep)
            chk.case(("odd-set", st, dep))
            chk.count("after-odd-set")
            out = await a.cmd(b"\x03" + st.encode(), n=40)
            if len(out) != 1 or out[0][0] != 1 or out[0][1][:1] not in (b"\x00", b"\xff"):
                chk.fail("a SET statement is not answered by exactly one OK or ERR", desc, [(q, p[:12].hex()) for q, p in out][:4])
                await a.finish()
                continue
            for payload, kind in follow:
                out = await a.cmd(payload, n=60)
                pk = [p for _, p in out]
                ok = bool(out) and [q for q, _ in out] == [(k + 1) % 256 for k in range(len(out))] and not a.done()
                try:
                    if ok and kind == "rs" and pk[0][:1] != b"\xff":
                        decode_resultset(pk, a.caps)
                    elif ok and kind == "prep" and pk[0][:1] != b"\xff":
                        ok = pk[0][:1] == b"\x00"
                    elif ok:
                        ok = len(pk) == 1 and pk[0][:1] in (b"\x00", b"\xff")
                except Exception as e:  # noqa
                    ok = False
                if not ok:
                    chk.fail("a command after a SET statement in an unusual spelling does not get exactly one complete response",
                             dict(desc, set_answer="OK" if out is None else None, command=payload[:24].decode("latin-1")),
                             dict(packets=[(q, p[:12].hex()) for q, p in out][:4], connection_closed=a.done()))
                    break
            await a.finish()


async def huge_row_then_failure(chk, rng, count):
    """a row whose packet spans two frames (payload ≥ 0xFFFFFF: a full frame, then the rest — or an empty frame) followed by a
    failing row source: the frames already written and the ones still buffered belong to ONE logical packet; the response
    must still be metadata, that complete row, one ERR, and the next command is answered in step"""
    from lib import Peer, RecSession, mkserver, parse_coldef, parse_eof, parse_err, rd_lenenc
    from mysql_mimic import ResultColumn, ColumnType
    M_ = 0xFFFFFF
    for i in range(count):
        L = [M_ - 4, M_ + 20, M_ - 4 + 1, 2 * M_ - 9][i % 4]
        dep = bool(i % 2) if count > 1 else rng.random() < 0.5
        fail = rng.choice(["source", "source", "kill"])

        def beh(sess, e, sql, attrs, L=L):
            async def ag():
                yield ("r" * L,)
                await sess.gate.wait() if fail == "kill" else None
                raise RuntimeError("row source failure")
            return ag(), [ResultColumn("c", ColumnType.VARCHAR)]
        s = RecSession(beh)
        s.gate = asyncio.Event()
        srv = mkserver([s])
        a = Peer(srv)
        caps = BASE | (C.CLIENT_DEPRECATE_EOF if dep else 0)
        await a.login(caps=caps)
        a.take()
        start = len(a.t.out)
        a.t.feed(pkt(0, b"\x03select c from t"))
        await settle(60)
        if fail == "kill":
            from mysql_mimic.constants import KillKind
            await srv.control.kill(a.greeting["cid"], KillKind.QUERY)
            await settle(60)
        raw = bytes(a.t.out[start:])
        a.take()                 # (advance the peer's read position past this response)
        desc = dict(row_bytes=L, row_packet_payload=L + (9 if L >= 1 << 24 else 4), deprecate_eof=dep, ended_by=fail)
        chk.case(("huge-row", L, dep, fail))
        chk.count("huge-row-then-failure")
        # frames → logical packets
        frames, k = [], 0
        while k + 4 <= len(raw):
            ln = int.from_bytes(raw[k:k + 3], "little")
            frames.append((raw[k + 3], raw[k + 4:k + 4 + ln], ln))
            k += 4 + ln
        try:
            if k != len(raw) or any(len(p) != ln for _, p, ln in frames):
                raise Bad("truncated frame at the end of the response")
            if [q for q, _, _ in frames] != [(j + 1) % 256 for j in range(len(frames))]:
                raise Bad("sequence ids %r" % [q for q, _, _ in frames][:8])
            logical, cur = [], b""
            for _, p, ln in frames:
                cur += p
                if ln < M_:
                    logical.append(cur)
                    cur = b""
            if cur:
                raise Bad("a full-size frame is not followed by its continuation")
            want_n = 3 + (0 if dep else 1) + 1
            if len(logical) != want_n:
                raise Bad("%d logical packets, expected %d (count, definition%s, the row, ERR)" % (len(logical), want_n, "" if dep else ", EOF"))
            if logical[0] != b"\x01":
                raise Bad("column count")
            parse_coldef(logical[1])
            if not dep:
                parse_eof(logical[2])
            row = logical[-2]
            n, off = rd_lenenc(row, 0)
            if n != L or len(row) != off + L or row[off:off + 4] != b"rrrr" or row[-1:] != b"r":
                raise Bad("the row packet is not the one length-encoded value of %d bytes (payload %d bytes, announces %d)" % (L, len(row), n))
            if logical[-1][:1] != b"\xff":
                raise Bad("last packet is not ERR")
            parse_err(logical[-1])
        except (Bad, IndexError, struct.error, ValueError) as e:
            chk.fail("a response that fails right after a row spanning several frames is not one well-formed response", desc, str(e)[:300])
            await a.finish()
            continue
        out = await a.cmd(b"\x0e")
        if not (len(out) == 1 and out[0][0] == 1 and out[0][1][:1] == b"\x00"):
            chk.fail("connection not in step after a failed response with a multi-frame row", desc, [(q, p[:8].hex()) for q, p in out][:3])
        await a.finish()


async def interrupted_streams(chk, rng, count, kill_only=False):
    """a response that is cut short while the client is not reading: the transport stops accepting data in the middle of a
    result set that is larger than the write buffer, the statement is ended from outside (KILL QUERY through the control, as
    a KILL statement of another connection does) or its row source fails, the client reads again.  Whatever was written
    must still be ONE well-formed response: metadata, a prefix of the rows, exactly one ERR, consecutive sequence ids; the
    next command is answered in step."""
    from lib import Peer, RecSession, mkserver
    from mysql_mimic import ResultColumn, ColumnType
    from mysql_mimic.constants import KillKind
    for i in range(count):
        nrows = rng.choice([3000, 5000, 9000])
        width = rng.choice([8, 20, 60])
        fail_at = rng.choice([None, None, nrows // 2]) if not kill_only else None
        asyncgen = rng.random() < 0.5

        def beh(sess, e, sql, attrs, nrows=nrows, width=width, fail_at=fail_at, asyncgen=asyncgen):
            cols = [ResultColumn("c", ColumnType.VARCHAR)]
            if asyncgen:
                async def ag():
                    for k in range(nrows):
                        if fail_at is not None and k == fail_at:
                            raise RuntimeError("row source failure")
                        yield ("%06d" % k + "x" * width,)
                return ag(), cols

            def g():
                for k in range(nrows):
                    if fail_at is not None and k == fail_at:
                        raise RuntimeError("row source failure")
                    yield ("%06d" % k + "x" * width,)
            return g(), cols
        s = RecSession(beh)
        srv = mkserver([s])
        a = Peer(srv)
        caps = rng.choice([BASE, BASE | C.CLIENT_DEPRECATE_EOF])
        await a.login(caps=caps)
        binary = rng.random() < 0.4
        if binary:
            await a.cmd(b"\x16select c from t")
        a.take()
        a.t.block()                       # the client stops reading before the command is sent
        kill = fail_at is None or rng.random() < 0.3
        a.t.feed(pkt(0, com_stmt_execute(0, [], caps=caps) if binary else b"\x03select c from t"))
        await settle(rng.choice([30, 80, 200]))
        for _ in range(rng.choice([0, 0, 1, 2, 3])):
            # let the stream advance by some flushes before the kill: the cancellation lands at different awaits
            a.t.unblock()
            await settle(rng.choice([1, 2, 3, 5]))
            a.t.block()
            await settle(rng.choice([1, 3, 10]))
        if kill:
            await srv.control.kill(a.greeting["cid"], KillKind.QUERY)
            await settle(10)
        a.t.unblock()
        for _ in range(400):
            n0 = len(a.t.out)
            await settle(20)
            if len(a.t.out) == n0:
                break
        out = a.take()
        desc = dict(rows=nrows, width=width, source="async generator" if asyncgen else "generator", protocol="binary" if binary else "text",
                    deprecate_eof=bool(int(caps) & int(C.CLIENT_DEPRECATE_EOF)), killed_while_blocked=kill, source_fails_at=fail_at, seed=chk.seed, case=i)
        chk.count("interrupted:" + ("kill" if kill else "source-failure"))
        chk.case(("interrupted", nrows, width, asyncgen, binary, kill, fail_at))
        seqs = [q for q, _ in out]
        if seqs != [(k + 1) % 256 for k in range(len(seqs))]:
            bad = next(k for k in range(len(seqs)) if seqs[k] != (k + 1) % 256)
            chk.fail("sequence ids of an interrupted response are not consecutive", desc, dict(position=bad, got=seqs[max(0, bad - 2):bad + 3]))
            await a.finish()
            continue
        try:
            pk = [p for _, p in out]
            dep = bool(int(a.caps) & int(C.CLIENT_DEPRECATE_EOF))
            if pk and pk[-1][:1] == b"\xff" and len(pk) < 2 + 1 + (0 if dep else 1):
                # ended during the metadata: column count, at most that many column definitions, [EOF], then the one ERR
                parse_err(pk[-1])
                if len(pk) > 1:
                    if pk[0] != b"\x01":
                        raise Bad("column count packet")
                    for q in pk[1:-1][:1]:
                        parse_coldef(q)
                    for q in pk[2:-1]:
                        parse_eof(q)
                await a.finish()
                continue
            rs = decode_resultset(pk, a.caps)
            rows = [decode_text_row(r, 1)[0][:6] for r in rs["rows"]] if not binary else None
            if rows is not None and rows != [b"%06d" % k for k in range(len(rows))]:
                chk.fail("rows of an interrupted response are not a prefix of the result", desc, dict(first_rows=[r.decode() for r in rows[:5]]))
        except (Bad, IndexError, struct.error) as e:
            chk.fail("an interrupted response is not one well-formed response", desc, dict(error=str(e), packets=len(out)))
            await a.finish()
            continue
        pong = await a.cmd(b"\x0e")
        if not (len(pong) == 1 and pong[0][0] == 1 and pong[0][1][:1] == b"\x00"):
            chk.fail("the command after an interrupted response is not answered in step", desc, dict(reply=[(q, p[:6].hex()) for q, p in pong]))
        await a.finish()


def main():
    chk = Check("C03", sys.argv[1:])
    chk.rule = ("random command programs (1-12 commands over QUERY, PING, RESET_CONNECTION, DEBUG, INIT_DB, FIELD_LIST, STMT_PREPARE / "
                "EXECUTE (cursor or not) / FETCH / RESET / CLOSE / SEND_LONG_DATA on known and unknown ids, CHANGE_USER accepted / denied, "
                "unsupported codes, malformed payloads) x CLIENT_DEPRECATE_EOF on/off x application outcomes (no result, 0..9 columns, "
                "0..5 and 255/256/257/600 rows, sync list and awaiting async sources, failure before the first row / at row k / MysqlError). "
                "non-trivial = at least two commands")
    chk.assumptions = ["responses are smaller than the 32 KiB stream buffer (the threshold flush is C12's subject)", "A1-A4 (asyncio) of DESIGN.md"]
    chk.tie(["MimicProps.C03"])
    chk.run_replays(["D10a", "D10b", "D10c"])
    rng = random.Random(chk.seed)
    lines, impl = [], []

    async def go():
        for k in range(400 if not chk.thorough else 10000):
            await run_program(chk, rng, lines, impl)
        for k in range(6 if not chk.thorough else 100):
            await run_program(chk, rng, lines, impl, big=True)
        await wide_responses(chk, rng, 12 if not chk.thorough else 200)
        await huge_row_then_failure(chk, rng, 2 if not chk.thorough else 16)
        await after_odd_set_statements(chk, rng)
        await interrupted_streams(chk, rng, 40 if not chk.thorough else 300)

    asyncio.run(go())
    reply_packets(chk, rng, 400 if not chk.thorough else 6000)
    model = [canon(x) for x in drive(lines)]
    chk.compare("Connection (command phase) vs Mimic.Conn + Mimic.Script", lines, model, [canon(x) for x in impl])
    chk.finish()


if __name__ == "__main__":
    from framework import guarded
    guarded("C03", main)
