"""C05 — clients decode exactly the values the application returned (text and binary).

Tie: Extracted/Results.lean (encoder tables, inference order, bitmap offsets) + byte-for-byte comparison of the
real make_text_resultset_row / make_binary_resultrow / infer_type / _ensure_result_cols with Mimic.Results on typed
random rows; oracle: an independent client decoder applied to the real packets (unit level and end to end through a
real connection, both protocols, explicit columns and bare names, sync/async sources)."""
import asyncio
import os
import random
import struct
import sys
from datetime import date, datetime, timedelta

sys.path.insert(0, os.path.join(os.path.dirname(os.path.abspath(__file__)), ".."))
from framework import Check, drive, hexs  # noqa: E402
from lib import (parse_ok, parse_eof, BASE, C, Peer, RecSession, mkserver, com_stmt_execute, decode_binary_row, decode_text_row,
                 decode_resultset, Bad)  # noqa: E402
from defects import parse_time_text  # noqa: E402

from mysql_mimic import ResultColumn, ColumnType as T  # noqa: E402
from mysql_mimic.packets import make_binary_resultrow, make_text_resultset_row  # noqa: E402
from mysql_mimic.results import infer_type, ensure_result_set  # noqa: E402

INT_TYPES = {T.TINY: 1, T.SHORT: 2, T.YEAR: 2, T.LONG: 4, T.INT24: 4, T.LONGLONG: 8}
STR_TYPES = [T.VARCHAR, T.VAR_STRING, T.STRING, T.BLOB, T.DECIMAL, T.JSON, T.TINY_BLOB, T.LONG_BLOB, T.NEWDECIMAL]
DATE_TYPES = [T.DATE, T.DATETIME, T.TIMESTAMP]
FLOATS = [0.0, 1.5, -0.25, 1e10, 3.0e38, -2.5e-7, 123456.789, float(2 ** 24), 1.0]


def gen_value(rng, t, wild=False):
    """a value for column type t (mostly in range; `wild`: boundary / out-of-range)"""
    if rng.random() < 0.2:
        return None
    if t in INT_TYPES:
        k = INT_TYPES[t]
        lo, hi = -(1 << (8 * k - 1)), (1 << (8 * k - 1)) - 1
        c = [0, 1, -1, 5, -3, lo, hi, lo + 1, hi - 1, rng.randrange(lo, hi + 1)]
        if wild:
            c += [lo - 1, hi + 1, 200 if k == 1 else hi + 7]
        v = rng.choice(c)
        if t == T.TINY and rng.random() < 0.2:
            return rng.choice([True, False])
        return v
    if t == T.FLOAT or t == T.DOUBLE:
        return rng.choice(FLOATS)
    if t in STR_TYPES:
        r = rng.random()
        if r < 0.25:
            return bytes(rng.randrange(256) for _ in range(rng.choice([0, 1, 3, 250, 251, 252, 300])))
        if r < 0.3:
            return rng.randbytes(rng.choice([65535, 65536, 70000]))
        if r < 0.4:
            return rng.randrange(-10 ** 12, 10 ** 12)  # str(int)
        alphabet = "abcXYZ 0'\"\\%_\u00e9\u4e2d\U0001f600\n"
        return "".join(rng.choice(alphabet) for _ in range(rng.choice([0, 1, 2, 5, 17, 251])))
    if t in DATE_TYPES:
        y, mo, d = rng.choice([1, 999, 1970, 2024, 9999]), rng.randrange(1, 13), rng.randrange(1, 29)
        if rng.random() < 0.4:
            return date(y, mo, d)
        h, mi, s = rng.choice([(0, 0, 0), (23, 59, 59), (1, 2, 3)])
        return datetime(y, mo, d, h, mi, s, rng.choice([0, 0, 1, 500000, 999999]))
    if t == T.TIME:
        return rng.choice([timedelta(0), timedelta(seconds=-1), timedelta(hours=25), timedelta(days=-1, hours=-2),
                           timedelta(seconds=1, microseconds=5), timedelta(microseconds=-5), timedelta(days=40, seconds=3),
                           timedelta(days=999999999, hours=23), timedelta(days=-999999999),
                           timedelta(microseconds=rng.randrange(-10 ** 13, 10 ** 13))])
    return None


def val_token(v):
    if v is None:
        return "N"
    if isinstance(v, bool) or isinstance(v, int):
        return "I%d" % int(v)
    if isinstance(v, bytes):
        return "S" + hexs(v)
    if isinstance(v, str):
        return "S" + hexs(v.encode("utf8"))
    if isinstance(v, float):
        return "F%s/%s/%s" % (hexs(struct.pack("<f", v)), hexs(struct.pack("<d", v)), hexs(str(v).encode()))
    if isinstance(v, datetime):
        return "T%d/%d/%d/%d/%d/%d/%d" % (v.year, v.month, v.day, v.hour, v.minute, v.second, v.microsecond)
    if isinstance(v, date):
        return "D%d/%d/%d" % (v.year, v.month, v.day)
    if isinstance(v, timedelta):
        return "U%d" % ((v.days * 86400 + v.seconds) * 1000000 + v.microseconds)
    raise ValueError(v)


def us_of(td):
    return (td.days * 86400 + td.seconds) * 1000000 + td.microseconds


def expect_binary(t, v):
    """what a client must obtain from the binary protocol (in lib.decode_binary_row's vocabulary)"""
    if v is None:
        return None
    if t in INT_TYPES:
        return int(v)
    if t == T.FLOAT:
        return ("f", struct.pack("<f", v))
    if t == T.DOUBLE:
        return ("d", struct.pack("<d", v))
    if t in DATE_TYPES:
        if isinstance(v, datetime):
            return ("dt", v.year, v.month, v.day, v.hour, v.minute, v.second, v.microsecond)
        return ("dt", v.year, v.month, v.day, 0, 0, 0, 0)
    if t == T.TIME:
        return ("td", us_of(v))
    return v if isinstance(v, bytes) else str(v).encode("utf8")


def check_text_cell(t, v, cell):
    if v is None:
        return cell is None
    if cell is None:
        return False
    if t in INT_TYPES:
        return cell == str(int(v)).encode()
    if t == T.TIME:
        return parse_time_text(cell) == us_of(v)
    if t in DATE_TYPES:
        if isinstance(v, datetime):
            want = "%04d-%02d-%02d %02d:%02d:%02d" % (v.year, v.month, v.day, v.hour, v.minute, v.second)
            if v.microsecond:
                want += ".%06d" % v.microsecond
        else:
            want = "%04d-%02d-%02d" % (v.year, v.month, v.day)
        return cell == want.encode()
    if t in (T.FLOAT, T.DOUBLE):
        return float(cell) == v
    return cell == (v if isinstance(v, bytes) else str(v).encode("utf8"))


def unit_rows(chk, rng, n):
    lines, impl = [], []
    all_types = list(INT_TYPES) + [T.FLOAT, T.DOUBLE, T.TIME] + STR_TYPES + DATE_TYPES
    for k in range(n):
        ncols = rng.choice([0, 1, 2, 3, 5, 6, 7, 8, 14, 15, 16, 17, 20])
        wild = rng.random() < 0.15
        types = [rng.choice(all_types) for _ in range(ncols)]
        cols = [ResultColumn("c%d" % i, t) for i, t in enumerate(types)]
        row = [gen_value(rng, t, wild) for t in types]
        if ncols <= 8 and rng.random() < 0.3:  # systematic NULL patterns for small shapes
            mask = rng.randrange(1 << ncols) if ncols else 0
            row = [None if mask >> i & 1 else (v if v is not None else gen_value(rng, types[i]) or 0 if types[i] in INT_TYPES else v) for i, v in enumerate(row)]
        toks = " ".join(val_token(v) for v in row)
        codes = " ".join(str(int(t)) for t in types)
        for proto, fn in (("bin", make_binary_resultrow), ("text", make_text_resultset_row)):
            try:
                pkt = fn(row, cols)
                impl.append(hexs(pkt))
            except Exception:  # noqa
                pkt = None
                impl.append("raise")
            lines.append(("res %s %d %s %s" % (proto, ncols, codes, toks)).replace("  ", " ").strip())
            chk.count("unit:%s" % proto)
            if pkt is None:
                chk.count("unit:raise")
                continue
            # oracle: independent client decoding of the real packet
            try:
                if proto == "bin":
                    got = decode_binary_row(pkt, [int(t) for t in types])
                    want = [expect_binary(t, v) for t, v in zip(types, row)]
                    if got != want:
                        bad = [(i, int(types[i]), repr(row[i])[:60], repr(got[i])[:60]) for i in range(ncols) if got[i] != want[i]]
                        chk.fail("binary protocol: client decodes a different value", dict(types=[int(t) for t in types], row=[repr(v)[:40] for v in row], bad=bad[:3]))
                else:
                    cells = decode_text_row(pkt, ncols)
                    bad = [(i, int(types[i]), repr(row[i])[:60], repr(cells[i])[:60]) for i in range(ncols) if not check_text_cell(types[i], row[i], cells[i])]
                    if bad:
                        chk.fail("text protocol: client decodes a different value", dict(types=[int(t) for t in types], row=[repr(v)[:40] for v in row], bad=bad[:3]))
            except (Bad, IndexError, struct.error, ValueError) as e:
                chk.fail("row packet not decodable by a standard client", dict(proto=proto, types=[int(t) for t in types], row=[repr(v)[:40] for v in row], error=str(e)))
        nulls = tuple(v is None for v in row)
        chk.case(("row", tuple(int(t) for t in types), toks[:200]), nontrivial=ncols > 0,
                 sample=dict(types=[t.name for t in types], row=[repr(v)[:30] for v in row]) if k in (3, 4) else None)
        chk.count("shape:ncols=%d" % ncols)
    return lines, impl


PYVALS = {"bool": True, "datetime": datetime(2020, 1, 2, 3, 4, 5), "str": "s", "bytes": b"b", "int": 7, "float": 1.5,
          "date": date(2020, 1, 2), "timedelta": timedelta(seconds=5)}


async def inference(chk, rng, n):
    lines, impl = [], []
    for name, v in PYVALS.items():
        lines.append("res infer " + name)
        impl.append(str(int(infer_type(v))))
    for k in range(n):
        ncols = rng.randrange(1, 6)
        nrows = rng.randrange(0, 9)
        names = [rng.choice(["a", "b", "a", "c%d" % i]) for i in range(ncols)]
        explicit = [rng.random() < 0.3 for _ in range(ncols)]
        kinds = [rng.choice(list(PYVALS)) for _ in range(ncols)]
        rows = [tuple(None if rng.random() < 0.45 else PYVALS[kinds[c]] for c in range(ncols)) for _ in range(nrows)]
        cols = [ResultColumn(names[i], infer_type(PYVALS[kinds[i]])) if explicit[i] else names[i] for i in range(ncols)]
        pulled = [0]
        mode = rng.choice(["list", "gen", "agen"])

        def g():
            for r in rows:
                pulled[0] += 1
                yield r

        async def ag():
            for r in rows:
                pulled[0] += 1
                yield r

        src = rows if mode == "list" else (g() if mode == "gen" else ag())
        try:
            rs = await ensure_result_set((src, cols))
            consumed = pulled[0] if mode != "list" else None
            out_rows = []
            if hasattr(rs.rows, "__aiter__"):
                async for r in rs.rows:
                    out_rows.append(r)
            else:
                out_rows = list(rs.rows)
            got_names = [c.name for c in rs.columns]
            got_types = [int(c.type) for c in rs.columns]
            err = None
        except Exception as e:  # noqa
            err = repr(e)
            out_rows, got_names, got_types, consumed = None, None, None, None
        todo = [i for i in range(ncols) if not explicit[i]]
        cells = " ".join("N" if v is None else "I" for r in rows for v in r)
        chk.case(("infer", tuple(names), tuple(explicit), cells, mode), nontrivial=bool(todo) and nrows > 0,
                 sample=dict(names=names, explicit=explicit, rows=[[type(v).__name__ for v in r] for r in rows][:4], source=mode) if k < 2 else None)
        chk.count("infer:source=%s" % mode)
        # oracle
        if err is not None:
            chk.fail("ensure_result_set failed", dict(names=names, explicit=explicit, nrows=nrows, error=err))
            continue
        if out_rows != rows:
            chk.fail("type inference dropped, duplicated or reordered rows", dict(names=names, explicit=explicit, source=mode,
                     rows_in=len(rows), rows_out=len(out_rows)))
        if got_names != names:
            chk.fail("column names changed by inference", dict(names=names, got=got_names))
        for i in range(ncols):
            first = next((r[i] for r in rows if r[i] is not None), None)
            want = int(infer_type(first)) if first is not None else int(T.NULL)
            if not explicit[i] and got_types[i] != want:
                chk.fail("inferred column type is not that of the first non-NULL value", dict(col=i, got=got_types[i], want=want))
        # model: rows consumed by the peek loop (only observable for generator sources)
        if consumed is not None and todo:
            lines.append("res peek %s %d %s" % (",".join(map(str, todo)), ncols, cells))
            # remaining todo after peeking = all-NULL bare columns
            rem = [i for i in todo if all(r[i] is None for r in rows)]
            impl.append("%d %s %d" % (consumed, ",".join(map(str, rem)), len(out_rows)))
    return lines, impl


async def end_to_end(chk, rng, n):
    """through a real connection: both protocols, explicit / bare columns, list / generator / async generator"""
    for k in range(n):
        ncols = rng.choice([1, 2, 3, 6, 7, 8, 14, 15, 16])
        types = [rng.choice([T.LONGLONG, T.STRING, T.DOUBLE, T.DATETIME, T.DATE, T.TIME, T.TINY, T.BLOB]) for _ in range(ncols)]
        nrows = rng.choice([0, 1, 2, 5, 40])
        rows = []
        for _ in range(nrows):
            r = []
            for t in types:
                v = gen_value(rng, t)
                if t == T.STRING and not isinstance(v, (str, type(None))):
                    v = "s"
                if t == T.BLOB and not isinstance(v, (bytes, type(None))):
                    v = b"b"
                if t == T.TINY and v is not None:
                    v = bool(v)
                if t == T.DATETIME and isinstance(v, date) and not isinstance(v, datetime):
                    v = datetime(v.year, v.month, v.day)
                if t == T.DATE and isinstance(v, datetime):
                    v = v.date()
                r.append(v)
            rows.append(tuple(r))
        bare = rng.random() < 0.5
        names = [rng.choice(["a", "b", "dup", "x%d" % i]) for i in range(ncols)]
        mode = rng.choice(["list", "gen", "agen"])

        def beh(sess, e, sql, attrs):
            cols = names if bare else [ResultColumn(nm, t) for nm, t in zip(names, types)]
            if mode == "list":
                return rows, cols
            if mode == "gen":
                return (r for r in rows), cols

            async def ag():
                for r in rows:
                    yield r
            return ag(), cols

        s = RecSession(beh)
        srv = mkserver([s])
        a = Peer(srv)
        caps = rng.choice([BASE, BASE | C.CLIENT_DEPRECATE_EOF])
        if rng.random() < 0.3:
            caps = caps | C.CLIENT_OPTIONAL_RESULTSET_METADATA      # only what is negotiated counts (Peer.login masks with the greeting)
        await a.login(caps=caps)
        binary = rng.random() < 0.6
        cursor = binary and rng.random() < 0.4
        if cursor:
            # server-side cursor: execute opens it (metadata only), the rows come in COM_STMT_FETCH batches
            await a.cmd(b"\x16select x from t")
            head = await a.cmd(com_stmt_execute(0, [], caps=caps, flags=1), n=80)
            hp = [p for _, p in head]
            dep = bool(int(caps) & int(C.CLIENT_DEPRECATE_EOF))
            out = None
            if hp and hp[0][:1] != b"\xff" and len(hp) == ncols + 2:
                rowpk = []
                batch = rng.choice([1, 2, 3, 7, 50])
                last = hp[-1]
                for _ in range(nrows + 3):
                    fo = [p for _, p in await a.cmd(b"\x1c" + struct.pack("<II", 0, batch), n=80)]
                    if not fo or fo[-1][:1] == b"\xff":
                        rowpk = None
                        break
                    rowpk += fo[:-1]
                    last = fo[-1]
                    try:
                        st = (parse_ok(last) if dep else parse_eof(last))["status"]
                    except Bad:
                        rowpk = None
                        break
                    if st & 0x80:      # SERVER_STATUS_LAST_ROW_SENT
                        break
                if rowpk is not None:
                    out = [(0, p) for p in (hp[:-1] if dep else hp) + rowpk + [last]]
            if out is None:
                out = head
        elif binary:
            await a.cmd(b"\x16select x from t")
            out = await a.cmd(com_stmt_execute(0, [], caps=caps), n=80)
        else:
            out = await a.cmd(b"\x03select x from t", n=80)
        await a.finish()
        if cursor:
            chk.count("e2e:cursor")
        chk.case(("e2e", tuple(int(t) for t in types), nrows, bare, mode, binary), nontrivial=nrows > 0,
                 sample=dict(types=[t.name for t in types], rows=nrows, bare_names=bare, source=mode, binary=binary) if k < 2 else None)
        chk.count("e2e:%s,%s" % ("binary" if binary else "text", "bare" if bare else "explicit"))
        try:
            rs = decode_resultset([p for _, p in out], a.caps)
        except Bad as e:
            chk.fail("result set not decodable", dict(types=[int(t) for t in types], rows=nrows, bare=bare, source=mode, binary=binary, error=str(e)))
            continue
        if rs["term"][0] == "ERR":
            chk.fail("result set ended in ERR", dict(types=[int(t) for t in types], rows=[repr(r)[:80] for r in rows[:3]], bare=bare, error=rs["term"][1][2][:120]))
            continue
        if [c["name"].decode() for c in rs["cols"]] != names or len(rs["rows"]) != nrows:
            chk.fail("column names / row count differ", dict(names=names, got=[c["name"] for c in rs["cols"]], rows=nrows, got_rows=len(rs["rows"])))
            continue
        ctypes = [c["type"] for c in rs["cols"]]
        for r, p in zip(rows, rs["rows"]):
            try:
                if binary:
                    got = decode_binary_row(p, ctypes)
                    want = [expect_binary(T(ct), v) for ct, v in zip(ctypes, r)]
                    ok = got == want
                else:
                    cells = decode_text_row(p, ncols)
                    ok = all(check_text_cell(T(ct), v, c) for ct, v, c in zip(ctypes, r, cells))
            except (Bad, IndexError, struct.error, ValueError) as e:
                ok = False
            if not ok:
                chk.fail("client decodes a different row", dict(binary=binary, bare=bare, column_types=ctypes, row=[repr(v)[:40] for v in r]))
                break


SPEC_TYPE_CODES = {
    "DECIMAL": 0, "TINY": 1, "SHORT": 2, "LONG": 3, "FLOAT": 4, "DOUBLE": 5, "NULL": 6, "TIMESTAMP": 7, "LONGLONG": 8, "INT24": 9, "DATE": 10,
    "TIME": 11, "DATETIME": 12, "YEAR": 13, "NEWDATE": 14, "VARCHAR": 15, "BIT": 16, "TIMESTAMP2": 17, "DATETIME2": 18, "TIME2": 19,
    "TYPED_ARRAY": 20, "INVALID": 243, "BOOL": 244, "JSON": 245, "NEWDECIMAL": 246, "ENUM": 247, "SET": 248, "TINY_BLOB": 249,
    "MEDIUM_BLOB": 250, "LONG_BLOB": 251, "BLOB": 252, "VAR_STRING": 253, "STRING": 254, "GEOMETRY": 255,
}


async def type_codes(chk):
    """the column definition of a column declared with ColumnType.X announces the protocol's code for X (reference table
    from the MySQL protocol documentation, not from the code under test)"""
    from lib import Peer, RecSession, mkserver, decode_resultset
    from mysql_mimic import ResultColumn
    from mysql_mimic.types import ColumnType as CT
    for name, code in SPEC_TYPE_CODES.items():
        m = getattr(CT, name, None)
        if m is None or int(m) != code or m.name != name:
            chk.fail("ColumnType member does not carry the protocol's code", dict(member=name), dict(code=None if m is None else int(m), canonical_name=getattr(m, "name", None), protocol=code))
    members = [m for m in CT]
    sess = RecSession(behaviour=lambda se, e, sql, at: ([], [ResultColumn(m.name, m) for m in members]))
    srv = mkserver([sess])
    a = Peer(srv)
    await a.login()
    out = await a.cmd(b"\x03select a from t", n=80)
    try:
        rs = decode_resultset([p for _, p in out], a.caps)
        for m, cd in zip(members, rs["cols"]):
            chk.case(("type-code", m.name))
            want = SPEC_TYPE_CODES.get(m.name)
            if want is None:
                chk.fail("ColumnType member without a protocol code in the reference table", dict(member=m.name), None)
            elif cd["type"] != want:
                chk.fail("column definition announces the wrong protocol type code", dict(column_type=m.name), dict(announced=cd["type"], protocol=want))
    except Exception as e:  # noqa
        chk.fail("result set with one column per ColumnType member is not decodable", dict(members=len(members)), repr(e)[:300])
    await a.finish()


async def reused_columns(chk, rng, n):
    """an application that declares its columns once (the same ResultColumn objects for every query) and is asked by clients
    with different results character sets, or by one client that changes it: every client decodes the declared names and
    the returned cells, whatever was sent to whom before"""
    from lib import Peer, RecSession, mkserver, decode_resultset, decode_text_row, decode_binary_row, com_stmt_execute
    from mysql_mimic import ResultColumn, ColumnType
    names = ["größe", "café", "Straße", "plain", "größe"]        # encodable in every results set used below
    for i in range(n):
        cols = [ResultColumn(nm, ColumnType.VARCHAR) for nm in rng.sample(names, rng.randrange(1, 5))]
        rows = [tuple("v%d_%d-é" % (r, c) for c in range(len(cols))) for r in range(rng.randrange(0, 4))]
        sessions = [RecSession(behaviour=lambda se, e, sql, at: (list(rows), cols)) for _ in range(3)]       # shared column objects
        srv = mkserver(sessions)
        charsets = [rng.choice(["utf8mb4", "latin1", "cp1250", "utf8mb4", "latin2"]) for _ in range(rng.randrange(2, 5))]
        peers = []
        for k in range(rng.choice([1, 2, 3])):
            a = Peer(srv)
            await a.login(caps=rng.choice([BASE, BASE | C.CLIENT_DEPRECATE_EOF]))
            peers.append(a)
        desc = dict(shared_columns=[c.name for c in cols], rows=len(rows), charset_sequence=charsets, connections=len(peers), seed=chk.seed, case=i)
        chk.case(("reused-cols", tuple(c.name for c in cols), tuple(charsets), len(peers)))
        chk.count("reused-columns")
        pycodec = {"utf8mb4": "utf-8", "latin1": "cp1252", "cp1250": "cp1250", "latin2": "iso8859_2"}
        prepared = {}
        for step, cs in enumerate(charsets):
            a = peers[step % len(peers)]
            o = await a.cmd(b"\x03SET NAMES " + cs.encode())
            if not o or o[0][1][:1] != b"\x00":
                chk.fail("SET NAMES refused", dict(desc, charset=cs))
                break
            binary = rng.random() < 0.5
            if binary:
                po = await a.cmd(b"\x16select a from t")
                sid = struct.unpack_from("<I", po[0][1], 1)[0]
                out = await a.cmd(com_stmt_execute(sid, [], caps=int(BASE)), n=80)
            else:
                out = await a.cmd(b"\x03select a from t", n=80)
            try:
                rs = decode_resultset([p for _, p in out], a.caps)
                got_names = [cd["name"].decode(pycodec[cs]) for cd in rs["cols"]]
                if got_names != [c.name for c in cols]:
                    chk.fail("a client decodes other column names than the application declared", dict(desc, step=step, charset=cs, binary=binary),
                             dict(decoded=got_names, declared=[c.name for c in cols]))
                    break
                for r, want in zip(rs["rows"], rows):
                    cells = decode_binary_row(r, [253] * len(cols)) if binary else decode_text_row(r, len(cols))
                    cells = [x.decode("utf-8") if isinstance(x, (bytes, bytearray)) else x for x in cells]
                    if tuple(cells) != want:
                        chk.fail("a client decodes other cells than the application returned", dict(desc, step=step, charset=cs, binary=binary), dict(decoded=cells, returned=want))
                        break
            except Exception as e:  # noqa
                chk.fail("result set not decodable in the client's results character set", dict(desc, step=step, charset=cs, binary=binary), repr(e)[:200])
                break
        for a in peers:
            await a.finish()


def main():
    chk = Check("C05", sys.argv[1:])
    chk.rule = ("typed random rows (0..20 columns incl. 6/7/8/14/15/16, NULL patterns, per-type boundaries, strings of "
                "0/250/251/65535/65536 bytes, multi-byte text, negative / >=24h durations) through the real row builders vs the "
                "model byte-for-byte; inference on random NULL layouts with duplicate names and list/generator/async sources; "
                "end-to-end result sets through a real connection in both protocols. non-trivial = at least one column/row")
    chk.assumptions = ["struct float packing, str(float) and Python codecs are opaque (their bytes are compared, not interpreted)"]
    chk.extra["table_lemmas"] = ["bitmap_offsets", "infer_type_order", "encoder_tables"]
    chk.tie(["MimicProps.C05"])
    chk.run_replays(["D5a", "D5b", "D5c"])
    rng = random.Random(chk.seed)
    T_ = chk.thorough
    lines, impl = unit_rows(chk, rng, 1500 if not T_ else 25000)

    async def go():
        l, i = await inference(chk, rng, 600 if not T_ else 10000)
        lines.extend(l)
        impl.extend(i)
        await end_to_end(chk, rng, 150 if not T_ else 2500)
        await type_codes(chk)
        await reused_columns(chk, rng, 12 if not T_ else 400)

    asyncio.run(go())
    model = drive(lines)
    chk.compare("row builders / inference vs Mimic.Results", lines, model, impl)
    chk.finish()


if __name__ == "__main__":
    from framework import guarded
    guarded("C05", main)
