"""C18 — connection ids are unique among live connections and address the right one.

Tie: Extracted/Control.lean (class constants) + correspondence of the Lean `Ctl` model with the real
`LocalControl` on random arrival/departure histories (real N=65536 and small N via subclass attributes),
plus the id consistency through a real server (greeting thread id = CONNECTION_ID() = KILL key, ERR 1040)."""
import asyncio
import os
import random
import struct
import sys

sys.path.insert(0, os.path.join(os.path.dirname(os.path.abspath(__file__)), ".."))
from framework import Check, drive  # noqa: E402
from lib import (BASE, Peer, RecSession, mkserver, pkt, decode_resultset, decode_text_row, parse_err, settle)  # noqa: E402

from mysql_mimic.control import LocalControl, TooManyConnections  # noqa: E402
from mysql_mimic.constants import KillKind  # noqa: E402


class Stub:
    def __init__(self):
        self.killed = []

    def kill(self, kind):
        self.killed.append(kind)


def small_control(bits_n: int, sid):
    cls = type("SmallControl", (LocalControl,), {"_MAX_CONNECTION_SEQ": bits_n})
    return cls(server_id=sid)


def history(chk: Check, rng: random.Random, ctl: LocalControl, n: int, header: str, nops: int, max_live: int, tag: str):
    """Random add/remove history against the real object; returns (lines, impl_out)."""
    lines = [header]
    impl = ["ok"]
    live = []
    loop = asyncio.new_event_loop()
    for _ in range(nops):
        r = rng.random()
        if live and (len(live) >= max_live or r < 0.35):
            # remove: mostly a live id, sometimes an unknown one, sometimes the oldest (long-lived survivors stay)
            if rng.random() < 0.1:
                cid = rng.randrange(0, 1 << 32)
            else:
                cid = live.pop(rng.randrange(len(live)) if rng.random() < 0.8 else len(live) - 1)
            loop.run_until_complete(ctl.remove(cid))
            lines.append(f"ctl rm {cid}")
            impl.append("ok")
            chk.count(tag + ":rm")
        elif r < 0.40:
            cid = rng.choice(live) if live and rng.random() < 0.5 else rng.randrange(0, 1 << 32)
            st = Stub()
            target = ctl._connections.get(cid)
            loop.run_until_complete(ctl.kill(cid, KillKind.QUERY))
            lines.append(f"ctl has {cid}")
            impl.append("1" if target is not None else "0")
            if target is not None and target.killed != [KillKind.QUERY]:
                chk.fail("kill reached wrong object", dict(cid=cid))
            if target is not None:
                target.killed.clear()
            chk.count(tag + ":kill")
        else:
            try:
                cid = loop.run_until_complete(ctl.add(Stub()))
                if cid in live:
                    chk.fail("duplicate id among live connections", dict(cid=cid, tag=tag, history=lines[-400:]))
                if cid >> 16 != (ctl.server_id % 65536) or cid >= 1 << 32:
                    if n == 65536:
                        chk.fail("id prefix is not the configured server id", dict(cid=cid, server_id=ctl.server_id))
                live.append(cid)
                impl.append(str(cid))
                chk.count(tag + ":add")
            except TooManyConnections:
                impl.append("full")
                if len(live) < n:
                    chk.fail("refused although registry not full", dict(live=len(live), n=n, history=lines[-400:]))
                chk.count(tag + ":full")
            lines.append("ctl add")
    lines.append("ctl len")
    impl.append(str(len(ctl._connections)))
    loop.close()
    return lines, impl


async def through_server(chk: Check, rng: random.Random):
    """greeting thread id == CONNECTION_ID() == key accepted by KILL; ERR 1040 when full and recovery."""
    sid = rng.choice([0, 1, 7, 65535, 70000])
    ctl = small_control(3, sid)
    sessions = [RecSession() for _ in range(8)]
    srv = mkserver(sessions, control=ctl)
    peers = []
    for i in range(3):
        p = Peer(srv)
        await p.login()
        peers.append(p)
        out = await p.cmd(b"\x03SELECT CONNECTION_ID()")
        rs = decode_resultset([x for _, x in out], p.caps)
        got = int(decode_text_row(rs["rows"][0], 1)[0])
        chk.case(("cid", sid, i), sample=dict(server_id=sid, greeting_id=p.greeting["cid"], connection_id_fn=got))
        if got != p.greeting["cid"] or got not in ctl._connections or ctl._connections[got].connection_id != got:
            chk.fail("greeting id / CONNECTION_ID() / registry key differ", dict(greeting=p.greeting["cid"], fn=got))
        if (got >> 16) != sid % 65536:
            chk.fail("id prefix is not the configured server id", dict(cid=got, server_id=sid))
    # full: 4th is refused with 1040 and nothing else
    p4 = Peer(srv)
    await settle()
    out = p4.take()
    ok1040 = len(out) == 1 and out[0][1][:1] == b"\xff" and parse_err(out[0][1], proto41=False)[0] == 1040
    chk.case(("full", sid), sample=dict(full_reply=[o[1][:12].hex() for o in out]))
    if not ok1040:
        chk.fail("full registry not answered with ERR 1040", dict(out=[o[1].hex() for o in out]))
    await p4.finish()
    # KILL through another connection addresses exactly that connection
    victim = peers[1]
    out = await peers[0].cmd(b"\x03KILL %d" % victim.greeting["cid"])
    await settle()
    if not victim.done() or peers[2].done() or peers[0].done():
        chk.fail("KILL <id> did not terminate exactly the addressed connection",
                 dict(victim_done=victim.done(), other_done=peers[2].done()))
    # service resumes
    p5 = Peer(srv)
    r = await p5.login()
    if not (r and r[0][1][:1] == b"\x00"):
        chk.fail("service did not resume after a connection ended", dict(reply=[o[1].hex() for o in r]))
    if len({q.greeting["cid"] for q in (peers[0], peers[2], p5)}) != 3:
        chk.fail("duplicate id among live connections", dict(ids=[q.greeting["cid"] for q in (peers[0], peers[2], p5)]))
    for q in peers + [p5]:
        await q.finish()


class GatedSession(RecSession):
    """a session whose close() can be made slow (user code of arbitrary duration)"""
    gate = None

    async def close(self):
        if self.gate is not None:
            await self.gate.wait()
        await super().close()


async def server_history(chk: Check, rng: random.Random, sid: int, n: int, nev: int):
    """Arrivals / departures / refusals through the real MysqlServer._client_connected_cb with a small sequence
    space; after every event the registry must equal the set of live connections (model: arrival = add,
    refused arrival = no change, departure = remove of that connection's id)."""
    ctl = small_control(n, sid)
    srv = mkserver((GatedSession() for _ in range(10 ** 6)), control=ctl)
    lines, impl, live = [f"ctl newn {n} 16 {sid}"], ["ok"], []
    closing = []      # killed connections parked in a slow session.close(): still live, still registered
    for _ in range(nev):
        x = rng.random()
        if closing and x < 0.2:
            p, sess = closing.pop(0)
            sess.gate.set()
            await settle(10)
            live.remove(p)
            await p.finish()
            lines.append(f"ctl rm {p.greeting['cid']}")
            impl.append("ok")
            chk.count("srv:slow-close-finished")
        elif live and x < 0.35 and len(closing) < len(live):
            p = rng.choice([q for q in live if all(q is not c[0] for c in closing)])
            conn = ctl._connections.get(p.greeting["cid"])
            if conn is None:
                chk.fail("a live connection is not registered under its id", dict(id=p.greeting["cid"], history=lines[-60:]))
                break
            conn.session.gate = asyncio.Event()
            await ctl.kill(p.greeting["cid"])
            await settle(10)
            closing.append((p, conn.session))
            lines.append("ctl live")     # no registry change: the connection is still there until its session has closed
            impl.append(" ".join(map(str, sorted(ctl._connections))))
            chk.count("srv:kill-slow-close")
        elif [q for q in live if all(q is not c[0] for c in closing)] and x < 0.55:
            p = rng.choice([q for q in live if all(q is not c[0] for c in closing)])
            live.remove(p)
            how = rng.choice(["quit", "eof", "reset"])
            if how == "quit":
                await p.cmd(b"\x01")
            elif how == "reset":
                p.t.reset_by_peer()         # the connection is lost with an error (TCP RST), not closed in an orderly way
                await settle(10)
            await p.finish()
            await settle(10)
            lines.append(f"ctl rm {p.greeting['cid']}")
            impl.append("ok")
            chk.count("srv:depart-" + how)
        elif False:
            p = live.pop(rng.randrange(len(live)))
            if rng.random() < 0.5:
                await p.cmd(b"\x01")
            await p.finish()
            await settle(10)
            lines.append(f"ctl rm {p.greeting['cid']}")
            impl.append("ok")
            chk.count("srv:depart")
        else:
            p = Peer(srv)
            g = await p.greet()
            lines.append("ctl add")
            if g and g[0][1][:1] == b"\x0a":
                await p.send(pkt(1, __import__("lib").hs_response("u")))
                p.take()
                live.append(p)
                impl.append(str(p.greeting["cid"]))
                chk.count("srv:admit")
            else:
                code = parse_err(g[0][1], proto41=False)[0] if g and g[0][1][:1] == b"\xff" else None
                impl.append("full" if code == 1040 else "refused-%s" % code)
                await p.finish()
                await settle(10)
                chk.count("srv:refuse")
        lines.append("ctl live")
        reg = sorted(ctl._connections)
        impl.append(" ".join(map(str, reg)))
        want = sorted(q.greeting["cid"] for q in live)
        if reg != want:
            chk.fail("registry differs from the set of live connections", dict(server_id=sid, n=n, registry=reg, live=want, history=lines[-60:]))
            break
        if len(set(want)) != len(want):
            chk.fail("duplicate id among live connections", dict(ids=want, history=lines[-60:]))
            break
    # KILL addresses the right one: kill the oldest survivor through the newest
    for p, sess in closing:
        sess.gate.set()
    await settle(10)
    for p, sess in closing:
        live.remove(p)
        await p.finish()
    if len(live) >= 2:
        victim, killer = live[0], live[-1]
        await killer.cmd(b"\x03KILL %d" % victim.greeting["cid"])
        await settle()
        if not victim.done() or any(q.done() for q in live[1:]):
            chk.fail("KILL <id> did not terminate exactly the addressed connection", dict(history=lines[-60:], victim=victim.greeting["cid"]))
    for q in live:
        await q.finish()
    chk.case(("srv", sid, n, tuple(lines)), nontrivial="full" in impl, sample=dict(server_id=sid, n=n, events=lines[1:9], impl=impl[1:9]) if rng.random() < 0.2 else None)
    return lines, impl


def main():
    chk = Check("C18", sys.argv[1:])
    chk.rule = ("random add/remove/kill-lookup histories on the real LocalControl (real N=65536 with >65536 arrivals and "
                "long-lived survivors; small N in {1,2,3,8,64} incl. completely full registries) compared op-by-op with the "
                "Lean model; a case is one history; non-trivial = contains at least one wrap-around or one full refusal")
    chk.assumptions = ["dict.pop / dict membership behave as list erase / membership in the model",
                       "seq() wraps modulo its size (utils.seq; compared on every add)"]
    chk.tie(["MimicProps.C18"])
    chk.run_replays(["D18"])
    rng = random.Random(chk.seed)
    all_lines, all_impl, idx = [], [], []
    # real-size registries
    for k in range(2 if not chk.thorough else 6):
        sid = rng.choice([0, 1, 255, 65535, 65536 + 9, 123456])
        ctl = LocalControl(server_id=sid)
        nops = 160_000 if k == 0 else rng.choice([20_000, 90_000, 200_000])
        lines, impl = history(chk, rng, ctl, 65536, f"ctl new {sid}", nops, rng.choice([5, 60, 250]), "N65536")
        wraps = sum(1 for l in lines if l == "ctl add") // 65536
        chk.case(("real", sid, nops, k), nontrivial=wraps >= 1, sample=dict(server_id=sid, ops=nops, wraps=wraps, first=lines[:6]))
        all_lines += lines
        all_impl += impl
    # small registries: full + many wraps
    for k in range(300 if not chk.thorough else 5000):
        n = rng.choice([1, 2, 3, 8, 64])
        sid = rng.choice([0, 1, 65535, 70000])
        ctl = small_control(n, sid)
        nops = rng.randrange(5, 40 * n + 40)
        lines, impl = history(chk, rng, ctl, n, f"ctl newn {n} 16 {sid}", nops, n + 2, f"N{n}")
        chk.case(("small", n, sid, tuple(lines)), nontrivial=("full" in impl) or impl.count("ok") > n,
                 sample=dict(n=n, server_id=sid, ops=lines[:12], impl=impl[:12]) if k < 2 else None)
        all_lines += lines
        all_impl += impl
    for k in range(24 if not chk.thorough else 400):
        sid = [0, 1, 65535, 70000][k % 4]
        lines, impl = asyncio.run(server_history(chk, rng, sid, rng.choice([1, 2, 3, 5]), rng.randrange(6, 40)))
        all_lines += lines
        all_impl += impl
    model = drive(all_lines)
    chk.compare("LocalControl add/remove/kill-lookup vs Mimic.Control", all_lines, model, all_impl)
    for _ in range(3 if not chk.thorough else 20):
        asyncio.run(through_server(chk, rng))
    chk.finish()


if __name__ == "__main__":
    from framework import guarded
    guarded("C18", main)
