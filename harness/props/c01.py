"""C01 — no command is served on a connection that has not authenticated.

Tie: Mimic.Auth.authenticate (packets / outcome of the exchange) and Mimic.Conn (what a failed exchange does to the
connection) vs the real server: random identity-provider configurations x users x handshake responses (right, wrong,
garbage, absent credentials, every announced client plugin, with / without switch round trip, truncated at every byte
offset) x follow-up commands (QUERY, PING, INIT_DB, STMT_PREPARE, COM_CHANGE_USER right / wrong / raising).
Oracle: without an auth OK the session receives no call at all (no init, no query), every later server packet is
ERR, the transport is closed; after a failed COM_CHANGE_USER nothing more is served and the session is closed once;
whenever a query is served, session.username is the identity of the last successful exchange."""
import asyncio
import os
import random
import struct
import sys

sys.path.insert(0, os.path.join(os.path.dirname(os.path.abspath(__file__)), ".."))
from framework import Check, drive, hexs  # noqa: E402
from lib import BASE, C, Peer, RawSession, mkserver, pkt, hs_response, com_change_user, scramble, settle  # noqa: E402
import c02  # noqa: E402
from c02 import (FakeSystemRandom, IDP, make_config, reply_for, native_resp, classify, STRATS, login_default)  # noqa: E402
import mysql_mimic.utils as mm_utils  # noqa: E402

FOLLOW = [b"\x03select 1", b"\x0e", b"\x02otherdb", b"\x16select ?", b"\x1f"]


class LogSession(RawSession):
    async def init(self, connection):
        self.log.append(("init", self.username))
        await super(RawSession, self).init(connection) if False else None
        self._connection = connection

    async def close(self):
        self.log.append(("close",))
        self._connection = None

    async def reset(self):
        self.log.append(("reset", self.username))
        await super().reset()

    async def use(self, database):
        self.log.append(("use", database, self.username))
        self.database = database


async def exchange(a, rng, strategy, user_key, meta, first_payload, seq0):
    await a.send(pkt(seq0, first_payload))
    outs, replies = [], []
    for _ in range(6):
        got = a.take()
        if not got:
            break
        stop = False
        for q, p in got:
            k = classify(p)
            outs.append(k)
            if k.startswith("switch:") or k.startswith("more:"):
                if k.startswith("switch:"):
                    j = p.index(b"\0", 1)
                    pn, data = p[1:j].decode(), p[j + 1:]
                else:
                    pn, data = None, p[1:]
                r = reply_for(rng, strategy, pn, data, user_key, meta)
                replies.append((pn, data, r))
                await a.send(pkt(q + 1, r))
            else:
                stop = True
        if stop:
            break
    return outs, replies


async def follow_up(chk, a, s, rng, authed_as, what):
    """after an exchange: send commands; returns list of reply classifications"""
    reps = []
    for payload in rng.sample(FOLLOW, rng.randrange(1, 4)):
        if a.t.closed:
            break
        before = len(s.log)
        try:
            out = await a.cmd(payload, n=25)
        except Exception:  # noqa
            out = []
        reps.append((payload[:1].hex(), [p[:1].hex() for _, p in out]))
        for l in s.log[before:]:
            if l[0] == "hq" and l[3] != authed_as:
                chk.fail("a query was served under a user name that did not pass authentication",
                         dict(what, session_username=l[3], authenticated_as=authed_as))
    return reps


async def run_case(chk, rng, lines, impl, focus=None):
    plugins, users, cfg_lines, meta = make_config(rng, focus)
    FakeSystemRandom.draws = []
    s = LogSession()
    srv = mkserver([s], identity_provider=IDP(plugins, users))
    a = Peer(srv)
    await a.greet()
    if not a.greeting:
        await a.finish()
        return
    greet_data = a.greeting["auth_data"][: a.greeting["auth_len"]]
    default_name = plugins[0].name
    default_client = plugins[0].client_plugin_name
    user_key = rng.choice(list(users) + ["mallory", "mallory"])
    strategy = rng.choice(STRATS)
    announce = rng.choice([default_client or "", "mysql_native_password", "mysql_clear_password", "custom2_client", "bogus_plugin", ""])
    if focus == "multi":
        # an account of the two-round plugin, reached through an auth switch; answers the plugin must refuse but another
        # plugin's rules would accept (empty), right ones, wrong ones
        user_key = "cust"
        strategy = rng.choice(["empty", "empty", "right", "wrong", "junk", "wrong2", "trunc"])
        announce = rng.choice(["mysql_native_password", "mysql_clear_password", "bogus_plugin", ""])
    if announce == "mysql_native_password":
        resp = native_resp(rng, strategy, greet_data.rstrip(b"\0"), meta)
    elif announce == "mysql_clear_password":
        resp = reply_for(rng, strategy, "mysql_clear_password", b"", user_key, meta)
    else:
        resp = rng.choice([b"", b"a", rng.randbytes(20)])
    what = dict(plugins=meta["kinds"], user=user_key, announce=announce, strategy=strategy)
    outs, replies = await exchange(a, rng, strategy, user_key, meta, hs_response(user_key, auth=resp, caps=BASE, plugin=announce), 1)
    draws = list(FakeSystemRandom.draws)
    lines.extend(cfg_lines)
    impl.extend(["ok"] * len(cfg_lines))
    lines.append("auth go 1 %s %s %s none x %s %s" % (hexs(user_key.encode()), hexs(resp), hexs(announce.encode()),
                 ",".join(map(str, draws + [0])), ";".join(hexs(r) for _, _, r in replies) or "none"))
    final = outs[-1] if outs else "none"
    res = ("auth:" + hexs((s.username or "").encode())) if final == "ok" else "failed" if final in ("errU", "errD") else \
        "waiting" if final.startswith(("switch", "more")) else "raised"
    core = [o for o in outs if not o.startswith("err") or o in ("errU", "errD")]
    impl.append("greet:%s %s %s" % (hexs(greet_data), ",".join(core), res))
    authed = final == "ok"
    chk.count("handshake:" + ("ok" if authed else final.split(":")[0]))
    if authed:
        # the identity the session runs under must have passed authentication (reference predicate, hashlib)
        u = users.get(user_key)
        names = [p.name for p in plugins]
        pname = (u.auth_plugin if u and u.auth_plugin in names else names[0])
        first_nonce = greet_data.rstrip(b"\0") if default_name == "mysql_native_password" else None
        if replies:
            exch = [(d_.rstrip(b"\0") if len(d_) == 21 else None, r_) for _, d_, r_ in replies]
        else:
            exch = [(first_nonce if pname == "mysql_native_password" else None, resp)]
        if pname == "custom2":
            exch = [(None, resp)] + [(None, r_) for _, _, r_ in replies]
        if not c02.reference_accept(users, user_key, plugins, exch, meta):
            chk.fail("authentication succeeded although the reference predicate rejects the exchange",
                     dict(what, packets=outs))
    # ---- connection-level consequences, mirrored on the L4 machine
    lines.append("conn new")
    impl.append("greet open close=0 init=0 reg=1 tclosed=0 exc=-")
    kind = "ok 0 0" if authed else "unknown" if final == "errU" else "denied" if final == "errD" else "malformed"
    if final.startswith(("switch", "more")):
        kind = None      # the exchange is still waiting for the client: nothing decided yet
    if kind:
        lines.append("conn login " + kind)
        await settle(10)
        st = "open" if not a.done() else "closed"
        ex = "-"
        if a.done():
            e = a.task.exception() if not a.task.cancelled() else None
            ex = "-" if e is None else "generic"
        tok = "ok" if authed else ("err:unknown" if final == "errU" else "err:denied" if final == "errD" else "err:handshake")
        cid = a.greeting["cid"]
        impl.append("%s %s close=%d init=%d reg=%d tclosed=%d exc=%s" % (
            tok, st, sum(1 for l in s.log if l[0] == "close"), 1 if any(l[0] == "init" for l in s.log) else 0,
            1 if cid in srv.control._connections else 0, 1 if (a.t.closed and a.done()) else 0, ex))
    # ---- follow-up commands
    reps = await follow_up(chk, a, s, rng, s.username if authed else None, what)
    calls = [l[0] for l in s.log]
    chk.case(("hs", tuple(meta["kinds"]), user_key, strategy, announce, tuple(r[0] for r in reps)), nontrivial=not authed,
             sample=dict(what, packets=outs, follow_up=reps, session_calls=calls) if rng.random() < 0.004 else None)
    if not authed and kind is not None:
        served = [r for r in reps if r[1]]
        if "init" in calls or "hq" in calls or "use" in calls or served or not a.t.closed or "close" in calls:
            chk.fail("connection served / session touched although authentication did not succeed",
                     dict(what, packets=outs, follow_up=reps, session_calls=calls, transport_closed=a.t.closed))
    if authed:
        # COM_CHANGE_USER on the authenticated connection
        mode = rng.choice(["right", "wrong", "unknown", "raise"])
        target = rng.choice(["bob", "nopw", "dflt"]) if mode != "unknown" else rng.choice(["mallory", "mallory\u4e2d\u6587", "m\u00e9l"])
        if rng.random() < 0.35:
            # an earlier `SET character_set_results = ...` of this session: the ERR of a refused exchange names the user, and
            # that name may not be encodable in the narrowed set
            s.variables.set("character_set_results", rng.choice(["latin1", "ascii", "cp1251"]))
            chk.count("change_user:narrowed-results-charset")
        if mode == "right":
            r2 = {"bob": scramble(meta["pw"].encode(), greet_data.rstrip(b"\0")), "nopw": b"", "dflt": scramble(b"dpw", greet_data.rstrip(b"\0"))}[target]
            plug = b"mysql_native_password"
        elif mode == "raise":
            r2, plug, target = b"\xff\xfe", b"mysql_clear_password", "carl"
        else:
            r2, plug = b"z" * 20, b"mysql_native_password"
        before = len(s.log)
        await a.send(pkt(0, com_change_user(target.encode(), r2, b"newdb", plugin=plug)))
        o2, rep2 = [], []
        for _ in range(5):
            got = a.take()
            if not got:
                break
            stop = False
            for q, p in got:
                k = classify(p)
                o2.append(k)
                if k.startswith(("switch:", "more:")):
                    if k.startswith("switch:"):
                        j = p.index(b"\0", 1)
                        pn, data = p[1:j].decode(), p[j + 1:]
                    else:
                        pn, data = None, p[1:]
                    rr = reply_for(rng, "right" if mode == "right" else "wrong", pn, data, target, dict(meta, pw=meta["pw"] if target == "bob" else "dpw"))
                    await a.send(pkt(q + 1, rr))
                else:
                    stop = True
            if stop:
                break
        cu_ok = bool(o2) and o2[-1] == "ok"
        chk.count("change_user:" + ("ok" if cu_ok else (o2[-1].split(":")[0] if o2 else "none")))
        prev_user = s.username
        reps2 = await follow_up(chk, a, s, rng, s.username if cu_ok else None, dict(what, change_user=mode, target=target))
        calls2 = [l[0] for l in s.log[before:]]
        if not cu_ok and o2 and o2[-1].startswith("err"):
            served = [r for r in reps2 if r[1]]
            if "hq" in calls2 or "use" in calls2 or served or not a.t.closed or calls2.count("close") != 1:
                chk.fail("commands served / session not closed once after a failed COM_CHANGE_USER",
                         dict(what, change_user=mode, target=target, packets=o2, follow_up=reps2, session_calls=calls2, transport_closed=a.t.closed))
        # machine: the change-user command on the logged-in model connection
        if o2 and (o2[-1] == "ok" or o2[-1].startswith("err")) and not any(x.startswith(("switch", "more")) for x in o2):
            tokc = "changeuser 1" if cu_ok else ("changeuser 0" if o2[-1] in ("errD", "errU") else "changeuser 2")
            lines.append("conn cmd 0 " + tokc)
            cid = a.greeting["cid"]
            ptk = "ok" if cu_ok else ("err:denied" if o2[-1] == "errD" else "err:unknown" if o2[-1] == "errU" else "err:generic")
            if o2[-1] == "errU":
                lines.pop()     # the unknown-user arm is the same script with another ERR class; skip the machine line
            else:
                impl.append("%s %s close=%d init=1 reg=%d tclosed=%d exc=-" % (
                    ptk, "open" if cu_ok else "closed", sum(1 for l in s.log if l[0] == "close"),
                    1 if (cu_ok and cid in srv.control._connections) else 0, 0 if cu_ok else 1))
    await a.finish()


async def bad_sequence(chk, rng):
    """oracle only: a packet with a wrong sequence id during the connection phase (handshake response or the reply
    to an auth switch) must end the connection; a client that carries on with the 'next' sequence id gets nothing"""
    from mysql_mimic import User, NativePasswordAuthPlugin
    cas = NativePasswordAuthPlugin.create_auth_string
    users = {"bob": User("bob", cas("pw"), "mysql_native_password")}
    for variant in ("response", "switch-reply"):
        for wrong in (0, 2, 3, 7, 255):
            for payload_kind in ("empty", "nested"):
                s = LogSession()
                srv = mkserver([s], identity_provider=IDP([NativePasswordAuthPlugin(), c02.Clear([])], users))
                a = Peer(srv)
                await a.greet()
                nonce = a.greeting["nonce"]
                good = hs_response("bob", auth=scramble(b"pw", nonce))
                if variant == "response":
                    inner = b"" if payload_kind == "empty" else pkt(1, good)
                    await a.send(pkt(wrong if wrong != 1 else 9, inner))
                else:
                    await a.send(pkt(1, hs_response("bob", auth=b"", plugin="mysql_clear_password")))
                    got = a.take()
                    if not got or got[-1][1][:1] != b"\xfe":
                        await a.finish()
                        continue
                    nxt = got[-1][0] + 1
                    n2 = got[-1][1][got[-1][1].index(b"\0", 1) + 1:].rstrip(b"\0")
                    inner = b"" if payload_kind == "empty" else pkt((nxt + 1) % 256, scramble(b"pw", n2))
                    await a.send(pkt((nxt + 5) % 256, inner))
                out = a.take()
                last_seq = out[-1][0] if out else 0
                served = []
                for seq in ((last_seq + 1) % 256, 0, (last_seq + 2) % 256):
                    if a.t.closed:
                        break
                    await a.send(pkt(seq, b"\x03select 1"))
                    r = a.take()
                    if r:
                        served.append((seq, [p[:1].hex() for _, p in r]))
                calls = [l[0] for l in s.log]
                chk.case(("badseq", variant, wrong, payload_kind), nontrivial=True)
                chk.count("bad-sequence:" + variant)
                if "init" in calls or "hq" in calls or any(x[1] and x[1] != ["ff"] for x in served) or not a.t.closed:
                    chk.fail("served after a sequence error in the connection phase", dict(variant=variant, wrong_seq=wrong,
                             payload=payload_kind, replies=[p[:12].hex() for _, p in out], served=served, session_calls=calls,
                             transport_closed=a.t.closed))
                await a.finish()


async def truncations(chk, rng, quick):
    """oracle only: reference handshake responses truncated at every byte offset, then a query"""
    from mysql_mimic import User, NativePasswordAuthPlugin, NoLoginAuthPlugin
    cas = NativePasswordAuthPlugin.create_auth_string
    users = {"bob": User("bob", cas("pw"), "mysql_native_password"), "nopw": User("nopw", None, "mysql_native_password")}
    for user, caps, kw in [("bob", BASE, {}), ("nopw", BASE | C.CLIENT_CONNECT_WITH_DB, dict(db="d")),
                           ("bob", BASE | C.CLIENT_CONNECT_ATTRS | C.CLIENT_PLUGIN_AUTH_LENENC_CLIENT_DATA, dict(attrs={b"k": b"v"}))]:
        s0 = LogSession()
        srv0 = mkserver([s0], identity_provider=IDP([NativePasswordAuthPlugin(), NoLoginAuthPlugin()], users))
        full_len = len(hs_response(user, auth=b"x" * 20, caps=caps, **kw))
        for cut in range(0, full_len + 1, 1 if not quick else 2):
            s = LogSession()
            srv = mkserver([s], identity_provider=IDP([NativePasswordAuthPlugin(), NoLoginAuthPlugin()], users))
            a = Peer(srv)
            await a.greet()
            nonce = a.greeting["nonce"]
            auth = scramble(b"pw", nonce) if user == "bob" else b""
            payload = hs_response(user, auth=auth, caps=caps, **kw)[:cut]
            await a.send(pkt(1, payload))
            out = [classify(p) for _, p in a.take()]
            authed = bool(out) and out[-1] == "ok"
            r = await a.cmd(b"\x03select 1") if not a.t.closed else []
            calls = [l[0] for l in s.log]
            chk.case(("trunc", user, int(caps), cut), nontrivial=True)
            chk.count("truncation:" + ("ok" if authed else "refused"))
            if not authed and out and out[-1].startswith("err"):
                if "init" in calls or "hq" in calls or r or not a.t.closed:
                    chk.fail("truncated handshake response: served without authentication",
                             dict(user=user, cut=cut, of=full_len, packets=out, session_calls=calls))
            if authed and any(l[0] == "hq" and l[3] != user for l in s.log):
                chk.fail("query served under a different user than authenticated", dict(user=user, cut=cut))
            await a.finish()


def main():
    chk = Check("C01", sys.argv[1:])
    chk.rule = ("random identity providers / users / announced plugins / responses (as in C02) on the handshake route, 1-3 follow-up "
                "commands after the exchange, then COM_CHANGE_USER (right / wrong / unknown user / raising plugin) and follow-ups again; "
                "reference handshake responses truncated at every (2nd in quick) byte offset followed by a query. "
                "non-trivial = an exchange that did not end in OK")
    chk.assumptions = ["hashlib.sha1 / SystemRandom as in C02"]
    chk.tie(["MimicProps.C01"])
    chk.run_replays(["D1", "D1b"])
    rng = random.Random(chk.seed)
    FakeSystemRandom.rng = random.Random(chk.seed + 1)
    mm_utils.random.SystemRandom = FakeSystemRandom
    lines, impl = [], []

    async def go():
        for k in range(500 if not chk.thorough else 60000):
            await run_case(chk, rng, lines, impl)
        for k in range(80 if not chk.thorough else 5000):
            await run_case(chk, rng, lines, impl, focus="multi")
        await truncations(chk, rng, quick=not chk.thorough)
        await bad_sequence(chk, rng)

    asyncio.run(go())
    from c03 import canon
    model = [canon(x) for x in drive(lines)]
    chk.compare("authenticate + connection consequences vs Mimic.Auth / Mimic.Conn", lines, model, [canon(x) for x in impl])
    chk.finish()


if __name__ == "__main__":
    from framework import guarded
    guarded("C01", main)
