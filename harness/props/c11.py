"""C11 — server-side cursors deliver every row exactly once, in order.

Tie: correspondence of Mimic.Cursor with the real connection (prepare / execute with and without cursor / fetch /
reset / close programs over 1-3 statements, sync lists, sync generators, async generators, sources that raise,
application failures) + the property oracle on the decoded rows."""
import asyncio
import itertools
import os
import random
import struct
import sys

sys.path.insert(0, os.path.join(os.path.dirname(os.path.abspath(__file__)), ".."))
from framework import Check, drive  # noqa: E402
from lib import (BASE, C, Peer, RecSession, mkserver, com_stmt_execute, decode_binary_row, parse_coldef, parse_ok,
                 parse_eof, rd_lenenc, Bad)  # noqa: E402
from mysql_mimic import ResultColumn, ColumnType  # noqa: E402

COLS = [ResultColumn("a", ColumnType.LONGLONG)]


class App(RecSession):
    """the next execute's behaviour is set by the harness"""
    plan = None

    async def query(self, expression, sql, attrs):
        kind, base, n, boom, src = self.plan
        if kind == "fail":
            raise RuntimeError("application failure")
        rows = [(base + i,) for i in range(n)]
        if src == "list" and not boom:
            return rows, COLS
        if src == "agen":
            async def ag():
                for k, r in enumerate(rows):
                    if k % 3 == 2:
                        await asyncio.sleep(0)
                    yield r
                if boom:
                    raise RuntimeError("row source failure")
            return ag(), COLS

        def g():
            yield from rows
            if boom:
                raise RuntimeError("row source failure")
        return g(), COLS


def term_flags(p, caps):
    if p[:1] != b"\xfe":
        raise Bad("terminator expected")
    if caps & int(C.CLIENT_DEPRECATE_EOF):
        return parse_ok(p)["status"]
    return parse_eof(p)["status"]


def classify(out, caps, kind):
    """server packets of one command → canonical string (same vocabulary as the model driver)"""
    pk = [p for _, p in out]
    seqs = [q for q, _ in out]
    if seqs != [i % 256 for i in range(1, len(seqs) + 1)]:
        return "badseq:%r" % seqs[:6]
    if not pk:
        return "none"
    if len(pk) == 1 and pk[0][:1] == b"\xff":
        return "err"
    if kind in ("rst",):
        return "ok" if len(pk) == 1 and pk[0][:1] == b"\x00" else "bad:%r" % pk[0][:4]
    if kind == "fetch":
        rows = []
        for p in pk[:-1]:
            rows.append(decode_binary_row(p, [8])[0])
        last = pk[-1]
        if last[:1] == b"\xff":
            return "rowserr:" + ",".join(map(str, rows))
        fl = term_flags(last, caps)
        if fl & 0xC0 not in (0x40, 0x80):
            return "bad-flags:%x" % fl
        return "rows:%s:%s" % (",".join(map(str, rows)), "CE" if fl & 0x40 else "LR")
    if kind == "exec":
        n, i = rd_lenenc(pk[0], 0)
        if n != 1 or i != len(pk[0]):
            return "bad-count"
        parse_coldef(pk[1])
        rest = pk[2:]
        dep = bool(caps & int(C.CLIENT_DEPRECATE_EOF))
        if len(rest) == 1 and rest[0][:1] == b"\xfe" and term_flags(rest[0], caps) & 0x40:
            return "opened"
        if not dep:
            parse_eof(rest[0])
            rest = rest[1:]
        rows = [decode_binary_row(p, [8])[0] for p in rest[:-1]]
        if rest[-1][:1] == b"\xff":
            return "resulterr:" + ",".join(map(str, rows))
        if term_flags(rest[-1], caps) & 0xC0:
            return "bad-flags"
        return "result:" + ",".join(map(str, rows))
    return "?"


async def run_program(chk, caps, prog, lines, impl):
    app = App()
    srv = mkserver([app])
    a = Peer(srv)
    await a.login(caps=caps)
    lines.append("cur reset")
    impl.append("ok")
    ncalls = 0
    for op in prog:
        k = op[0]
        if k == "prepare":
            out = await a.cmd(b"\x16select a from t")
            sid = struct.unpack_from("<I", out[0][1], 1)[0] if out and out[0][1][:1] == b"\x00" else -1
            lines.append("cur prepare")
            impl.append(str(sid))
        elif k == "exec":
            _, sid, cur, plan = op
            app.plan = plan
            out = await a.cmd(com_stmt_execute(sid, [], caps=caps, flags=1 if cur else 0), n=60 + 2 * plan[2])
            try:
                impl.append(classify(out, a.caps, "exec"))
            except (Bad, IndexError, struct.error) as e:
                impl.append("undecodable:%s" % e)
            if plan[0] == "fail":
                lines.append("cur exec %d %d fail" % (sid, cur))
            else:
                lines.append("cur exec %d %d %d %d %d" % (sid, cur, plan[1], plan[2], 1 if plan[3] else 0))
        elif k == "fetch":
            _, sid, n = op
            out = await a.cmd(b"\x1c" + struct.pack("<II", sid, n), n=60 + 2 * min(n, 3000))
            try:
                impl.append(classify(out, a.caps, "fetch"))
            except (Bad, IndexError, struct.error) as e:
                impl.append("undecodable:%s" % e)
            lines.append("cur fetch %d %d" % (sid, n))
        elif k == "rst":
            out = await a.cmd(b"\x1a" + struct.pack("<I", op[1]))
            impl.append(classify(out, a.caps, "rst"))
            lines.append("cur rst %d" % op[1])
        elif k == "close":
            out = await a.cmd(b"\x19" + struct.pack("<I", op[1]))
            impl.append(classify(out, a.caps, "close"))
            lines.append("cur close %d" % op[1])
        if a.done():
            impl[-1] += "+connection-died"
            break
    await a.finish()


def oracle(chk, prog, impl_slice):
    """the property itself on the implementation's answers: per cursor lifetime, concatenated rows are a prefix of the
    result in order; each fetch filled unless exhausted; LR iff not filled."""
    cur = {}  # sid -> remaining rows (list) or None
    live = set()
    nxt = 0
    for op, got in zip(prog, impl_slice):
        k = op[0]
        if k == "prepare":
            live.add(nxt)
            cur[nxt] = None
            nxt += 1
        elif k == "exec":
            _, sid, c, plan = op
            if sid in live:
                cur[sid] = ([plan[1] + i for i in range(plan[2])], plan[3]) if (c and plan[0] != "fail") else None
        elif k == "fetch":
            _, sid, n = op
            if sid not in live or cur.get(sid) is None:
                if got != "err":
                    chk.fail("fetch on unknown statement / statement without cursor not answered with ERR", dict(program=prog, got=got))
                continue
            rem, boom = cur[sid]
            if len(rem) >= n:
                want = "rows:%s:CE" % ",".join(map(str, rem[:n]))
            elif boom:
                want = ("rowserr:%s" % ",".join(map(str, rem))) if rem else "err"
            else:
                want = "rows:%s:LR" % ",".join(map(str, rem))
            if got != want:
                chk.fail("fetch did not return exactly the next rows in order with the right exhaustion flag",
                         dict(program=prog, fetch=op, got=got[:200], want=want[:200]))
            cur[sid] = (rem[n:], boom and len(rem) >= n)
        elif k == "rst":
            if op[1] in live:
                cur[op[1]] = None
        elif k == "close":
            live.discard(op[1])
            cur.pop(op[1], None)


def gen_program(rng, big=False):
    prog = []
    nst = rng.randrange(1, 4)
    for _ in range(nst):
        prog.append(("prepare",))
    base = 0
    for _ in range(rng.randrange(3, 14)):
        r = rng.random()
        sid = rng.randrange(0, nst + 1)
        if r < 0.3:
            n = rng.choice([0, 1, 2, 3, 5, 8]) if not big else rng.choice([100, 1000, 2500])
            kind = "fail" if rng.random() < 0.1 else "rows"
            plan = (kind, base, n, rng.random() < 0.15, rng.choice(["list", "gen", "agen"]))
            base += 100 if not big else 10000
            prog.append(("exec", sid, 1 if rng.random() < 0.8 else 0, plan))
        elif r < 0.85:
            n = rng.choice([0, 1, 2, 3, 4, 9]) if not big else rng.choice([1, 7, 500, 999, 1000, 1001, 2 ** 31, 2 ** 32 - 1])
            prog.append(("fetch", sid, n))
        elif r < 0.93:
            prog.append(("rst", sid))
        else:
            prog.append(("close", sid))
    return prog


async def wide_row_fetches(chk, rng, count):
    """cursors whose rows differ widely in size (a few bytes next to rows around and above the stream's buffer threshold): the
    rows of every fetch arrive in the cursor's order, each once, with consecutive sequence ids"""
    from lib import split_packets
    for i in range(count):
        widths = [rng.choice([1, 5, 7, 200, 32000, 32760, 32768, 40000, 70000]) for _ in range(rng.randrange(3, 9))]
        if not any(w >= 32760 for w in widths):
            widths[rng.randrange(1, len(widths))] = 40000
        rows = [(k + 1, "%04d:" % k + "x" * w) for k, w in enumerate(widths)]
        cols = [ResultColumn("id", ColumnType.LONGLONG), ResultColumn("t", ColumnType.VARCHAR)]
        src = rng.choice(["list", "agen"])

        def beh(sess, e, sql, attrs, rows=rows, cols=cols, src=src):
            if src == "list":
                return list(rows), cols

            async def ag():
                for r in rows:
                    yield r
            return ag(), cols
        s = RecSession(beh)
        srv = mkserver([s])
        a = Peer(srv)
        caps = rng.choice([BASE, BASE | C.CLIENT_DEPRECATE_EOF])
        await a.login(caps=caps)
        o = await a.cmd(b"\x16select id, t from x")
        sid = struct.unpack_from("<I", o[0][1], 1)[0]
        await a.cmd(com_stmt_execute(sid, [], caps=caps, flags=1), n=60)
        got, sizes, pos = [], [], 0
        desc = dict(row_widths=widths, source=src, deprecate_eof=bool(int(caps) & int(C.CLIENT_DEPRECATE_EOF)), seed=chk.seed, case=i)
        chk.case(("wide-fetch", tuple(widths), src))
        chk.count("wide-row-fetch")
        bad = None
        while pos < len(rows) and bad is None:
            n = rng.choice([1, 2, 3, 4, len(rows)])
            sizes.append(n)
            out = await a.cmd(b"\x1c" + struct.pack("<II", sid, n), n=200)
            if [q for q, _ in out] != [(k + 1) % 256 for k in range(len(out))]:
                bad = "sequence ids of a fetch response: %r" % [q for q, _ in out][:8]
                break
            batch = []
            try:
                for _, p in out[:-1]:
                    r = decode_binary_row(p, [8, 253])
                    batch.append((r[0], r[1].decode() if isinstance(r[1], (bytes, bytearray)) else r[1]))
            except Exception as e:  # noqa
                bad = "undecodable row in a fetch response: %r" % (e,)
                break
            want = rows[pos:pos + n]
            if batch != [(r[0], r[1]) for r in want]:
                bad = "fetch(%d) at row %d returned ids %r, expected %r" % (n, pos, [b[0] for b in batch], [r[0] for r in want])
            pos += len(want)
        if bad:
            chk.fail("rows of a cursor with rows of very different sizes arrive out of order / not exactly once", dict(desc, fetch_sizes=sizes), bad)
        await a.finish()


def main():
    chk = Check("C11", sys.argv[1:])
    chk.rule = ("(1) exhaustive: every result length N<=Nmax and every sequence of fetch sizes <=N+1 up to exhaustion on one "
                "cursor; (2) random programs of prepare/execute(cursor?)/fetch/reset/close over up to 3 statements (+ unknown "
                "ids), sync list / sync generator / async generator sources, raising sources, failing application, both "
                "DEPRECATE_EOF settings; (3) large results and fetch sizes up to 2^32-1. non-trivial = a program with >= 2 fetches")
    chk.assumptions = ["rows are opaque identifiers in the model; their binary encoding is C05's subject"]
    chk.tie(["MimicProps.C11"])
    chk.run_replays(["D11"])
    rng = random.Random(chk.seed)
    lines, impl, progs = [], [], []

    async def go():
        # (1) exhaustive small
        nmax = 5 if not chk.thorough else 8
        for N in range(0, nmax + 1):
            def seqs(rem, acc):
                if rem < 0:
                    return
                yield acc
                if rem == 0 and acc and acc[-1] > 0 and len([x for x in acc if x > 0]) and sum(acc) > N:
                    return
                if sum(acc) > N:
                    return
                for s in range(0, N + 2):
                    if s == 0 and acc and acc[-1] == 0:
                        continue
                    yield from seqs(rem - 1, acc + [s])
            count = 0
            for sizes in seqs(N + 3, []):
                if not sizes or sum(sizes) <= N:
                    continue
                count += 1
                if not chk.thorough and count > 120:
                    break
                prog = [("prepare",), ("exec", 0, 1, ("rows", 0, N, False, ["list", "gen", "agen"][count % 3]))] + [("fetch", 0, s) for s in sizes]
                progs.append((prog, len(impl) + 1))
                await run_program(chk, BASE if count % 2 else BASE | C.CLIENT_DEPRECATE_EOF, prog, lines, impl)
                chk.case(("exh", N, tuple(sizes)), nontrivial=len(sizes) >= 2, sample=dict(N=N, sizes=sizes, answers=impl[-len(sizes):]) if count == 7 else None)
                chk.count("exhaustive:N=%d" % N)
        # (2) random programs
        for k in range(250 if not chk.thorough else 4000):
            prog = gen_program(rng)
            progs.append((prog, len(impl) + 1))
            await run_program(chk, rng.choice([BASE, BASE | C.CLIENT_DEPRECATE_EOF]), prog, lines, impl)
            chk.case(("rand", tuple(map(str, prog))), nontrivial=sum(1 for o in prog if o[0] == "fetch") >= 2,
                     sample=dict(program=[str(o) for o in prog][:8]) if k < 2 else None)
            for o in prog:
                chk.count("op:" + o[0])
        # (3) large
        for k in range(6 if not chk.thorough else 60):
            prog = gen_program(rng, big=True)
            progs.append((prog, len(impl) + 1))
            await run_program(chk, BASE, prog, lines, impl)
            chk.case(("big", tuple(map(str, prog))), nontrivial=True)
            chk.count("big-program")
        await wide_row_fetches(chk, rng, 10 if not chk.thorough else 150)

    asyncio.run(go())
    for prog, start in progs:
        oracle(chk, prog, impl[start:start + len(prog)])
    model = drive(lines)
    chk.compare("prepared-statement cursor commands vs Mimic.Cursor", lines, model, impl)
    chk.finish()


if __name__ == "__main__":
    from framework import guarded
    guarded("C11", main)
