"""C14 — system variables form a typed, scoped store that clients cannot corrupt.

Tie: (a) extraction of the variable schema (name, type, default, dynamic), of the usable character sets, default
collations, transaction characteristics and of the try/finally shape of the SET_VAR middleware; (b) correspondence of
Mimic.Variables with a real connection: random programs of SET statements in every accepted spelling (SESSION / LOCAL /
@@ / @@session. / bare / GLOBAL / PERSIST / user variables, multi-assignment, SET NAMES, SET CHARACTER SET, SET
TRANSACTION), reads, and statements carrying SET_VAR hints (single, multiple, nested in a subquery, on failing
application statements, naming unknown / read-only variables, wrong-typed values) over every variable of the schema;
after EVERY statement the full SHOW VARIABLES listing is compared with the model's store, and NOW() with the model's
time-zone offset.

The property's own oracle runs on every step: read-only variables never change, a hinted statement leaves every
variable as it was, the session stays usable after every statement, NOW() is shifted by the accepted time_zone."""
import asyncio
import datetime
import json
import os
import random
import struct
import sys

sys.path.insert(0, os.path.join(os.path.dirname(os.path.abspath(__file__)), ".."))
from framework import Check, drive, guarded  # noqa: E402
from lib import (BASE, Peer, RecSession, mkserver, decode_resultset, decode_text_row, parse_err, Bad)  # noqa: E402
from mysql_mimic.variables import SYSTEM_VARIABLES  # noqa: E402

NAMES = list(SYSTEM_VARIABLES)
READONLY = [n for n, (_, _, dyn) in SYSTEM_VARIABLES.items() if not dyn]
ERRCLASS = {1193: "err:unknown", 1064: "err:notDynamic", 1231: "err:badValue", 1235: "err:notSupported", 1105: "err:badValue"}


class App(RecSession):
    """application statements read variables inside query() and may fail"""

    def __init__(self):
        super().__init__()
        self.seen = []

    async def query(self, expression, sql, attrs):
        text = expression.sql()
        view = {}
        for n in NAMES:
            view[n] = self.variables.get(n)
        self.seen.append(view)
        if "boom" in text:
            raise RuntimeError("application failure")
        return [(1,)], ["a"]


def hexs(s):
    return s.encode().hex() or ""


class Lit:
    """a right-hand side: SQL spelling + model literal"""

    def __init__(self, sql, tok):
        self.sql, self.tok = sql, tok


def gen_lit(rng, for_type=None):
    r = rng
    pools = {
        "int": [Lit("5", "i5"), Lit("0", "i0"), Lit("123456789012", "i123456789012"), Lit("'42'", "s" + hexs("42")), Lit("' 7 '", "s" + hexs(" 7 ")),
                Lit("'+9'", "s" + hexs("+9")), Lit("'-3'", "s" + hexs("-3")), Lit("1.5", "f1:0:" + hexs("1.5")), Lit("TRUE", "T"), Lit("'abc'", "s" + hexs("abc")),
                Lit("''", "s"), Lit("'1e3'", "s" + hexs("1e3")), Lit("'12abc'", "s" + hexs("12abc"))],
        "bool": [Lit("1", "i1"), Lit("0", "i0"), Lit("ON", "T"), Lit("OFF", "F"), Lit("TRUE", "T"), Lit("FALSE", "F"), Lit("'OFF'", "s" + hexs("OFF")),
                 Lit("''", "s"), Lit("0.0", "f0:1:" + hexs("0.0")), Lit("2", "i2"), Lit("off", "X"), Lit("'0'", "s" + hexs("0"))],
        "str": [Lit("'abc'", "s" + hexs("abc")), Lit("'ANSI,TRADITIONAL'", "s" + hexs("ANSI,TRADITIONAL")), Lit("''", "s"), Lit("7", "i7"), Lit("2.50", "f2:0:" + hexs("2.5")),
                Lit("TRUE", "T"), Lit("OFF", "F"), Lit("'it''s'", "s" + hexs("it's")), Lit("'hello world'", "s" + hexs("hello world")), Lit("utf8", "X"),
                # values that compare equal in Python though they are different values of different types (1 == True == 1.0):
                # each assignment stores the text of ITS OWN value, whatever equal value anybody assigned before
                Lit("1", "i1"), Lit("1.0", "f1:0:" + hexs("1.0")), Lit("0", "i0"), Lit("0.0", "f0:1:" + hexs("0.0")), Lit("FALSE", "F"), Lit("ON", "T"),
                # strings that spell keywords are strings
                Lit("'OFF'", "s" + hexs("OFF")), Lit("'on'", "s" + hexs("on")), Lit("'Default'", "s" + hexs("Default")), Lit("'NULL'", "s" + hexs("NULL"))],
        "charset": [Lit("'utf8mb4'", "s" + hexs("utf8mb4")), Lit("'latin1'", "s" + hexs("latin1")), Lit("'utf8'", "s" + hexs("utf8")), Lit("'ascii'", "s" + hexs("ascii")),
                    Lit("'bogus'", "s" + hexs("bogus")), Lit("'dec8'", "s" + hexs("dec8")), Lit("'UTF8MB4'", "s" + hexs("UTF8MB4")), Lit("5", "i5"), Lit("''", "s"),
                    Lit("'binary'", "s" + hexs("binary")), Lit("'cp1251'", "s" + hexs("cp1251"))],
        "timezone": [Lit("'UTC'", "s" + hexs("UTC")), Lit("'utc'", "s" + hexs("utc")), Lit("'+05:30'", "s" + hexs("+05:30")), Lit("'-08:00'", "s" + hexs("-08:00")),
                     Lit("'+00:00'", "s" + hexs("+00:00")), Lit("'bogus'", "s" + hexs("bogus")), Lit("'+5:30'", "s" + hexs("+5:30")), Lit("'+05:30xyz'", "s" + hexs("+05:30xyz")),
                     Lit("'Europe/Paris'", "s" + hexs("Europe/Paris")), Lit("'SYSTEM'", "s" + hexs("SYSTEM")), Lit("'+13:59'", "s" + hexs("+13:59")), Lit("5", "i5"),
                     Lit("'-00:45'", "s" + hexs("-00:45")), Lit("''", "s")],
    }
    common = [Lit("DEFAULT", "D"), Lit("NULL", "N"), Lit("default", "X")]
    if r.random() < 0.2:
        return r.choice(common)
    if for_type is None or r.random() < 0.25:
        for_type = r.choice(list(pools))
    return r.choice(pools[for_type])


def type_of(name):
    t = SYSTEM_VARIABLES.get(name.lower())
    if not t:
        return None
    return {int: "int", bool: "bool", str: "str"}.get(t[0], "charset" if "charset" in t[0].__name__ else "timezone")


def gen_name(rng):
    x = rng.random()
    if x < 0.08:
        return rng.choice(["nonexistent_variable", "foo", "sql_modes"])
    if x < 0.2:
        return rng.choice(READONLY)
    if x < 0.45:
        return rng.choice(["time_zone", "character_set_client", "character_set_results", "character_set_connection", "sql_mode", "autocommit",
                           "sql_select_limit", "max_execution_time"])
    n = rng.choice(NAMES)
    return n.upper() if rng.random() < 0.15 else n


def gen_var_item(rng):
    if rng.random() < 0.12:
        # the right-hand side is another variable: `_replace_variables_middleware` substitutes its current value
        name, ref = gen_name(rng), gen_name(rng)
        form = rng.choice(["%s = @@%s", "@@%s = @@%s", "@@session.%s = @@session.%s", "SESSION %s = @@%s"])
        return form % (name, ref), "R|%s|%s" % (name, ref)
    name = gen_name(rng)
    lit = gen_lit(rng, type_of(name))
    sp = rng.choice(["bare", "session", "local", "@@", "@@session.", "@@local.", "global", "@@global.", "persist", "user", "bare", "@@session."])
    if sp == "bare":
        return "%s = %s" % (name, lit.sql), "V|S|%s|%s" % (name, lit.tok)
    if sp == "session":
        return "SESSION %s = %s" % (name, lit.sql), "V|S|%s|%s" % (name, lit.tok)
    if sp == "local":
        return "LOCAL %s = %s" % (name, lit.sql), "V|S|%s|%s" % (name, lit.tok)
    if sp == "@@":
        return "@@%s = %s" % (name, lit.sql), "V|S|%s|%s" % (name, lit.tok)
    if sp == "@@session.":
        return "@@session.%s = %s" % (name, lit.sql), "V|S|%s|%s" % (name, lit.tok)
    if sp == "@@local.":
        return "@@local.%s = %s" % (name, lit.sql), "V|S|%s|%s" % (name, lit.tok)
    if sp == "global":
        return "GLOBAL %s = %s" % (name, lit.sql), "V|G|%s|%s" % (name, lit.tok)
    if sp == "@@global.":
        return "@@global.%s = %s" % (name, lit.sql), "V|G|%s|%s" % (name, lit.tok)
    if sp == "persist":
        return "PERSIST %s = %s" % (name, lit.sql), "V|G|%s|%s" % (name, lit.tok)
    return "@%s = %s" % (name, lit.sql), "V|U|%s|%s" % (name, lit.tok)


def gen_set(rng):
    """one SET statement → (sql, model line)"""
    x = rng.random()
    if x < 0.6:
        n = rng.choice([1, 1, 1, 2, 3])
        its = [gen_var_item(rng) for _ in range(n)]
        return "SET " + ", ".join(i[0] for i in its), "var set " + " ".join(i[1] for i in its)
    if x < 0.75:
        cs = rng.choice(["utf8mb4", "latin1", "utf8", "ascii", "bogus", "dec8", "DEFAULT", "binary"])
        if cs == "DEFAULT":
            return "SET NAMES DEFAULT", "var set N|*|*"
        if rng.random() < 0.4:
            coll = rng.choice(["utf8mb4_bin", "latin1_swedish_ci", "whatever_ci"])
            return "SET NAMES %s COLLATE %s" % (cs, coll), "var set N|%s|%s" % (cs, coll)
        q = rng.choice(["%s", "'%s'"]) % cs
        return "SET NAMES " + q, "var set N|%s|*" % cs
    if x < 0.85:
        cs = rng.choice(["utf8mb4", "latin1", "utf8", "bogus", "DEFAULT", "dec8"])
        kw = rng.choice(["CHARACTER SET", "CHARSET"])
        if cs == "DEFAULT":
            return "SET %s DEFAULT" % kw, "var set C|*"
        return "SET %s %s" % (kw, cs), "var set C|%s" % cs
    iso = rng.choice(["ISOLATION LEVEL SERIALIZABLE", "ISOLATION LEVEL READ COMMITTED", "ISOLATION LEVEL REPEATABLE READ"])
    acc = rng.choice(["READ ONLY", "READ WRITE"])
    chars = rng.choice([[iso], [acc], [iso, acc], [acc, iso]])
    kw = rng.choice(["SET TRANSACTION ", "SET SESSION TRANSACTION "])
    return kw + ", ".join(chars), "var set T|" + "~".join(c.replace(" ", "_") for c in chars)


def gen_hint(rng):
    """statement with SET_VAR hints → (sql, model line, body kind)"""
    k = rng.choice([1, 1, 2, 3])
    assigns = []
    for _ in range(k):
        name = gen_name(rng)
        if rng.random() < 0.5:
            name = rng.choice(["time_zone", "sql_mode", "max_execution_time", "sql_select_limit", "autocommit", "character_set_results"])
        lit = gen_lit(rng, type_of(name))
        if rng.random() < 0.4:
            # variable names are case-insensitive: the hint may spell them differently from the SET that came before
            name = rng.choice([name.upper(), name.title(), name[:1].upper() + name[1:]])
        if lit.tok in ("X",) or lit.sql in ("default", "off", "-3", "utf8", "ON"):  # sqlglot does not see SET_VAR(x=ON) as an assignment
            lit = Lit("7", "i7")
        assigns.append((name, lit))
    plain = rng.random() < 0.2
    if plain:
        # the form MySQL documents for hinting several variables: one SET_VAR(...) item per variable in one comment
        ints = [n for n, t in SYSTEM_VARIABLES.items() if t[0] is int and t[2]]
        names = rng.sample(ints, rng.choice([2, 3, 4]))
        assigns = [(n, Lit(str(v), "i%d" % v)) for n, v in zip(names, rng.sample(range(2, 90), len(names)))]
    form = rng.choice(["one-comment", "one-comment", "nested", "two-level"])
    if plain:
        form = "one-comment"
    if form == "two-level" and len(assigns) < 2:
        form = "one-comment"
    body = rng.choice(["read", "read", "app", "app-fail"])
    if plain:
        body = "read"
    if form in ("nested", "two-level"):
        body = rng.choice(["app", "app-fail"])
    # dict semantics of the middleware: Hint nodes are walked in reverse order of discovery (outer query first → the
    # inner hint is applied first and the outer one overrides), expressions inside one hint in textual order; a
    # duplicate key keeps its first position and takes the later value
    if form == "two-level":
        cut = rng.randrange(1, len(assigns))
        outer, inner = assigns[:cut], assigns[cut:]
        order = inner + outer
    else:
        outer, inner = assigns, []
        order = assigns
    d = {}
    for name, lit in order:
        d[name] = lit
    model_assigns = ",".join("%s=%s" % (n, l.tok) for n, l in d.items()) or "-"
    hints = ["SET_VAR(%s=%s)" % (n, l.sql) for n, l in assigns]
    if body == "read":
        target = rng.choice([a[0] for a in assigns] + [gen_name(rng)]) if not plain else rng.choice([a[0] for a in assigns])
        sql = "SELECT /*+ %s */ @@%s" % (" ".join(hints), target)
        # ground truth without the model: when every hint is a plain integer for a dynamic integer variable, the statement
        # succeeds and reads, for a hinted variable, the last value the hints give it
        import re as _re
        simple = all(type_of(n) == "int" and SYSTEM_VARIABLES[n.lower()][2] and _re.fullmatch(r"i\d+", l.tok) for n, l in assigns)
        expect = None
        if simple and form == "one-comment":
            vals = [l.tok[1:] for n, l in assigns if n.lower() == target.lower()]
            expect = vals[-1] if vals else None
        return sql, "var hint %s get:%s" % (model_assigns, target), ("read", target, expect)
    tbl = "boom" if body == "app-fail" else "t"
    if form == "nested":
        sql = "SELECT s.a FROM (SELECT /*+ %s */ a FROM %s) AS s" % (" ".join(hints), tbl)
    elif form == "two-level":
        sql = "SELECT /*+ %s */ s.a FROM (SELECT /*+ %s */ a FROM %s) AS s" % (
            " ".join("SET_VAR(%s=%s)" % (n, l.sql) for n, l in outer), " ".join("SET_VAR(%s=%s)" % (n, l.sql) for n, l in inner), tbl)
    else:
        sql = "SELECT /*+ %s */ a FROM %s" % (" ".join(hints), tbl)
    return sql, "var hint %s %s" % (model_assigns, "fail" if body == "app-fail" else "ok"), (body, dict((n, l.tok) for n, l in d.items()))


def model_str(tok):
    """model value token → what SHOW VARIABLES shows (str(v), None → NULL)"""
    if tok == "none":
        return None
    k, v = tok.split(":", 1)
    if k == "i":
        return v
    if k == "b":
        return v
    if k == "s":
        return "" if v == "-" else bytes.fromhex(v).decode()
    return tok


def model_sel(tok):
    """model value token → what SELECT @@x returns"""
    if tok == "none":
        return None
    k, v = tok.split(":", 1)
    if k == "b":
        return "1" if v == "True" else "0"
    if k == "s":
        return "" if v == "-" else bytes.fromhex(v).decode()
    return v


async def run_sql(a, sql):
    out = await a.cmd(b"\x03" + sql.encode(), n=80)
    pk = [p for _, p in out]
    if not pk:
        return ("none", None)
    if pk[0][:1] == b"\xff":
        code = parse_err(pk[0])[0]
        return (ERRCLASS.get(code, "err:%d" % code), None)
    if pk[0][:1] == b"\x00" and len(pk) == 1:
        return ("ok", None)
    try:
        rs = decode_resultset(pk, a.caps)
        rows = [[None if c is None else c.decode("utf8", "replace") for c in decode_text_row(r, len(rs["cols"]))] for r in rs["rows"]]
        if rs["term"][0] == "ERR":
            return ("err-in-result", rows)
        return ("rs", rows)
    except (Bad, IndexError, struct.error) as e:
        return ("undecodable:%r" % (e,), None)


async def program(chk, rng, idx, steps):
    app = App()
    srv = mkserver([app])
    a = Peer(srv)
    await a.login()
    lines = ["var reset", "var force external_user s" + hexs("u")]
    expect = [("skip",), ("skip",)]
    prog = []
    for stepno in range(steps):
        x = rng.random()
        if x < 0.55:
            sql, ml = gen_set(rng)
            kind = ("set", ml)
        elif x < 0.8:
            sql, ml, kind = gen_hint(rng)
        else:
            nm = gen_name(rng)
            sql = "SELECT @@%s%s" % (rng.choice(["", "session.", "SESSION."]), nm)
            ml = "var get " + nm
            kind = ("get",)
        prog.append(sql)
        before_seen = len(app.seen)
        res = await run_sql(a, sql)
        lines.append(ml)
        expect.append(("stmt", sql, kind, res, app.seen[before_seen:]))
        # full listing after every statement
        show = await run_sql(a, "SHOW VARIABLES")
        lines.append("var list")
        expect.append(("list", sql, show))
        if rng.random() < 0.3 or "time_zone" in sql.lower():
            now = await run_sql(a, "SELECT NOW()")
            utc = datetime.datetime.now(datetime.timezone.utc).replace(tzinfo=None)
            lines.append("var tz")
            expect.append(("tz", sql, now, utc))
        if a.done():
            chk.fail("connection died after a SET / hinted statement", dict(program=prog), None)
            break
    await a.finish()
    return lines, expect, prog


def evaluate(chk, out, expect, prog, pidx):
    desc = dict(program=prog, seed=chk.seed, program_index=pidx)
    prev_list = None
    last_set = None
    for m, ex in zip(out, expect):
        if ex[0] == "skip":
            continue
        if ex[0] == "stmt":
            _, sql, kind, (status, rows), seen = ex
            d = dict(desc, statement=sql)
            chk.count("stmt:" + kind[0])
            last_set = None
            if kind[0] == "set":
                last_set = (kind[1], status)
                chk.count("set-outcome:" + status)
                if m != status:
                    chk.disagree("SET statement outcome", d, m, status)
            elif kind[0] == "get":
                want = m if m.startswith("err:") else model_sel(m)
                got = status if status != "rs" else rows[0][0]
                if want != got:
                    chk.disagree("SELECT @@variable", d, want, got)
            else:
                view, outcome = m.split("|")
                body = kind[0]
                if body == "read" and len(kind) > 2 and kind[2] is not None and (status != "rs" or rows[0][0] != kind[2]):
                    chk.fail("a SET_VAR hint does not apply to its own statement", d, dict(read=rows[0][0] if status == "rs" else status, hinted_value=kind[2]))
                if body == "read":
                    got = status if status != "rs" else "ok"
                    if outcome != got:
                        chk.disagree("hinted read outcome", d, outcome, got)
                    elif status == "rs":
                        w = model_sel(view) if view != "-" and not view.startswith("err:") else view
                        if w != rows[0][0]:
                            chk.disagree("value read under SET_VAR", d, w, rows[0][0])
                else:
                    got = status if status != "rs" else "ok"
                    if outcome != got:
                        chk.disagree("hinted application statement outcome", d, outcome, got)
                chk.count("hint-outcome:" + status)
            chk.case((sql, status))
        elif ex[0] == "list":
            _, sql, (status, rows) = ex
            d = dict(desc, after_statement=sql)
            if status != "rs":
                chk.fail("session unusable after a statement (SHOW VARIABLES fails)", d, status)
                continue
            if any(len(r) != 2 for r in rows):
                chk.fail("SHOW VARIABLES listing malformed", d, rows[:3])
                continue
            got = {r[0]: r[1] for r in rows}
            want = {}
            for kv in m.split(";"):
                k, v = kv.split("=", 1)
                want[k] = model_str(v)
            if got != want:
                diff = {k: (want.get(k), got.get(k)) for k in set(want) | set(got) if want.get(k) != got.get(k)}
                chk.disagree("SHOW VARIABLES after statement = model store", d, diff, "see diff (model, impl)")
            # ground truth without the model: a quoted string assigned (one assignment, session scope, accepted) to a
            # string-typed variable reads back as exactly that string, whatever it spells
            if last_set and last_set[1] == "ok" and last_set[0].startswith("var set V|S|") and " " not in last_set[0][8:]:
                _, _, vname, tok = last_set[0][8:].split("|")
                if tok.startswith("s") and type_of(vname) == "str":
                    text = bytes.fromhex(tok[1:]).decode()
                    if got.get(vname.lower()) != text:
                        chk.fail("a quoted string assigned to a string-typed variable does not read back as that string", d,
                                 dict(variable=vname, assigned=text, read=got.get(vname.lower())))
            if [r[0] for r in rows] != sorted(got):
                chk.fail("SHOW VARIABLES is not the sorted complete listing", d, [r[0] for r in rows][:5])
            # property oracle: read-only variables never change; a hinted statement changes nothing
            if prev_list is not None:
                for ro in READONLY:
                    if got.get(ro) != prev_list.get(ro):
                        chk.fail("read-only variable changed by a client statement", d, dict(variable=ro, before=prev_list.get(ro), after=got.get(ro)))
                if "SET_VAR" in sql and got != prev_list:
                    diff = {k: (prev_list.get(k), got.get(k)) for k in got if prev_list.get(k) != got.get(k)}
                    chk.fail("a SET_VAR hint outlived its statement", d, diff)
            prev_list = got
        elif ex[0] == "tz":
            _, sql, (status, rows), utc = ex
            d = dict(desc, after_statement=sql)
            if status != "rs":
                chk.fail("session unusable after an accepted assignment (NOW() fails)", d, status)
                continue
            if m in ("bad",) or m.startswith("err"):
                chk.disagree("time zone of the session", d, m, rows[0][0])
                continue
            try:
                got = datetime.datetime.strptime(rows[0][0], "%Y-%m-%d %H:%M:%S")
            except ValueError:
                chk.fail("NOW() malformed", d, rows[:2])
                continue
            delta = (got - utc).total_seconds() / 60.0
            if abs(delta - int(m)) > 0.2:
                chk.fail("NOW() is not shifted by the session time_zone", d, dict(now=rows[0][0], utc=str(utc), model_offset_min=m))
            chk.count("tz-offset:" + m)


async def tz_sweep(chk, rng, thorough):
    """every accepted time_zone spelling shifts NOW() / CURDATE() / CURTIME() by the model's offset"""
    app = App()
    srv = mkserver([app])
    a = Peer(srv)
    await a.login()
    vals = ["UTC", "utc", "Utc"]
    hours = ["00", "01", "03", "09", "12", "13", "14", "23"]
    mins = ["00", "15", "30", "45", "59"]
    for sg in "+-":
        for h in (hours if thorough else rng.sample(hours, 4)):
            for m in (mins if thorough else rng.sample(mins, 3)):
                vals.append("%s%s:%s" % (sg, h, m))
    vals += ["+05:30xyz", "+5:30", "0530", "+05-30", "", "+24:00", "+99:99", "-00:00"]
    lines, obs = [], []
    for v in vals:
        st, _ = await run_sql(a, "SET time_zone = '%s'" % v)
        lines.append("var set V|S|time_zone|s" + hexs(v))
        now = await run_sql(a, "SELECT NOW(), CURDATE(), CURTIME()")
        utc = datetime.datetime.now(datetime.timezone.utc).replace(tzinfo=None)
        lines.append("var tz")
        obs.append((v, st, now, utc))
    out = drive(["var reset"] + lines)[1:]
    for i, (v, st, (nst, rows), utc) in enumerate(obs):
        mset, mtz = out[2 * i], out[2 * i + 1]
        d = dict(time_zone=v)
        chk.case(("tz", v))
        chk.count("tz-sweep:" + ("accepted" if st == "ok" else "rejected"))
        if mset != st:
            chk.disagree("SET time_zone outcome", d, mset, st)
        if nst != "rs":
            chk.fail("session unusable after an accepted assignment (NOW() fails)", d, nst)
            continue
        got = datetime.datetime.strptime(rows[0][0], "%Y-%m-%d %H:%M:%S")
        delta = (got - utc).total_seconds() / 60.0
        if mtz.lstrip("-").isdigit():
            if abs(delta - int(mtz)) > 0.2:
                chk.fail("NOW() is not shifted by the session time_zone", d, dict(now=rows[0][0], utc=str(utc), model_offset_min=mtz))
            if rows[0][1] != got.strftime("%Y-%m-%d") or rows[0][2] != got.strftime("%H:%M:%S"):
                chk.fail("CURDATE()/CURTIME() disagree with NOW()", d, rows[0])
        else:
            chk.disagree("time zone of the session", d, mtz, rows[0][0])
    await a.finish()


async def hint_then_now(chk, rng, count):
    """a SET_VAR(time_zone=...) hint is over when its statement is: a later statement of the SAME command text reads the
    session's own zone again -- through @@time_zone and through NOW() / CURDATE() / CURTIME() alike"""
    zones = [("UTC", 0), ("-02:00", -120), ("+05:30", 330), ("+13:00", 780), ("-11:00", -660)]
    for i in range(count):
        (sess, soff), (hint, hoff) = rng.sample(zones, 2)
        app = App()
        a = Peer(mkserver([app]))
        await a.login()
        await run_sql(a, "SET time_zone = '%s'" % sess)
        first = rng.choice(["SELECT /*+ SET_VAR(time_zone='%s') */ 1" % hint, "SELECT /*+ SET_VAR(time_zone='%s') */ NOW()" % hint,
                            "SELECT /*+ SET_VAR(time_zone='%s') SET_VAR(sql_mode='ANSI') */ a FROM t" % hint])
        text = first + "; SELECT NOW(), CURDATE(), CURTIME(), @@time_zone"
        st, rows = await run_sql(a, text)
        utc = datetime.datetime.now(datetime.timezone.utc).replace(tzinfo=None)
        await a.finish()
        d = dict(session_time_zone=sess, command_text=text)
        chk.case(("hint-then-now", sess, hint, first[:40]))
        chk.count("hint-then-now")
        if st != "rs" or not rows or len(rows[0]) != 4:
            chk.fail("a command text of a hinted statement followed by a plain one was not answered with the last statement's result", d, dict(status=st, rows=rows))
            continue
        got = datetime.datetime.strptime(rows[0][0], "%Y-%m-%d %H:%M:%S")
        delta = (got - utc).total_seconds() / 60.0
        if rows[0][3] != sess or abs(delta - soff) > 0.2 or rows[0][1] != got.strftime("%Y-%m-%d") or rows[0][2] != got.strftime("%H:%M:%S"):
            chk.fail("a SET_VAR hint outlived its statement", d, dict(now=rows[0][0], curdate=rows[0][1], curtime=rows[0][2], time_zone=rows[0][3], utc=str(utc),
                                                                   session_offset_min=soff, hint_offset_min=hoff))


async def version_case(chk):
    """the handshake announces the session's `version` variable"""
    class VApp(App):
        def __init__(self):
            super().__init__()
            self.variables.set("version", "9.1.2-custom", force=True)
    for cls, want in ((App, SYSTEM_VARIABLES["version"][1]), (VApp, "9.1.2-custom")):
        app = cls()
        srv = mkserver([app])
        a = Peer(srv)
        await a.login()
        ver = a.greeting["version"] if a.greeting else None
        ver = ver.decode() if isinstance(ver, bytes) else ver
        st, rows = await run_sql(a, "SELECT @@version")
        if ver != want or st != "rs" or rows[0][0] != want:
            chk.fail("handshake does not announce the version variable", dict(session=cls.__name__), dict(greeting=ver, variable=rows, want=want))
        chk.case(("version", want))
        await a.finish()


def fresh_replay(prog):
    """SHOW VARIABLES after every statement of prog, on a server in a new interpreter (no state left by earlier sessions)"""
    import subprocess
    try:
        r = subprocess.run([sys.executable, os.path.abspath(__file__), "--fresh-replay"], input=json.dumps(prog), capture_output=True,
                           text=True, timeout=120)
        return json.loads(r.stdout.strip().splitlines()[-1])
    except (subprocess.SubprocessError, ValueError, IndexError):
        return None


def fresh_main():
    prog = json.loads(sys.stdin.read())

    async def go():
        a = Peer(mkserver([App()]))
        await a.login()
        res = []
        for sql in prog:
            await run_sql(a, sql)
            st, rows = await run_sql(a, "SHOW VARIABLES")
            res.append([st, rows])
            if a.done():
                break
        await a.finish()
        return res
    print(json.dumps(asyncio.run(go())))


def main():
    chk = Check("C14", sys.argv[1:])
    chk.rule = ("get after set / frame / DEFAULT and NULL restore the default / unknown is an error (store refinement), read-only variables immutable "
                "for every client program (readonly_immutable), SET_VAR restores every variable for every hint list and body outcome (hinted_restores), "
                "accepted time_zone / character sets always usable (accepted_keeps_usable)")
    chk.tie(["MimicProps.C14"])
    chk.run_replays(["D14"])
    rng = random.Random(chk.seed * 15485863 + 14)
    nprog = 2500 if chk.thorough else 240

    async def go():
        await version_case(chk)
        await tz_sweep(chk, rng, chk.thorough)
        await hint_then_now(chk, random.Random(chk.seed * 7919 + 1414), 12 if not chk.thorough else 200)      # its own stream: the programs below keep theirs
        alllines, allexp = [], []
        progs = []
        for i in range(nprog):
            lines, expect, prog = await program(chk, rng, i, rng.choice([4, 8, 14]))
            progs.append((len(alllines), len(lines), expect, prog))
            alllines += lines
        out = drive(alllines)
        suspects = []
        for pidx, (off, n, expect, prog) in enumerate(progs):
            before = len(chk.disagreements)
            evaluate(chk, out[off:off + n], expect, prog, pidx)
            if len(chk.disagreements) > before:
                suspects.append((pidx, expect, prog))
        # failing-input search for programs on which model and implementation disagree: what a session reads is determined
        # by what was assigned IN THAT SESSION, so the same statements on a server in a fresh process must read the same
        for pidx, expect, prog in suspects[:8]:
            fresh = fresh_replay(prog)
            chk.count("fresh-process replay")
            mine = [[ex[2][0], ex[2][1]] for ex in expect if ex[0] == "list"]
            if fresh is not None and fresh != mine[:len(fresh)]:
                k = next(j for j in range(len(fresh)) if fresh[j] != mine[j])
                a, b = dict(map(tuple, mine[k][1] or [])), dict(map(tuple, fresh[k][1] or []))
                chk.fail("a variable does not read as the value most recently assigned in its session: the same statements on a "
                         "server in a fresh process read differently", dict(program=prog[:k + 1], seed=chk.seed, program_index=pidx),
                         {v: dict(in_this_process=a.get(v), in_a_fresh_process=b.get(v)) for v in set(a) | set(b) if a.get(v) != b.get(v)})
    asyncio.run(go())
    chk.assumptions = [
        "the reduction of a SET / SET_VAR spelling to (scope, name, literal) items is the generator's; sqlglot's parser is trusted to agree "
        "(a disagreement shows up as a correspondence failure)",
        "float right-hand sides carry Python's int()/bool()/str() of the float as computed by the harness",
        "strings given to int-typed variables are ASCII without underscores (Python's int() accepts more)",
    ]
    chk.finish()


if __name__ == "__main__":
    if sys.argv[1:2] == ["--fresh-replay"]:
        fresh_main()
    else:
        guarded("C14", main)
