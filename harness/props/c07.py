"""C07 — malformed or hostile packets cannot hang, crash or wedge the server.

Tie: (1) parser level — mutated handshake responses / COM_QUERY attribute blocks / COM_STMT_EXECUTE payloads through the
real parsers vs the total Lean parsers (Mimic.Packets, Mimic.Params): same parse or both reject; (2) connection level
— every mutated packet at every position of a session (handshake response, auth-switch reply, each command) on a real
server next to a witness connection, under a line-event budget (sys.monitoring) proportional to the packet length.
Oracle: the work stays within the budget; the offender gets a well-formed response or exactly one ERR and stays in
step, or is closed; the witness' PING is answered; a new connection is fully served; the offender's registration is
released when it ends."""
import asyncio
from mysql_mimic.types import Capabilities as ServerCaps  # the server's own flag type, for calling its parsers directly
import io
import os
import random
import struct
import sys

sys.path.insert(0, os.path.join(os.path.dirname(os.path.abspath(__file__)), ".."))
from framework import Check, drive, hexs  # noqa: E402
from lib import (BASE, C, Peer, RawSession, mkserver, pkt, hs_response, com_query, com_stmt_execute, com_change_user, settle,
                 scramble, lenenc, T_LONG, T_VAR_STRING, T_TINY, T_DOUBLE, T_NULL)  # noqa: E402
from paramgen import canon_attrs  # noqa: E402

from mysql_mimic import packets  # noqa: E402
from mysql_mimic.constants import DEFAULT_SERVER_CAPABILITIES  # noqa: E402
from mysql_mimic.charset import CharacterSet  # noqa: E402
from mysql_mimic.control import LocalControl  # noqa: E402

TOOL = 3  # sys.monitoring tool id (PROFILER_ID + 1 is free in this process)


class Budget(BaseException):
    pass


class Meter:
    """counts LINE events executed in mysql_mimic code; raises Budget when the allowance is exhausted"""

    def __init__(self):
        self.n = 0
        self.limit = None
        self.fired = False
        mon = sys.monitoring
        try:
            mon.use_tool_id(TOOL, "verif-c07")
        except ValueError:
            pass
        mon.register_callback(TOOL, mon.events.LINE, self.on_line)
        mon.set_events(TOOL, mon.events.LINE)

    def on_line(self, code, line):
        if "/mysql_mimic/" not in code.co_filename:
            return sys.monitoring.DISABLE
        self.n += 1
        if self.limit is not None and self.n > self.limit and not self.fired:
            self.fired = True
            raise Budget()

    def start(self, limit):
        self.n = 0
        self.limit = limit
        self.fired = False
        sys.monitoring.restart_events()

    def stop(self):
        self.limit = None
        return self.n

    def close(self):
        sys.monitoring.set_events(TOOL, 0)
        sys.monitoring.free_tool_id(TOOL)


BOUNDARY = [0, 1, 250, 251, 252, 253, 254, 255]


def mutations(rng, base: bytes, quick: bool):
    """truncation at every offset, byte replacement with boundary values, length-field blow-ups, bit flips, random"""
    n = len(base)
    out = []
    for cut in range(0, n, 1 if not quick else 2):
        out.append(("trunc@%d" % cut, base[:cut]))
    pos = range(n) if not quick else rng.sample(range(n), min(n, 24))
    for i in pos:
        for v in (BOUNDARY if not quick else rng.sample(BOUNDARY, 3)):
            if base[i] != v:
                out.append(("byte@%d=%d" % (i, v), base[:i] + bytes([v]) + base[i + 1:]))
    for i in range(n):
        # absurd lengths / counts at EVERY position, with the rest of the packet kept and with it cut off right after
        out.append(("huge@%d" % i, base[:i] + b"\xfe" + b"\xff" * 8 + base[i + 1:]))
        out.append(("huge-then-end@%d" % i, base[:i] + b"\xfe" + b"\xff" * 8))
        out.append(("2^24-then-short@%d" % i, base[:i] + b"\xfd\xff\xff\xff" + base[i + 1:i + 4]))
    for i in (range(n) if not quick else rng.sample(range(n), min(n, 8))):
        out.append(("2^16@%d" % i, base[:i] + b"\xfc\x00\x00" + base[i + 1:]))
        out.append(("2^24@%d" % i, base[:i] + b"\xfd\xff\xff\xff" + base[i + 1:]))
    for _ in range(10 if quick else 60):
        b = bytearray(base)
        if b:
            for _ in range(rng.randrange(1, 4)):
                i = rng.randrange(len(b))
                b[i] ^= 1 << rng.randrange(8)
        out.append(("flip", bytes(b)))
    for _ in range(5 if quick else 40):
        out.append(("random", rng.randbytes(rng.randrange(0, 64))))
    return out


SUPPORTED_COLL = {255, 45, 33, 8, 11, 63, 224}     # utf8mb4 x2, utf8, latin1, ascii, binary (no codec), utf8mb4_unicode_ci


def canon_hs(res, payload):
    if isinstance(res, packets.SSLRequest):
        return "ssl %d %d %d" % (int(res.capabilities), res.max_packet_size, int(res.client_charset))
    codec = res.client_charset.codec

    def e(x):
        return "none" if x is None else hexs(x.encode(codec))
    attrs = ";".join("%s:%s" % (hexs(k.encode(codec)), hexs(v.encode(codec))) for k, v in res.connect_attrs.items())
    return "resp caps=%d max=%d cs=%d user=%s auth=%s db=%s plugin=%s attrs=%s zstd=%d" % (
        int(res.capabilities), res.max_packet_size, int(res.client_charset), e(res.username), hexs(res.auth_response), e(res.database),
        e(res.client_plugin), attrs, res.zstd_compression_level)


def canon_model_hs(line):
    """apply dict semantics (last value wins, first position kept) to the model's attribute list"""
    if not line.startswith("resp "):
        return line
    head, _, tail = line.partition(" attrs=")
    attrs, _, z = tail.rpartition(" zstd=")
    d = {}
    for kv in [x for x in attrs.split(";") if x]:
        k, _, v = kv.partition(":")
        d[k] = v
    return "%s attrs=%s zstd=%s" % (head, ";".join("%s:%s" % kv for kv in d.items()), z)


def parser_level(chk, rng, meter, quick):
    lines, impl = [], []
    srv_caps = int(DEFAULT_SERVER_CAPABILITIES)
    bases = [
        hs_response("bob", auth=b"x" * 20, caps=BASE),
        hs_response("bob", auth=b"", caps=BASE | C.CLIENT_CONNECT_WITH_DB, db="somedb"),
        hs_response("bé", auth=b"y" * 20, caps=BASE | C.CLIENT_CONNECT_ATTRS | C.CLIENT_PLUGIN_AUTH_LENENC_CLIENT_DATA | C.CLIENT_CONNECT_WITH_DB,
                    db="d", attrs={b"_os": b"linux", b"k": b"", b"": b"v"}),
        hs_response("u", caps=BASE | C.CLIENT_SSL)[:32],
    ]
    for base in bases:
        for name, p in mutations(rng, base, quick):
            if len(p) > 8 and p[8] not in SUPPORTED_COLL and p[8] in {int(c) for c in __import__("mysql_mimic.charset", fromlist=["Collation"]).Collation}:
                continue    # a collation whose codec the driver does not model
            meter.start(60 * len(p) + 4000)
            try:
                res = packets.parse_handshake_response(DEFAULT_SERVER_CAPABILITIES, p)
                got = canon_hs(res, p)
            except Budget:
                got = "budget"
            except Exception:  # noqa
                got = "error"
            used = meter.stop()
            chk.case(("hs", p), nontrivial=True, sample=dict(mutation=name, payload=hexs(p)[:80], result=got[:80], line_events=used) if rng.random() < 0.002 else None)
            chk.count("parser:handshake:" + got.split(" ")[0])
            if got == "budget":
                chk.fail("parser exceeded its work budget (hang)", dict(parser="parse_handshake_response", mutation=name, payload=hexs(p)))
                continue
            lines.append("pkt hs %d %s" % (srv_caps, hexs(p)))
            impl.append(got)
    # COM_QUERY attribute blocks and COM_STMT_EXECUTE payloads
    qa_caps = BASE | C.CLIENT_QUERY_ATTRIBUTES
    attrs = [(T_VAR_STRING, False, b"v1", b"k1"), (T_LONG, False, -5, b"k2"), (T_NULL, False, None, b"k3"), (T_DOUBLE, False, 1.5, b"d"), (T_TINY, True, 200, b"")]
    qbase = com_query(b"select 1", caps=qa_caps, attrs=attrs)[1:]
    for name, p in mutations(rng, qbase, quick):
        meter.start(80 * len(p) + 4000)
        try:
            r = packets.parse_com_query(ServerCaps(int(qa_caps)), CharacterSet.utf8mb4, p)
            types = {a[3].decode(): a[0] for a in attrs}
            got = "sql=%s attrs=%s" % (hexs(r.sql.encode("utf8")), canon_attrs(r.query_attrs, {}))
        except Budget:
            got = "budget"
        except Exception:  # noqa
            got = "err"
        used = meter.stop()
        chk.case(("q", p), nontrivial=True)
        chk.count("parser:com_query:" + got.split("=")[0])
        if got == "budget":
            chk.fail("parser exceeded its work budget (hang)", dict(parser="parse_com_query", mutation=name, payload=hexs(p)))
            continue
        if "F" in got.split("attrs=")[-1] and got != "err":
            continue        # float attribute values: the width of the original field is unknown after mutation
        lines.append("par query 1 " + hexs(p))
        impl.append(got)
    return lines, impl


CMD_BASES = None


async def connection_level(chk, rng, meter, quick):
    """mutated packets at every position of a session, next to a witness connection"""
    from mysql_mimic import IdentityProvider, NativePasswordAuthPlugin, User
    from c02 import IDP, Clear

    cas = NativePasswordAuthPlugin.create_auth_string
    users = {"bob": User("bob", cas("pw"), "mysql_native_password"), "carl": User("carl", None, "clearpw")}

    def server():
        sessions = (RawSession() for _ in range(10 ** 6))
        ctl = LocalControl(server_id=9)
        return mkserver(sessions, control=ctl, identity_provider=IDP([NativePasswordAuthPlugin(), Clear([("carl", b"secret")])], users)), ctl

    caps = BASE | C.CLIENT_QUERY_ATTRIBUTES
    attrs = [(T_VAR_STRING, False, b"v1", b"k1"), (T_LONG, False, -5, b"k2")]
    positions = {
        "handshake": lambda nonce: hs_response("bob", auth=scramble(b"pw", nonce), caps=caps),
        "switch-reply": None,
        "query": lambda n: com_query(b"select 1", caps=caps, attrs=attrs),
        "prepare": lambda n: b"\x16select ?, ? from t",
        "prepare-long": lambda n: b"\x16SELECT ? AS a, col_one, col_two FROM some_table WHERE name = 'abc def' AND other = \"x y z\" AND `q` = ?",
        "execute": lambda n: com_stmt_execute(0, [(T_VAR_STRING, False, b"abc", b""), (T_LONG, False, 7, b"")], caps=caps, attrs=attrs),
        "long-data": lambda n: b"\x18" + struct.pack("<IH", 0, 0) + b"chunk",
        "fetch": lambda n: b"\x1c" + struct.pack("<II", 0, 5),
        "reset": lambda n: b"\x1a" + struct.pack("<I", 0),
        "close": lambda n: b"\x19" + struct.pack("<I", 0),
        "field-list": lambda n: b"\x04tbl\x00c%",
        "init-db": lambda n: b"\x02somedb",
        "change-user": lambda n: com_change_user(b"bob", scramble(b"pw", n), b"db2", caps=caps, attrs={b"a": b"b"}),
        "ping": lambda n: b"\x0e",
    }
    for pos, build in positions.items():
        base = build(b"n" * 20) if build else b"secret\x00"
        muts = mutations(rng, base, quick)
        if quick:
            keep = [m for m in muts if m[0].startswith("huge")]
            muts = rng.sample(muts, min(len(muts), 60)) + rng.sample(keep, min(len(keep), 25))
        for name, payload in muts:
            srv, ctl = server()
            wit = Peer(srv)
            await wit.greet()
            await wit.send(pkt(1, hs_response("bob", auth=scramble(b"pw", wit.greeting["nonce"]), caps=caps)))
            wit.take()
            a = Peer(srv)
            await a.greet()
            nonce = a.greeting["nonce"]
            cid = a.greeting["cid"]
            seq = 0
            if pos == "handshake":
                seq = 1
                if build and name.startswith(("trunc", "byte", "huge", "2^", "flip")) and False:
                    pass
            elif pos == "switch-reply":
                await a.send(pkt(1, hs_response("carl", auth=b"", caps=caps, plugin="mysql_native_password")))
                got = a.take()
                seq = (got[-1][0] + 1) if got else 2
            else:
                await a.send(pkt(1, hs_response("bob", auth=scramble(b"pw", nonce), caps=caps)))
                a.take()
                if pos in ("execute", "long-data", "fetch", "reset", "close"):
                    await a.cmd(b"\x16select ?, ? from t")
                    if pos == "fetch":
                        await a.cmd(com_stmt_execute(0, [(T_VAR_STRING, False, b"abc", b""), (T_LONG, False, 7, b"")], caps=caps, flags=1))
            if pos == "handshake" and build:
                # rebuild the mutation on the real nonce where possible: keep the mutated bytes as they are
                pass
            if pos not in ("handshake", "switch-reply") and rng.random() < 0.12:
                # the same packet under a sequence id the server does not expect: one ERR at most, and then the connection
                # is closed or still in step — the bytes of the rejected packet are never taken for further packets
                seq = rng.choice([1, 2, 7, 255])
                name = name + "+wrong-sequence-id"
                if rng.random() < 0.5:
                    payload = pkt(0, b"\x0e") + pkt(0, b"\x03select 1")      # a payload that itself looks like framed commands
                chk.count("conn:wrong-sequence-id")
            meter.start(120 * len(payload) + 20000)
            import time as _time
            t0 = _time.perf_counter()
            try:
                a.t.feed(pkt(seq, payload))
                await settle(25)
            except Budget:
                pass
            wall = _time.perf_counter() - t0
            used = meter.stop()
            out = a.take()
            chk.case((pos, payload), nontrivial=True,
                     sample=dict(position=pos, mutation=name, payload=hexs(payload)[:60], reply=[p[:6].hex() for _, p in out][:4], line_events=used, closed=a.done()) if rng.random() < 0.002 else None)
            chk.count("conn:" + pos)
            what = dict(position=pos, mutation=name, payload=hexs(payload), reply=[p[:12].hex() for _, p in out][:6])
            if meter.fired:
                chk.fail("packet handling exceeded its work budget (event loop blocked)", dict(what, line_events=used))
            elif wall > 0.75 + 1e-6 * len(payload):
                # work done outside Python source lines (e.g. inside the regex engine) is invisible to the line budget
                chk.fail("packet handling blocked the event loop (wall clock)", dict(what, seconds=round(wall, 2)))
            # the offender: ERR / well-formed reply and in step, or closed
            waiting = bool(out) and (out[-1][1][:1] == b"\x01" or (out[-1][1][:1] == b"\xfe" and len(out[-1][1]) >= 9))
            if waiting:
                chk.count("conn:exchange-continues")     # the server legitimately awaits the client's next auth packet
            elif not a.done() and pos not in ("handshake", "switch-reply"):
                errs = [p for _, p in out if p[:1] == b"\xff"]
                if len(errs) > 1:
                    chk.fail("more than one ERR for one packet", what)
                if len(out) > 1 and "wrong-sequence-id" in name:
                    chk.fail("a rejected packet's payload was executed as further commands", what)
                r = await a.cmd(b"\x0e")
                if not (len(r) == 1 and r[0][0] == 1 and r[0][1][:1] == b"\x00"):
                    chk.fail("offending connection is wedged / out of step after the packet", dict(what, ping_reply=[(q, p[:8].hex()) for q, p in r]))
            elif not a.done() and pos in ("handshake", "switch-reply"):
                # still in the connection phase (e.g. waiting for more bytes of a switch): must end when the client leaves
                pass
            # the witness and a newcomer are served
            r = await wit.cmd(b"\x0e", n=6)
            if not (len(r) == 1 and r[0][1][:1] == b"\x00"):
                chk.fail("witness connection not served after the packet", dict(what, witness_reply=[p[:8].hex() for _, p in r]))
            nw = Peer(srv)
            await nw.greet()
            await nw.send(pkt(1, hs_response("bob", auth=scramble(b"pw", nw.greeting["nonce"]), caps=caps)))
            ok1 = nw.take()
            r2 = await nw.cmd(com_query(b"select 1", caps=caps))
            if not (ok1 and ok1[-1][1][:1] == b"\x00" and r2 and r2[-1][1][:1] == b"\xfe"):
                chk.fail("a new connection is not fully served after the packet", dict(what, login=[p[:8].hex() for _, p in ok1], query=[p[:8].hex() for _, p in r2][:3]))
            # the offender leaves: cleanly, or abruptly without having read the reply
            if not a.done() and rng.random() < 0.5:
                a.t.reset_by_peer()
                await settle(10)
            await a.finish()
            await settle(5)
            if cid in ctl._connections:
                chk.fail("the offending connection's registration was not released", what)
            await wit.finish()
            await nw.finish()


def cost_probe(chk):
    """packet families of growing size in a subprocess with a hard timeout: every packet must be handled quickly"""
    import json
    import subprocess
    probe = os.path.join(os.path.dirname(os.path.abspath(__file__)), "..", "costprobe.py")
    lines = []
    timed_out = False
    try:
        p = subprocess.run([sys.executable, probe], capture_output=True, text=True, timeout=60)
        out = p.stdout
        if p.returncode != 0:
            chk.notes.append("cost probe exited with %d: %s" % (p.returncode, p.stderr[-300:]))
    except subprocess.TimeoutExpired as e:
        out = (e.stdout or b"").decode() if isinstance(e.stdout, bytes) else (e.stdout or "")
        timed_out = True
    for ln in out.split("\n"):
        if ln.startswith("{"):
            lines.append(json.loads(ln))
    done = [x for x in lines if "seconds" in x]
    for x in done:
        chk.case(("cost", x["family"], x["n"]))
        chk.count("cost-probe")
        if x["seconds"] > 0.75 + 1e-6 * len(x["payload"]):
            chk.fail("one packet blocked the event loop (cost grows out of proportion to its size)",
                     dict(family=x["family"], n=x["n"], payload=x["payload"][:200]), dict(seconds=x["seconds"]))
    if timed_out:
        last = done[-1] if done else None
        chk.fail("one packet blocked the event loop until the probe's hard timeout",
                 dict(after=last and dict(family=last["family"], n=last["n"]), note="the packet after this one never completed"), None)
    if not done and not timed_out:
        chk.fail("cost probe produced no measurements", dict(stderr=chk.notes[-1:] if chk.notes else None), None)


def main():
    chk = Check("C07", sys.argv[1:])
    chk.rule = ("every valid packet of every supported kind (handshake response x3 capability sets, SSL request, auth-switch reply, QUERY "
                "with attributes, PREPARE, EXECUTE with parameters + attributes, SEND_LONG_DATA, FETCH, RESET, CLOSE, FIELD_LIST, INIT_DB, "
                "CHANGE_USER, PING) mutated by truncation at every offset (every 2nd in quick), byte replacement with 0/1/250..255, length "
                "blow-ups (2^16, 2^24, 2^64-1) at every (sampled in quick) position, bit flips and random payloads. Every mutated packet is "
                "a distinct non-trivial case.")
    chk.assumptions = ["CPU work is measured in executed source lines of mysql_mimic (sys.monitoring), budget 120 lines/byte + 20000; work outside "
                       "Python source lines (the regex engine) by wall clock: packet families of growing size run in a subprocess with a hard timeout",
                       "the driver decodes utf-8 / latin-1 / ascii exactly; mutated collation bytes outside that set are skipped at the parser level"]
    chk.tie(["MimicProps.C07"])
    # the cost probe runs FIRST, in a subprocess with a hard timeout: a packet that blocks the interpreter (catastrophic
    # regex backtracking) would otherwise hang this process in the in-process parts below
    n_before = len(chk.failures)
    cost_probe(chk)
    if len(chk.failures) > n_before:
        chk.notes.append("the in-process parts were skipped: the cost probe found a packet that blocks the event loop")
        chk.finish()
        return
    chk.run_replays(["D7"])
    rng = random.Random(chk.seed)
    meter = Meter()
    quick = not chk.thorough
    try:
        lines, impl = parser_level(chk, rng, meter, quick)
        asyncio.run(connection_level(chk, rng, meter, quick))
    finally:
        meter.close()
    model = drive(lines)      # dict semantics of the connect attributes are part of the model (Packets.connectAttrs)
    chk.compare("real parsers vs Mimic.Packets / Mimic.Params on mutated payloads", lines, model, impl)
    chk.finish()


if __name__ == "__main__":
    from framework import guarded
    guarded("C07", main)
