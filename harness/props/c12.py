"""C12 — results stream lazily with back-pressure and without starving other clients.

Tie: (a) extraction of the buffer threshold, the batch size, and which loops over the application's row source are
wrapped in cooperative_iterate (theorem row_loops_cooperative is re-checked against the extracted table);
(b) correspondence of Mimic.Stream with the real connection over an in-memory transport that stops / resumes
accepting data on a schedule: rows pulled from an instrumented source at every transport write are compared with
the model's flush points (text protocol, binary protocol, cursor fetches; bounded and unbounded sources, every row
width class incl. rows wider than the buffer); (c) rows pulled by a streaming connection when a witness PING of a
second connection is answered are compared with Mimic.Stream.servedAt.

The property's own oracle runs on the implementation in every case: once the transport has asked to pause, at most
one more write and at most `bound` more rows; nothing is pulled while parked; look-ahead before every write is at
most `bound`; the witness is answered at most batch+1 rows after it arrived."""
import asyncio
import bisect
import inspect
import os
import random
import struct
import sys

sys.path.insert(0, os.path.join(os.path.dirname(os.path.abspath(__file__)), ".."))
from framework import Check, drive, guarded  # noqa: E402
from lib import (BASE, C, MemT, Peer, RecSession, mkserver, com_stmt_execute, decode_resultset, pkt, settle, split_packets,
                 lenenc, Bad)  # noqa: E402
from mysql_mimic import ResultColumn, ColumnType  # noqa: E402
from mysql_mimic import utils as mm_utils  # noqa: E402
from mysql_mimic.stream import MysqlStream  # noqa: E402
from mysql_mimic.packets import make_column_definition_41  # noqa: E402
from mysql_mimic.charset import CharacterSet  # noqa: E402

DEP = int(C.CLIENT_DEPRECATE_EOF)
BUF = inspect.signature(MysqlStream.__init__).parameters["buffer_size"].default
BATCH = inspect.signature(mm_utils.cooperative_iterate).parameters["batch_size"].default
BOUND = (BUF - 1) // 5 + 1  # rows pulled and not yet handed over, just before a flush (theorem rows_between_flushes)


class Overrun(Exception):
    pass


class Source:
    """instrumented row source: counts pulls, fires hooks, refuses to be drained without bound"""

    def __init__(self, widths, ncols, unbounded=False, asyncgen=False, hooks=None, nulls_until=None):
        self.widths = widths          # list of per-row width (None = NULL, int = string length); cycled if unbounded
        self.ncols = ncols
        self.unbounded = unbounded
        self.asyncgen = asyncgen
        self.hooks = hooks or {}
        self.pulled = 0
        self.done = False
        self.t = None
        self.stop = None              # reason the harness cut the source
        self.pulled_at_block = None

    def row(self, i):
        w = self.widths[i % len(self.widths)]
        first = None if w is None else "x" * w
        return (first,) + ("y",) * (self.ncols - 1)

    def payload_text(self, i):
        w = self.widths[i % len(self.widths)]
        return (1 if w is None else len(lenenc(w)) + w) + 2 * (self.ncols - 1)

    def payload_binary(self, i):
        w = self.widths[i % len(self.widths)]
        return 1 + (self.ncols + 9) // 8 + (0 if w is None else len(lenenc(w)) + w) + 2 * (self.ncols - 1)

    def _next(self, i):
        t = self.t
        if t is not None and t.blocked and t.pulled_at_block is not None and self.pulled - t.pulled_at_block > BOUND:
            self.stop = "pulled %d rows after the transport asked to pause" % (self.pulled - t.pulled_at_block)
            raise Overrun(self.stop)
        if t is not None and t.overrun:
            self.stop = t.overrun
            raise Overrun(self.stop)
        if self.pulled > 400000:
            self.stop = "hard cap"
            raise Overrun(self.stop)
        h = self.hooks.get(i)
        self.pulled += 1
        if h:
            h()
        return self.row(i)

    def iter(self):
        n = None if self.unbounded else len(self.widths)
        if self.asyncgen:
            async def ag():
                i = 0
                while n is None or i < n:
                    yield self._next(i)
                    i += 1
                self.done = True
            return ag()

        def g():
            i = 0
            while n is None or i < n:
                yield self._next(i)
                i += 1
            self.done = True
        return g()


class SchedT(MemT):
    """transport that stops accepting data after the writes whose index is in `block_at` (or after every write)"""

    def __init__(self, loop):
        super().__init__(loop)
        self.block_at = set()
        self.always = False
        self.src = None
        self.log = []          # (pulled, len(out) after the write) per write
        self.since_block = 0
        self.overrun = None
        self.pulled_at_block = None
        self.base = 0          # write index of the first write of the command under test
        self.base_len = 0      # len(out) when the command under test started

    def write(self, b):
        if self.blocked:
            self.since_block += 1
            if self.since_block > 1:
                self.overrun = "write #%d to a transport that asked to pause" % self.since_block
        idx = len(self.writes) - self.base
        super().write(b)
        self.log.append((self.src.pulled if self.src else 0, len(self.out) - self.base_len))
        if self.always or idx in self.block_at:
            self.block()

    def block(self):
        if not self.blocked:
            self.since_block = 0
            self.pulled_at_block = self.src.pulled if self.src else 0
        super().block()


class SPeer(Peer):
    def __init__(self, srv):
        loop = asyncio.get_running_loop()
        self.t = SchedT(loop)
        self.r = asyncio.StreamReader(loop=loop)
        self.p = asyncio.StreamReaderProtocol(self.r, loop=loop)
        self.t.set_protocol(self.p)
        self.p.connection_made(self.t)
        self.w = asyncio.StreamWriter(self.t, self.p, self.r, loop)
        self.task = asyncio.ensure_future(srv._client_connected_cb(self.r, self.w))
        self.pos = 0
        self.greeting = None
        self.caps = int(BASE)


class App(RecSession):
    src = None
    cols = None

    async def query(self, expression, sql, attrs):
        return self.src.iter(), self.cols


def typed_cols(ncols):
    return [ResultColumn("c%d" % i, ColumnType.VARCHAR) for i in range(ncols)]


def meta_bytes(ncols, caps):
    cs = CharacterSet.utf8mb4
    n = 4 + 1
    for i in range(ncols):
        n += 4 + len(make_column_definition_41(server_charset=cs, name="c%d" % i, column_type=ColumnType.VARCHAR, character_set=CharacterSet.utf8mb4))
    if not caps & DEP:
        n += 4 + 5
    return n


def dedupe(xs):
    out = []
    for x in xs:
        if not out or out[-1] != x:
            out.append(x)
    return out


WIDTH_CLASSES = [
    ("null", lambda r: None), ("empty", lambda r: 0), ("tiny", lambda r: r.randrange(1, 8)), ("small", lambda r: r.randrange(8, 250)),
    ("lenenc-edge", lambda r: r.choice([250, 251, 252, 255, 256])), ("kb", lambda r: r.randrange(1000, 9000)),
    ("near-buffer", lambda r: BUF - r.randrange(0, 12)), ("over-buffer", lambda r: BUF + r.randrange(0, 3000)), ("wide", lambda r: r.randrange(60000, 70000)),
]


def gen_widths(rng, big):
    """mostly homogeneous runs (so that buffers fill in different ways) + mixed"""
    mode = rng.choice(["one-class", "two-class", "mixed", "wide-only", "narrow-only", "narrow-only", "nulls"])
    if mode == "one-class":
        cls = [rng.choice(WIDTH_CLASSES)]
    elif mode == "two-class":
        cls = rng.sample(WIDTH_CLASSES, 2)
    elif mode == "wide-only":
        cls = WIDTH_CLASSES[6:]
    elif mode == "narrow-only":
        cls = WIDTH_CLASSES[:4]
    elif mode == "nulls":
        cls = WIDTH_CLASSES[:1]
    else:
        cls = WIDTH_CLASSES
    budget = (900000 if big else 300000)
    ws = []
    total = 0
    if mode in ("narrow-only", "nulls"):
        target_rows = rng.choice([700, 7000, 15000, 23000, 40000])
        budget *= 10
    else:
        target_rows = rng.choice([0, 1, 2, 5, 40, 700, 8000, 15000, 23000]) if not big else rng.choice([3, 700, 15000, 40000])
    while len(ws) < target_rows and total < budget:
        name, f = rng.choice(cls)
        w = f(rng)
        ws.append(w)
        total += 5 + (w or 0)
    return mode, ws


def gen_schedule(rng):
    k = rng.choice(["always", "always", "never", "some", "first", "late"])
    if k == "always":
        return k, None
    if k == "never":
        return k, set()
    if k == "first":
        return k, {0}
    if k == "late":
        return k, set(range(rng.randrange(1, 6), 400))
    return k, set(rng.sample(range(0, 60), rng.randrange(1, 20)))


async def stream_case(chk, rng, proto, caps, widths, ncols, sched, unbounded=False, asyncgen=False, cycles=None, preblocked=False):
    """one streamed response under a transport schedule; returns (model line(s), model expectation builder, impl observation)"""
    app = App()
    srv = mkserver([app])
    a = SPeer(srv)
    await a.login(caps=caps)
    a.take()
    src = Source(widths if widths else [0], ncols, unbounded=unbounded, asyncgen=asyncgen)
    if not widths and not unbounded:
        src.widths = []
    src.t = a.t
    app.src = src
    app.cols = typed_cols(ncols)
    a.t.src = src
    kind, at = sched
    n = None if unbounded else len(widths)

    async def pump(limit_cycles):
        """let the command run; every time the coroutine is parked on a blocked transport check the oracle and resume"""
        obs = []
        cyc = 0
        idle = 0
        rounds = 0
        while True:
            await settle(12)
            rounds += 1
            if rounds > 60000:
                return obs, "stalled"
            if a.t.overrun or src.stop:
                return obs, "overrun"
            if a.t.blocked:
                p0 = src.pulled
                await settle(25)
                if src.pulled != p0:
                    # still running although blocked: give it time to park (bounded by the Source guard)
                    continue
                obs.append(p0)
                cyc += 1
                if limit_cycles is not None and cyc >= limit_cycles:
                    return obs, "cut"
                a.t.unblock()
                idle = 0
            else:
                if src.done or a.done():
                    idle += 1
                    if idle >= 2:
                        return obs, "complete"
                elif not unbounded:
                    idle = 0
                else:
                    idle += 1
                    if idle > 2000:
                        return obs, "cut"

    def arm():
        a.t.base = len(a.t.writes)
        a.t.base_len = len(a.t.out)
        a.t.log = []
        a.t.always = kind == "always"
        a.t.block_at = at or set()
        if preblocked or kind == "always":
            a.t.block()

    sid = None
    off = 0
    fetches = []
    if proto == "text":
        arm()
        a.t.feed(pkt(0, b"\x03select a from t"))
        obs, how = await pump(cycles)
        segs = [("text", 0, n)]
    elif proto == "binary":
        out = await a.cmd(b"\x16select a from t")
        sid = struct.unpack_from("<I", out[0][1], 1)[0]
        arm()
        a.t.feed(pkt(0, com_stmt_execute(sid, [], caps=caps, flags=0)))
        obs, how = await pump(cycles)
        segs = [("binary", 0, n)]
    else:  # fetch
        out = await a.cmd(b"\x16select a from t")
        sid = struct.unpack_from("<I", out[0][1], 1)[0]
        await a.cmd(com_stmt_execute(sid, [], caps=caps, flags=1))
        if src.pulled != 0:
            chk.fail("rows pulled by an execute that only opens a cursor", dict(pulled=src.pulled, widths=len(widths)))
        segs = []
        obs = []
        how = "complete"
        nf = 0
        while True:
            nf += 1
            num = rng.choice([1, 2, 50, 3000, 9000, 30000]) if nf < 6 else 0xFFFFFFF
            arm()
            before = src.pulled
            a.t.feed(pkt(0, b"\x1c" + struct.pack("<II", sid, num)))
            o, how = await pump_fetch(a, src, cycles)
            obs.append(o)
            cnt = src.pulled - before
            segs.append(("fetch", off, num, list(a.t.log)))
            off += cnt
            if cnt < num or how != "complete" or a.done():
                break
        fetches = segs
    res = dict(obs=obs, how=how, log=list(a.t.log), pulled=src.pulled, stop=src.stop or a.t.overrun, n=n, segs=segs,
               out=bytes(a.t.out[a.pos:]) if not unbounded else b"", done=a.done())
    if a.t.blocked:
        a.t.always = False
        a.t.block_at = set()
        a.t.unblock()
    a.task.cancel()
    await settle(5)
    await a.finish()
    return res, src


async def pump_fetch(a, src, limit_cycles):
    obs = []
    cyc = 0
    idle = 0
    while True:
        await settle(12)
        if a.t.overrun or src.stop:
            return obs, "overrun"
        if a.t.blocked:
            p0 = src.pulled
            await settle(25)
            if src.pulled != p0:
                continue
            # parked, or the fetch is complete and the connection waits for the next command
            w0 = len(a.t.writes)
            obs.append(p0)
            cyc += 1
            if limit_cycles is not None and cyc >= limit_cycles:
                return obs, "cut"
            a.t.unblock()
            await settle(25)
            if len(a.t.writes) == w0 and src.pulled == p0:
                return obs, "complete"
            idle = 0
        else:
            p0, w0 = src.pulled, len(a.t.writes)
            await settle(25)
            if src.pulled == p0 and len(a.t.writes) == w0:
                idle += 1
                if idle >= 2:
                    return obs, "complete"
            else:
                idle = 0


def check_oracle(chk, desc, res, src, proto, caps):
    """the property on the implementation's observations of one case"""
    if res["stop"]:
        chk.fail("rows keep being pulled / written after the transport asked to pause (no back-pressure)",
                 desc, dict(reason=res["stop"], pulled=res["pulled"], writes=len(res["log"])))
        return False
    return True


def lookahead_oracle(chk, desc, log, sizes_bytes, meta, off_rows, pulled_base):
    """before every transport write: rows pulled − rows already handed to the transport ≤ BOUND.
    sizes_bytes: wire size of every row packet of this command in order; meta: bytes of other packets before them."""
    cum = []
    tot = meta
    for s in sizes_bytes:
        tot += s
        cum.append(tot)
    prev_len = 0
    worst = 0
    for pulled, outlen in log:
        handed = bisect.bisect_right(cum, prev_len)
        la = (pulled - pulled_base) - handed
        worst = max(worst, la)
        prev_len = outlen
    if worst > BOUND:
        chk.fail("look-ahead exceeds the bound", desc, dict(worst=worst, bound=BOUND))
    return worst


async def lookahead_cases(chk, rng, count, big):
    lines = []
    impl = []
    descs = []
    for i in range(count):
        proto = rng.choice(["text", "text", "binary", "fetch", "fetch"])
        caps = int(BASE) | (DEP if rng.random() < 0.5 else 0)
        ncols = rng.choice([1, 1, 2, 3])
        mode, widths = gen_widths(rng, big)
        if proto == "binary" and len(widths) > 4000:
            widths = widths[:4000]  # one transport write per row
        sched = gen_schedule(rng)
        asyncgen = rng.random() < 0.3
        desc = dict(proto=proto, dep=bool(caps & DEP), ncols=ncols, rows=len(widths), width_mode=mode, schedule=sched[0],
                    schedule_at=sorted(sched[1])[:20] if sched[1] else None, asyncgen=asyncgen,
                    widths_head=widths[:12], seed=chk.seed, case=i)
        res, src = await stream_case(chk, rng, proto, caps, widths, ncols, sched, asyncgen=asyncgen)
        chk.count("proto:" + proto)
        chk.count("schedule:" + sched[0])
        chk.count("width-mode:" + mode)
        chk.count("rows:" + ("0" if not widths else "<100" if len(widths) < 100 else "<10000" if len(widths) < 10000 else ">=10000"))
        chk.case((proto, mode, sched[0], len(widths), ncols), sample=desc if i < 3 else None)
        if not check_oracle(chk, desc, res, src, proto, caps):
            continue
        n = len(widths)
        if res["how"] != "complete" or (proto != "fetch" and res["pulled"] != n):
            chk.fail("response did not complete after the transport resumed", desc, dict(how=res["how"], pulled=res["pulled"], n=n, done=res["done"]))
            continue
        if proto == "text":
            sizes = [src.payload_text(j) for j in range(n)]
            mb = meta_bytes(ncols, caps)
            lines.append("strm flushes code %d %s" % (mb, ",".join(map(str, sizes)) or "-"))
            impl.append(",".join(map(str, dedupe([p for p, _ in res["log"]]))))
            descs.append(("text", desc, n))
            worst = lookahead_oracle(chk, desc, res["log"], [4 + s for s in sizes], mb, 0, 0)
            chk.count("lookahead-max-bucket:%d" % (worst // 1000 * 1000))
            # sanity: the client received exactly the rows
            try:
                rs = decode_resultset([p for _, p in split_packets(res["out"])], caps)
                if len(rs["rows"]) != n:
                    chk.fail("streamed result lost or duplicated rows", desc, dict(got=len(rs["rows"]), want=n))
            except (Bad, IndexError, struct.error) as e:
                chk.fail("streamed result undecodable", desc, repr(e))
            # parked observations = pulled at the preceding write (nothing pulled while the client does not read)
            seen = {p for p, _ in res["log"]}
            for o in res["obs"]:
                if o not in seen:
                    chk.fail("rows pulled while parked on a transport that does not accept data", desc, dict(observed=o))
        elif proto == "binary":
            sizes = [src.payload_binary(j) for j in range(n)]
            lines.append("strm flushes 1 0 %s" % (",".join(map(str, sizes)) or "-"))
            impl.append(",".join(map(str, dedupe([p for p, _ in res["log"]]))))
            descs.append(("binary", desc, n))
            mb = meta_bytes(ncols, caps)
            lookahead_oracle(chk, desc, res["log"], [4 + s for s in sizes], mb, 0, 0)
            # binary without cursor: a drain per row → at most one row ahead at any parked moment
            seen = {p for p, _ in res["log"]}
            for o in res["obs"]:
                if o not in seen:
                    chk.fail("rows pulled while parked on a transport that does not accept data", desc, dict(observed=o))
        else:
            for (_, off, num, log), o in zip(res["segs"], res["obs"]):
                rows = list(range(off, min(off + num, n)))
                sizes = [src.payload_binary(j) for j in rows]
                lines.append("strm flushes code 0 %s" % (",".join(map(str, sizes)) or "-"))
                impl.append(",".join(map(str, dedupe([p - off for p, _ in log]))))
                descs.append(("fetch", dict(desc, off=off, num=num), len(rows)))
                lookahead_oracle(chk, dict(desc, off=off, num=num), log, [4 + s for s in sizes], 0, off, off)
                seen = {p for p, _ in log}
                for x in o:
                    if x not in seen and x != off:
                        chk.fail("rows pulled while parked on a transport that does not accept data", dict(desc, off=off, num=num), dict(observed=x))
    out = drive(lines)
    # model line: "<flush points csv> pulled=<n> handed=<h>"  → expected deduped sequence of `pulled` at transport writes
    want = []
    for (proto, desc, n), m in zip(descs, out):
        fl = m.split(" ")[0]
        seq = [int(x) for x in fl.split(",") if x]
        if proto == "binary":
            seq = [0] + seq
        seq = dedupe(seq + [n])
        want.append(",".join(map(str, seq)))
    chk.compare("rows pulled at each transport write = model flush points", [d for _, d, _ in descs], want, impl)


async def unbounded_cases(chk, rng, count):
    """unbounded generators: the response never completes; run a number of stop/resume cycles and compare the pulled
    counts with the model's flush points over a long enough prefix"""
    lines, impl, descs = [], [], []
    for i in range(count):
        proto = rng.choice(["text", "binary", "fetch"])
        caps = int(BASE) | (DEP if rng.random() < 0.5 else 0)
        ncols = rng.choice([1, 2])
        cls = rng.choice([WIDTH_CLASSES[:4], WIDTH_CLASSES[6:], WIDTH_CLASSES, [WIDTH_CLASSES[0]], [WIDTH_CLASSES[7]]])
        pattern = [rng.choice(cls)[1](rng) for _ in range(rng.choice([1, 2, 7, 31]))]
        cycles = rng.choice([3, 5, 9]) if proto != "binary" else rng.choice([10, 40])
        desc = dict(proto=proto, dep=bool(caps & DEP), ncols=ncols, unbounded=True, pattern=pattern[:8], cycles=cycles, seed=chk.seed, case=i)
        chk.count("unbounded:" + proto)
        chk.case(("unb", proto, tuple(pattern[:4]), cycles))
        if proto == "fetch":
            # one huge fetch on an unbounded cursor, transport blocked after every write
            app = App()
            srv = mkserver([app])
            a = SPeer(srv)
            await a.login(caps=caps)
            src = Source(pattern, ncols, unbounded=True)
            src.t = a.t
            a.t.src = src
            app.src = src
            app.cols = typed_cols(ncols)
            out = await a.cmd(b"\x16select a from t")
            sid = struct.unpack_from("<I", out[0][1], 1)[0]
            await a.cmd(com_stmt_execute(sid, [], caps=caps, flags=1))
            a.t.base = len(a.t.writes)
            a.t.base_len = len(a.t.out)
            a.t.log = []
            a.t.always = True
            a.t.block()
            a.t.feed(pkt(0, b"\x1c" + struct.pack("<II", sid, 0xFFFFFFFF)))
            obs = []
            for _ in range(cycles):
                for _ in range(200):
                    await settle(15)
                    p0 = src.pulled
                    await settle(25)
                    if src.pulled == p0 or src.stop or a.t.overrun:
                        break
                if src.stop or a.t.overrun:
                    break
                obs.append(src.pulled)
                a.t.unblock()
            res = dict(stop=src.stop or a.t.overrun, pulled=src.pulled, log=list(a.t.log))
            a.t.always = False
            a.task.cancel()
            await settle(5)
            await a.finish()
            if res["stop"]:
                chk.fail("rows keep being pulled / written after the transport asked to pause (no back-pressure)", desc, res["stop"])
                continue
            k = src.pulled + 5
            sizes = [src.payload_binary(j) for j in range(k)]
            lines.append("strm flushes code 0 %s" % ",".join(map(str, sizes)))
            impl.append(",".join(map(str, obs)))
            descs.append((desc, len(obs), 0))
            continue
        res, src = await stream_case(chk, rng, proto, caps, pattern, ncols, ("always", None), unbounded=True, cycles=cycles)
        if res["stop"]:
            chk.fail("rows keep being pulled / written after the transport asked to pause (no back-pressure)", desc, res["stop"])
            continue
        k = res["pulled"] + 5
        if proto == "text":
            sizes = [src.payload_text(j) for j in range(k)]
            lines.append("strm flushes code %d %s" % (meta_bytes(ncols, caps), ",".join(map(str, sizes))))
            obs = res["obs"]
        else:
            sizes = [src.payload_binary(j) for j in range(k)]
            lines.append("strm flushes 1 0 %s" % ",".join(map(str, sizes)))
            obs = [o for o in dedupe(res["obs"]) if o != 0]
        impl.append(",".join(map(str, obs)))
        descs.append((desc, len(obs), 0))
        if any(b - a_ > BOUND for a_, b in zip([0] + obs, obs)):
            chk.fail("more rows than the bound pulled between two moments at which the transport did not accept data", desc, obs[:10])
    out = drive(lines)
    want = []
    for (desc, nobs, _), m in zip(descs, out):
        seq = [x for x in m.split(" ")[0].split(",") if x]
        want.append(",".join(seq[:nobs]))
    chk.compare("unbounded source: rows pulled at each stop = first model flush points", [d for d, _, _ in descs], want, impl)


class MultiApp(RecSession):
    """answers statement k of a multi-statement command from sources[k]"""
    sources = None
    cols = None

    async def query(self, expression, sql, attrs):
        k = self.n_calls = getattr(self, "n_calls", 0)
        self.n_calls = k + 1
        src = self.sources[min(k, len(self.sources) - 1)]
        return src.iter(), self.cols


async def multistatement_cases(chk, rng, count):
    """`stmt1; stmt2`: only the last statement's result is sent, so nothing is ever handed to the socket for an earlier
    one; its (possibly unbounded, never suspending) row source may not be pulled beyond the bound, and a PING of another
    connection sent with the command is answered"""
    for i in range(count):
        ncols = rng.choice([1, 2])
        nst = rng.choice([2, 3])
        unb = rng.random() < 0.5
        asyncgen = rng.random() < 0.5
        early = Source([rng.choice([1, 10, 200])], ncols, unbounded=True, asyncgen=asyncgen) if unb else \
            Source([rng.choice([1, 10, 200])] * rng.choice([BOUND + 50, 3 * BOUND]), ncols, asyncgen=asyncgen)
        last = Source([5] * rng.choice([0, 3]), ncols)
        app = MultiApp()
        app.sources = [early] * (nst - 1) + [last]
        app.cols = typed_cols(ncols)
        srv = mkserver([app, RecSession()])
        a, b = SPeer(srv), SPeer(srv)
        caps = int(BASE) | (DEP if rng.random() < 0.5 else 0)
        await a.login(caps=caps)
        await b.login()
        proto = rng.choice(["text", "binary"])
        sql = b"; ".join(b"select c from t%d" % j for j in range(nst))
        desc = dict(statements=nst, early_source=("unbounded " if unb else "%d rows " % len(early.widths)) + ("async generator" if asyncgen else "generator"),
                    proto=proto, seed=chk.seed, case=i)
        chk.count("multistatement:" + proto)
        chk.case(("multi", nst, unb, asyncgen, proto))
        if proto == "binary":
            out = await a.cmd(b"\x16" + sql)
            sid = struct.unpack_from("<I", out[0][1], 1)[0]
            a.t.feed(pkt(0, com_stmt_execute(sid, [], caps=caps)))
        else:
            a.t.feed(pkt(0, b"\x03" + sql))
        b.t.feed(pkt(0, b"\x0e"))
        for _ in range(60):
            await settle(20)
            if early.stop or a.task.done():
                break
            if len(a.t.out) > a.pos and last.done:
                break
        pong = b.take()
        if early.pulled > BOUND:
            chk.fail("rows of a statement whose result is never sent were pulled without bound", desc,
                     dict(pulled=early.pulled, bound=BOUND, stopped=early.stop))
        elif not pong:
            chk.fail("another connection's PING was not answered while a multi-statement command ran", desc, dict(pulled=early.pulled))
        for x in (a, b):
            x.task.cancel()
        await settle(5)
        await a.finish()
        await b.finish()


async def hinted_cases(chk, rng, count):
    """statements that pass through the session layer's own machinery before they reach the application — optimizer hints
    (`/*+ SET_VAR(...) */`), a leading comment, a trailing `;` — stream like any other: with a client that does not read,
    only a bounded number of rows is pulled, and another connection's PING is answered"""
    for i in range(count):
        ncols = 1
        asyncgen = rng.random() < 0.5
        src = Source([rng.choice([1, 10, 200])], ncols, unbounded=True, asyncgen=asyncgen)
        app = MultiApp()
        app.sources = [src]
        app.cols = typed_cols(ncols)
        srv = mkserver([app, RecSession()])
        a, b = SPeer(srv), SPeer(srv)
        caps = int(BASE) | (DEP if rng.random() < 0.5 else 0)
        await a.login(caps=caps)
        await b.login()
        sql = rng.choice([b"SELECT /*+ SET_VAR(max_execution_time=1000) */ c FROM t", b"SELECT /*+ SET_VAR(sql_mode='ANSI') SET_VAR(time_zone='+01:00') */ c FROM t",
                          b"/* trace-id 7 */ SELECT c FROM t", b"SELECT c FROM t;", b"SELECT /*+ MAX_EXECUTION_TIME(1000) */ c FROM t"])
        proto = rng.choice(["text", "binary"])
        desc = dict(sql=sql.decode(), source=("async generator" if asyncgen else "generator") + ", unbounded", proto=proto, seed=chk.seed, case=i)
        chk.count("hinted:" + proto)
        chk.case(("hinted", sql, asyncgen, proto))
        src.t = a.t
        a.t.src = src
        if proto == "binary":
            out = await a.cmd(b"\x16" + sql)
            sid = struct.unpack_from("<I", out[0][1], 1)[0]
            a.take()
            a.t.block()
            a.t.pulled_at_block = src.pulled
            a.t.feed(pkt(0, com_stmt_execute(sid, [], caps=caps)))
        else:
            a.t.block()
            a.t.pulled_at_block = src.pulled
            a.t.feed(pkt(0, b"\x03" + sql))
        b.t.feed(pkt(0, b"\x0e"))
        for _ in range(40):
            p0 = src.pulled
            await settle(20)
            if src.stop or a.task.done() or src.pulled == p0:
                break
        pong = b.take()
        if src.stop or src.pulled > 2 * BOUND + BATCH:
            chk.fail("rows pulled without bound while the client was not reading", desc, dict(pulled=src.pulled, bound=BOUND, stopped=src.stop))
        elif not pong:
            chk.fail("another connection's PING was not answered while the statement streamed", desc, dict(pulled=src.pulled))
        for x in (a, b):
            x.task.cancel()
        await settle(5)
        await a.finish()
        await b.finish()


async def fairness_cases(chk, rng, count):
    lines, impl, descs = [], [], []
    ks = [0, 1, BATCH - 1, BATCH, BATCH + 1, 2 * BATCH - 1, 2 * BATCH, 2 * BATCH + 1]
    for i in range(count):
        proto = ["text", "binary", "fetch", "text", "binary", "fetchpipe"][i % 6]
        caps = int(BASE) | (DEP if rng.random() < 0.5 else 0)
        n = rng.choice([2 * BATCH + 5000, 2 * BATCH + 1, 3 * BATCH, BATCH + 17, BATCH // 2])
        if proto == "fetchpipe":
            n = rng.choice([4 * BATCH, 3 * BATCH + 77])
        k = rng.choice(ks + [rng.randrange(0, n)]) % max(n, 1)
        off = 0
        app = App()
        wit = RecSession()
        srv = mkserver([app, wit])
        a = SPeer(srv)
        await a.login(caps=caps)
        b = SPeer(srv)
        await b.login(caps=caps)
        b.take()
        served = []
        src = Source([rng.choice([None, 0, 3])] * n, 1, asyncgen=rng.random() < 0.3)
        src.hooks = {k: lambda: b.t.feed(pkt(0, b"\x0e"))}
        orig = b.t.write

        def bw(data, orig=orig, src=src, served=served):
            served.append(src.pulled)
            orig(data)
        b.t.write = bw
        app.src = src
        app.cols = typed_cols(1)
        a.t.src = src
        if proto == "text":
            a.t.feed(pkt(0, b"\x03select a from t"))
        else:
            out = await a.cmd(b"\x16select a from t")
            sid = struct.unpack_from("<I", out[0][1], 1)[0]
            if proto == "binary":
                a.t.feed(pkt(0, com_stmt_execute(sid, [], caps=caps, flags=0)))
            else:
                await a.cmd(com_stmt_execute(sid, [], caps=caps, flags=1))
                off = rng.choice([0, 0, 1, 137, BATCH // 2]) if k > BATCH // 2 and proto == "fetch" else 0
                if off:
                    await a.cmd(b"\x1c" + struct.pack("<II", sid, off), n=80)
                if proto == "fetchpipe":
                    # the whole cursor asked for in small fetches that are all in the read buffer already: no read and no
                    # drain ever suspends, so only the row sources' own yielding lets other connections run
                    per = rng.choice([BATCH // 5, BATCH // 2 - 1, 1000, BATCH - 1])
                    a.t.feed(b"".join(pkt(0, b"\x1c" + struct.pack("<II", sid, per)) for _ in range(n // per + 2)))
                else:
                    a.t.feed(pkt(0, b"\x1c" + struct.pack("<II", sid, 0xFFFFFFF)))
        for _ in range(400):
            await settle(10)
            if src.done and served:
                break
        desc = dict(proto=proto, n=n, k=k, off=off, dep=bool(caps & DEP), asyncgen=src.asyncgen, seed=chk.seed, case=i)
        chk.count("fairness:" + proto)
        chk.case(("fair", proto, n, k, off))
        got = served[0] if served else -1
        okb = [p for _, p in b.take()]
        if not served or not okb or okb[0][:1] != b"\x00":
            chk.fail("witness PING of another connection never answered", desc, dict(served=served, packets=[p[:8].hex() for p in okb]))
        elif got > k + 1 + BATCH:
            chk.fail("another connection's command answered only after more than batch rows of the stream", desc, dict(served_at=got, arrived=k, batch=BATCH))
        if proto != "fetchpipe":
            lines.append("strm served code %d %d %d" % (n, off, k))
            impl.append(str(got))
            descs.append(desc)
        await a.finish()
        await b.finish()
    out = drive(lines)
    chk.compare("rows pulled when the witness is answered = servedAt", descs, out, impl)


async def inference_cases(chk, rng, count):
    """bare column names: rows peeked before the first byte is written"""
    lines, impl, descs = [], [], []
    for i in range(count):
        ncols = rng.choice([1, 2, 3])
        n = rng.randrange(1, 60)
        firsts = [rng.randrange(0, min(n, 40)) for _ in range(ncols)]
        rows = [tuple((None if r < firsts[c] else r) for c in range(ncols)) for r in range(n)]
        pulled = [0]

        def g():
            for r in rows:
                pulled[0] += 1
                yield r
        app = App()

        async def q(expression, sql, attrs, g=g):
            return g(), ["c%d" % j for j in range(ncols)]
        app.query = q
        srv = mkserver([app])
        a = SPeer(srv)
        await a.login()
        first_write = []
        orig = a.t.write

        def w(data, orig=orig):
            if not first_write:
                first_write.append(pulled[0])
            orig(data)
        out = await a.cmd(b"\x16select a from t")
        sid = struct.unpack_from("<I", out[0][1], 1)[0]
        a.t.write = w
        # binary protocol: the column count is drained at once, so the first transport write follows the inference directly
        await a.cmd(com_stmt_execute(sid, [], caps=int(BASE), flags=0), n=80)
        cells = " ".join("N" if v is None else "1" for r in rows for v in r)
        lines.append("res peek %s %d %s" % (",".join(map(str, range(ncols))), ncols, cells))
        impl.append(str(first_write[0] if first_write else -1))
        descs.append(dict(ncols=ncols, n=n, firsts=firsts))
        chk.count("inference")
        chk.case(("infer", ncols, n, tuple(firsts)))
        if first_write and first_write[0] > max(firsts) + 1:
            chk.fail("inference peeked past the row at which every column had shown a value", descs[-1], first_write[0])
        await a.finish()
    out = [m.split(" ")[0] for m in drive(lines)]
    chk.compare("rows peeked by inference before the first write", descs, out, impl)
    # known finding D12: a bare column that is NULL in every row → the whole source is read before anything is written
    for n in (BOUND * 3,):
        pulled = [0]

        def g2():
            for r in range(n):
                pulled[0] += 1
                yield (None, r)
        app = App()

        async def q2(expression, sql, attrs, g2=g2):
            return g2(), ["a", "b"]
        app.query = q2
        srv = mkserver([app])
        a = SPeer(srv)
        await a.login()
        a.t.always = True
        a.t.block()
        a.t.feed(pkt(0, b"\x03select a from t"))
        await settle(60)
        if pulled[0] > BOUND:
            chk.fail("type inference reads the whole source before handing anything to the transport", dict(n=n, pulled=pulled[0]),
                     scenario="inference-all-null-column")
        a.t.always = False
        a.t.unblock()
        a.task.cancel()
        await settle(5)
        await a.finish()


async def tls_cases(chk, rng, count):
    """the same contract on a connection that was upgraded to TLS (in-memory `ssl.MemoryBIO` client, `loop.start_tls`
    server): while the transport below the TLS layer refuses data, the number of rows pulled from the application's source
    stays bounded by the buffers in between (the stream's own threshold plus the TLS layer's write backlog limit),
    independently of the size of the result; after it accepts data again the complete result arrives, rows in order"""
    from tls import TlsPeer
    from mysql_mimic import ResultColumn, ColumnType
    from lib import RecSession
    LIMIT = 1536 * 1024          # stream threshold (32 KiB) + asyncio's TLS write backlog high-water mark (512 KiB), with slack
    for i in range(count):
        proto = rng.choice(["text", "binary"])
        width = rng.choice([300, 1000, 4000])
        nrows = (rng.choice([3, 5]) * 1024 * 1024) // width
        kind = rng.choice(["gen", "agen"])
        st = dict(pulled=0)

        def rows_sync():
            for k in range(nrows):
                st["pulled"] += 1
                yield ("%08d" % k + "x" * (width - 8),)

        async def rows_async():
            for k in range(nrows):
                st["pulled"] += 1
                yield ("%08d" % k + "x" * (width - 8),)
        sess = RecSession(behaviour=lambda se, e, sql, at: ((rows_sync() if kind == "gen" else rows_async()), [ResultColumn("a", ColumnType.VARCHAR)]))
        t = TlsPeer(sess)
        desc = dict(tls=True, proto=proto, rows=nrows, row_bytes=width, source=kind, seed=chk.seed, case=i)
        chk.count("tls:" + proto)
        chk.case(("tls", proto, width, nrows, kind))
        if not await t.login():
            chk.fail("login over TLS failed", desc)
            await t.a.finish()
            continue
        if proto == "binary":
            t.send(pkt(0, b"\x16select a from t"))
            await settle()
            t.recv()
        t.a.t.block()
        t.send(pkt(0, b"\x03select a from t") if proto == "text" else pkt(0, com_stmt_execute(0, [], caps=int(BASE))))
        last = -1
        for _ in range(400):
            await settle(30)
            if st["pulled"] == last:
                break
            last = st["pulled"]
        parked = st["pulled"]
        if parked * width > LIMIT:
            chk.fail("rows keep being pulled while the transport under the TLS layer refuses data (no back-pressure on a TLS connection)",
                     desc, dict(rows_pulled_while_blocked=parked, bytes=parked * width, bound_bytes=LIMIT, result_rows=nrows))
            await t.a.finish()
            continue
        # resume: the whole result arrives, in order
        t.a.t.unblock()
        plain = b""
        for _ in range(4000):
            await settle(30)
            d = t.recv()
            plain += d
            if not d and st["pulled"] >= nrows:
                await settle(60)
                plain += t.recv()
                break
        pk = [p for _, p in split_packets(plain)]
        try:
            rs = decode_resultset(pk, int(BASE))
            got = len(rs["rows"])
            ok = got == nrows and all((("%08d" % k).encode() in rs["rows"][k][:16]) for k in (0, 1, nrows // 2, nrows - 1))
            if not ok:
                chk.fail("result over TLS incomplete or out of order after the transport resumed", desc, dict(rows_received=got))
        except Exception as e:  # noqa
            chk.fail("result over TLS is not a well-formed result set after the transport resumed", desc, repr(e)[:200])
        await t.a.finish()


def main():
    chk = Check("C12", sys.argv[1:])
    chk.rule = ("pulled−handed ≤ (B−1)/5 at every point for every result size and widths (lookahead_bounded), nothing pulled while parked "
                "(blocked_pulls_nothing), a witness command is answered ≤ batch+1 rows after it arrived (served_within_batch), all row "
                "loops cooperative (row_loops_cooperative)")
    chk.tie(["MimicProps.C12"])
    rng = random.Random(chk.seed * 7919 + 12)
    loops = drive(["strm loops"])[0]
    chk.notes.append("extracted loops / drains: " + loops)
    big = chk.thorough

    async def go():
        await lookahead_cases(chk, rng, 400 if big else 36, big)
        await unbounded_cases(chk, rng, 120 if big else 12)
        await fairness_cases(chk, rng, 150 if big else 12)
        await inference_cases(chk, rng, 300 if big else 25)
        await multistatement_cases(chk, rng, 120 if big else 10)
        await hinted_cases(chk, rng, 120 if big else 10)
        await tls_cases(chk, rng, 24 if big else 3)
    asyncio.run(go())
    chk.assumptions = [
        "the transport is asyncio's flow-control contract (pause_writing/resume_writing → StreamWriter.drain); the OS socket buffer below it is not modelled",
        "rows are measured at the application's row source (generator pulls); row widths are wire sizes of the packets",
        "known finding D12: inference on bare column names peeks without bound for an all-NULL column (inference_lookahead_partial)",
    ]
    chk.finish()


if __name__ == "__main__":
    guarded("C12", main)
