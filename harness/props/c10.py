"""C10 — every initialised session is closed exactly once; every connection is released.

Tie: the L4 machine (Mimic.Conn, life-cycle invariant proved for every event history) vs the real server, event by event,
on a reference conversation (handshake, streamed query, prepared statement, open cursor, fetch) with one or two faults
injected at every event boundary: client EOF, transport loss, KILL CONNECTION / QUERY, an exception from each session
callback (init, handle_query, row source, use, reset, close), with the application call pending or the drain blocked.
Oracle-only enumerations on the implementation: disconnect after EVERY byte offset of the client stream and failure of
EVERY individual transport.write.  Oracle: close count == (1 iff init completed), close is the last session call,
the id left the registry, the transport is closed, no server task survives."""
import asyncio
import os
import random
import struct
import sys

sys.path.insert(0, os.path.join(os.path.dirname(os.path.abspath(__file__)), ".."))
from framework import Check, drive  # noqa: E402
from lib import BASE, C, Peer, pkt, hs_response, com_stmt_execute, settle, T_LONG  # noqa: E402
from connharness import Driven, plan_token, rows_token  # noqa: E402
from c03 import canon  # noqa: E402

REF = [
    # (classification kind, payload builder, ncols, plan, model token)
    ("query", lambda d: b"\x03select 1", 2, dict(callSusp=True, fail="none", ncols=2, rows=[("row", 1, False), ("row", 2, True), ("row", 3, False)]), None),
    ("simple", lambda d: b"\x02db", 0, None, "initdb 0"),
    ("prepare", lambda d: b"\x16select ? from t", 0, None, "prepare 1"),
    ("execute", lambda d: com_stmt_execute(0, [(T_LONG, False, 7, b"")], caps=d.caps, flags=1), 1,
     dict(callSusp=False, fail="none", ncols=1, rows=[("row", 10, False), ("row", 11, True), ("row", 12, False)]), None),
    ("fetch", lambda d: b"\x1c" + struct.pack("<II", 0, 2), 1, None, "fetch 1 1 2 r10,R11,r12"),
    ("execute", lambda d: com_stmt_execute(0, [(T_LONG, False, 7, b"")], caps=d.caps, flags=0), 1,
     dict(callSusp=True, fail="none", ncols=1, rows=[("row", 20, False), ("row", 21, False)]), None),
    ("simple", lambda d: b"\x1a" + struct.pack("<I", 0), 0, None, "reset 1"),
    ("simple", lambda d: b"\x01", 0, None, "quit"),
]


def tok_of(i, plan):
    k = REF[i]
    if k[4]:
        return k[4]
    if i == 0:
        return "query " + plan_token(plan)
    if i == 3:
        return "execute 1 1 " + plan_token(plan)
    return "execute 1 0 " + plan_token(plan)


def final_oracle(chk, d, what, tasks_before):
    s = d.sess
    cid = d.peer.greeting["cid"] if d.peer.greeting else None
    want = 1 if s.init_completed else 0
    problems = []
    if s.close_calls != want:
        problems.append("session.close called %d times, init completed=%s" % (s.close_calls, s.init_completed))
    if cid in d.ctl._connections:
        problems.append("connection still registered")
    if not d.peer.t.closed:
        problems.append("transport not closed")
    if not d.peer.task.done():
        problems.append("server task still running")
    names = [l[0] for l in s.log]
    left = [t for t in asyncio.all_tasks() if t not in tasks_before and not t.done()
            and getattr(t.get_coro(), "__qualname__", "").startswith(("Connection.", "MysqlServer."))]
    if left:
        problems.append("server task(s) left: %s" % [t.get_coro().__qualname__ for t in left])
    if problems:
        chk.fail("life-cycle violated: " + "; ".join(problems), what)


async def run(chk, rng, faults, lines, impl, login=("ok", False, False), close_fails=False, variant=None):
    """faults: dict boundary -> event name ('eof','lose','killc','killq','block')"""
    tasks_before = set(asyncio.all_tasks())
    dep = bool(variant and variant.get("dep"))
    d = Driven(dep)
    d.sess.close_fails = close_fails
    lines.append("conn new")
    impl.append(await d.start())
    if close_fails:
        lines.append("conn closefails 1")
        impl.append("ok")
    nev = [0]
    dead_input = [False]     # no more client packets can be delivered (EOF fed / transport lost)

    async def boundary():
        ev = faults.get(nev[0])
        nev[0] += 1
        if ev and not d.peer.done():
            if ev in ("killc", "killq"):
                lines.append("conn " + ev)
                impl.append(await d.event(ev))
                lines.append("conn deliver")
                impl.append(await d.event("deliver"))
            else:
                lines.append("conn " + ev)
                impl.append(await d.event(ev))
                if ev in ("eof", "lose"):
                    dead_input[0] = True

    async def drain_pending():
        guard = 0
        while not d.peer.done() and guard < 80:
            guard += 1
            if d.sess.pending:
                lines.append("conn resume")
                impl.append(await d.event("resume"))
            elif d.peer.t.blocked:
                lines.append("conn unblock")
                impl.append(await d.event("unblock"))
            else:
                break
            await boundary()

    await boundary()
    mode, isusp, ifails = login
    lines.append("conn login %s" % (mode if mode != "ok" else "ok %d %d" % (isusp, ifails)))
    impl.append(await d.login(mode, isusp, ifails))
    await boundary()
    await drain_pending()
    for i, (cls, build, ncols, plan, _) in enumerate(REF):
        if d.peer.done() or dead_input[0]:
            break
        p = dict(plan) if plan else None
        if p and variant and variant.get("fail_at") == i:
            p["fail"] = variant["fail_kind"]
            if variant["fail_kind"] == "boom":
                p["fail"] = "none"
                p["rows"] = p["rows"][:1] + [("boom", False)]
        if variant and variant.get("use_fails") and i == 1:
            d.sess.use_fails = True
        tok = tok_of(i, p) if i != 1 else "initdb %d" % (1 if d.sess.use_fails else 0)
        if i == 4 and p is None and variant and variant.get("fail_at") == 3:
            # the cursor of the failed execute does not exist
            tok = "fetch 1 0 2 -" if variant["fail_kind"] != "boom" else "fetch 1 1 2 r10,b"
        lines.append("conn cmd %d %s" % (1 if dep else 0, tok))
        impl.append(await d.command(cls, build(d), ncols, p))
        await boundary()
        await drain_pending()
        d.cur = None
    # end of the client's conversation: make sure the connection ends, then judge
    if not d.peer.done():
        if d.sess.pending or d.peer.t.blocked:
            await drain_pending()
        if not d.peer.done() and not dead_input[0]:
            lines.append("conn eof")
            impl.append(await d.event("eof"))
            await drain_pending()
    await settle(10)
    final_oracle(chk, d, dict(faults={str(k): v for k, v in faults.items()}, login=login, close_fails=close_fails, variant=variant), tasks_before)
    await d.finish()
    return nev[0]


async def byte_offsets(chk, rng, quick):
    """oracle only: disconnect after every byte offset of the client's stream"""
    from connharness import PlanSession
    d0 = Driven(False)
    stream = pkt(1, hs_response("u", caps=d0.caps)) + pkt(0, b"\x03select 1") + pkt(0, b"\x16select ? from t") + \
        pkt(0, com_stmt_execute(0, [(T_LONG, False, 7, b"")], caps=d0.caps, flags=1)) + pkt(0, b"\x1c" + struct.pack("<II", 0, 1)) + pkt(0, b"\x0e")
    offs = range(0, len(stream) + 1) if not quick else list(range(0, len(stream) + 1, 3)) + [len(stream)]
    for off in offs:
        tasks_before = set(asyncio.all_tasks())
        d = Driven(False)
        await d.start()
        d.sess.plan = dict(callSusp=False, fail="none", ncols=1, rows=[("row", 1, False), ("row", 2, False)], sync=True)
        d.peer.t.feed(stream[:off])
        await settle(30)
        if not d.peer.t.closed:
            d.peer.t.feed_eof()
        await settle(30)
        chk.case(("byteoff", off), nontrivial=True)
        chk.count("disconnect-after-byte")
        final_oracle(chk, d, dict(disconnect_after_byte=off, of=len(stream)), tasks_before)
        await d.finish()


async def write_faults(chk, rng):
    """oracle only: failure of every individual transport.write of the reference conversation"""
    k = 0
    while k < 60:
        tasks_before = set(asyncio.all_tasks())
        d = Driven(False)
        await d.start()
        d.peer.t.fail_write_at = k
        d.sess.plan = dict(callSusp=False, fail="none", ncols=1, rows=[("row", 1, False), ("row", 2, False)], sync=True)
        n_before = len(d.peer.t.writes)
        for payload in [None, b"\x03select 1", b"\x16select ? from t", com_stmt_execute(0, [(T_LONG, False, 7, b"")], caps=d.caps, flags=0), b"\x0e"]:
            if d.peer.done() or d.peer.t.closed:
                break
            if payload is None:
                await d.peer.send(pkt(1, hs_response("u", caps=d.caps)))
            else:
                await d.peer.send(pkt(0, payload))
        total = len(d.peer.t.writes)
        if not d.peer.t.closed:
            d.peer.t.feed_eof()
        await settle(30)
        chk.case(("writefault", k), nontrivial=True)
        chk.count("write-fault")
        final_oracle(chk, d, dict(failed_transport_write_index=k), tasks_before)
        await d.finish()
        if k >= total:
            break
        k += 1


def main():
    chk = Check("C10", sys.argv[1:])
    chk.rule = ("reference conversation (handshake, streamed query with pending application call and awaiting row source, INIT_DB, "
                "prepare, cursor-opening execute, fetch, plain execute, reset, quit) with ONE fault at EVERY event boundary (client EOF, "
                "transport loss, KILL CONNECTION, KILL QUERY, transport blocked) + sampled PAIRS of faults, x login variants (init "
                "suspends / raises, denied, unknown user, malformed), x callback failures (handle_query generic / MysqlError, row source, "
                "use, close); oracle-only: disconnect after every byte offset, failure of every transport.write. Every case distinct.")
    chk.assumptions = ["A1-A4 (asyncio) of DESIGN.md", "session.close is awaited without suspension in the model"]
    chk.tie(["MimicProps.C10"])
    rng = random.Random(chk.seed)
    lines, impl = [], []
    T = chk.thorough

    async def go():
        logins = [("ok", False, False), ("ok", True, False), ("ok", False, True), ("ok", True, True), ("denied", False, False),
                  ("unknown", False, False), ("malformed", False, False)]
        variants = [None, dict(dep=True), dict(fail_at=0, fail_kind="generic"), dict(fail_at=0, fail_kind="mysql"), dict(fail_at=0, fail_kind="boom"),
                    dict(fail_at=3, fail_kind="generic"), dict(fail_at=5, fail_kind="boom"), dict(use_fails=True)]
        # baseline runs of every login / variant / close_fails
        for lg in logins:
            for cf in (False, True):
                nb = await run(chk, rng, {}, lines, impl, login=lg, close_fails=cf)
                chk.case(("base", lg, cf), nontrivial=True)
                # single faults at every boundary
                evs = ["eof", "lose", "killc", "killq", "block"]
                for k in range(nb):
                    for ev in evs:
                        if (lg[0] != "ok" or cf) and not T and rng.random() < 0.6:
                            continue
                        await run(chk, rng, {k: ev}, lines, impl, login=lg, close_fails=cf)
                        chk.case(("fault", lg, cf, k, ev), nontrivial=True,
                                 sample=dict(login=lg, close_fails=cf, fault=ev, at_boundary=k, last_reports=impl[-2:]) if rng.random() < 0.003 else None)
                        chk.count("fault:" + ev)
        for v in variants[1:]:
            nb = await run(chk, rng, {}, lines, impl, variant=v)
            chk.case(("variant", str(v)), nontrivial=True)
            for k in range(nb):
                for ev in ("eof", "lose", "killc"):
                    if not T and rng.random() < 0.5:
                        continue
                    await run(chk, rng, {k: ev}, lines, impl, variant=v)
                    chk.case(("vfault", str(v), k, ev), nontrivial=True)
                    chk.count("variant-fault:" + ev)
        # pairs
        nb = await run(chk, rng, {}, lines, impl)
        pairs = [(a, ea, b, eb) for a in range(nb) for b in range(a + 1, nb) for ea in ("block", "killq", "eof") for eb in ("eof", "lose", "killc")]
        rng.shuffle(pairs)
        for a, ea, b, eb in pairs[: (150 if not T else 4000)]:
            await run(chk, rng, {a: ea, b: eb}, lines, impl)
            chk.case(("pair", a, ea, b, eb), nontrivial=True)
            chk.count("pair")
        await byte_offsets(chk, rng, quick=not T)
        await write_faults(chk, rng)

    asyncio.run(go())
    model = [canon(x) for x in drive(lines)]
    chk.compare("server under faults vs Mimic.Conn", lines, model, [canon(x) for x in impl])
    chk.finish()


if __name__ == "__main__":
    from framework import guarded
    guarded("C10", main)
