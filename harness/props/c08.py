"""C08 — connections do not interfere: each behaves as if it were alone.

Tie: (a) the shared-state audit extracted from the whole package on every run (module-level and class-level mutable
objects, stores into them, attribute stores of the objects shared between connections) — theorem shared_state_audit;
(b) correspondence of the multi-connection model (Mimic.Server.runInter over the driver's per-connection step) with a
real server: K in {2,3,4} connections, each with its own program of SET / SET NAMES / reads / SHOW VARIABLES /
prepare / execute with and without cursor / fetch / reset / close / COM_INIT_DB / long data / queries whose
application call completes later, their packets interleaved at event-loop-iteration granularity, in-flight application
calls released in random order, transports that stop and resume accepting data; every response of every connection
is compared with the model's `@i` transcript.

The property's own oracle: every connection's byte-exact output in the interleaved run equals the output of the same
program run alone on a fresh server.  Overlapping handshakes on shared plugin objects are included."""
import asyncio
import os
import random
import re
import struct
import sys

sys.path.insert(0, os.path.join(os.path.dirname(os.path.abspath(__file__)), ".."))
sys.path.insert(0, os.path.dirname(os.path.abspath(__file__)))
from framework import Check, drive, guarded  # noqa: E402
from lib import (BASE, C, Peer, mkserver, com_stmt_execute, decode_resultset, decode_text_row, parse_err, pkt, settle, split_packets,
                 hs_response, scramble, Bad, T_LONG)  # noqa: E402
from mysql_mimic import Session, MysqlServer, ResultColumn, ColumnType, User  # noqa: E402
from mysql_mimic.auth import NativePasswordAuthPlugin, IdentityProvider  # noqa: E402
import c11  # noqa: E402
import c14  # noqa: E402

DEP = int(C.CLIENT_DEPRECATE_EOF)
PSQL = b"SELECT a FROM t WHERE base = ? AND n = ? AND boom = ? AND src = ? AND fail = ?"
COLS = [ResultColumn("a", ColumnType.LONGLONG)]


class App(Session):
    """each connection's own application: statement behaviour is read from the (interpolated) SQL text"""

    def __init__(self):
        super().__init__()
        self.gates = {}
        self.uses = []

    async def use(self, database):
        self.uses.append(database)
        await super().use(database)

    async def schema(self):
        # a catalog per tenant: what one connection can list is its own user's
        return {"tenant_%s" % self.username: {"t_%s" % self.username: {"a": "INT"}}}

    async def query(self, expression, sql, attrs):
        m = re.search(r"base = (\d+) AND n = (\d+) AND boom = (\d+) AND src = (\d+) AND fail = (\d+)", sql)
        if m:
            base, n, boom, src, fail = map(int, m.groups())
            if fail:
                raise RuntimeError("application failure")
            rows = [(base + i,) for i in range(n)]
            if src == 0 and not boom:
                return rows, COLS
            if src == 2:
                async def ag():
                    for k, r in enumerate(rows):
                        if k % 3 == 2:
                            await asyncio.sleep(0)
                        yield r
                    if boom:
                        raise RuntimeError("row source failure")
                return ag(), COLS

            def g():
                yield from rows
                if boom:
                    raise RuntimeError("row source failure")
            return g(), COLS
        m = re.search(r"slow(\d+)", sql)
        if m:
            ev = self.gates.setdefault(int(m.group(1)), asyncio.Event())
            await ev.wait()
            return [(int(m.group(1)), self.database, self.variables.get("sql_mode"))], ["k", "db", "mode"]
        m = re.search(r"AS 'U([0-9A-F]{4})'", sql)
        if m:
            # the column is named by the statement itself, so its definition packet depends on this connection's results set
            return [(1,)], [chr(int(m.group(1), 16))]
        return [(1, self.database)], ["a", "db"]


class SharedIDP(IdentityProvider):
    """plugin objects shared by all connections (as most applications' providers do)"""

    def __init__(self):
        self.plugins = [NativePasswordAuthPlugin()]

    def get_plugins(self):
        return self.plugins

    async def get_user(self, name):
        return User(name=name, auth_string=NativePasswordAuthPlugin.create_auth_string("pw-" + name), auth_plugin="mysql_native_password")


def gen_program(rng, cid):
    """a connection's program: list of (kind, packet payload bytes or None, model line or None, meta)"""
    prog = []
    nst = 0
    slow = 0
    base = 1000 * cid
    for _ in range(rng.randrange(6, 16)):
        r = rng.random()
        if r < 0.28:
            sql, ml = c14.gen_set(rng)
            prog.append(("set", b"\x03" + sql.encode(), ml, sql))
        elif r < 0.31:
            # the same SET text on several connections, whose meaning depends on each connection's own state
            v1, v2, vals = rng.choice([
                ("character_set_results", "character_set_connection", ["latin1", "utf8", "ascii", "cp1251"]),
                ("sql_mode", "default_storage_engine", ["e1", "e2", "e3", "e4"]),
                ("init_connect", "sql_mode", ["m1", "m2", "m3", "m4"]),
                ("collation_connection", "collation_database", ["c1", "c2", "c3", "c4"]),
                ("max_execution_time", "net_buffer_length", ["11", "22", "33", "44"]),
            ])
            mine = vals[cid % len(vals)]
            lit = mine if mine.isdigit() else "'%s'" % mine
            tok = ("i" + mine) if mine.isdigit() else ("s" + mine.encode().hex())
            prog.append(("set", ("SET %s = %s" % (v2, lit)).encode().join([b"\x03", b""]), "var set V|S|%s|%s" % (v2, tok), "SET %s = %s" % (v2, lit)))
            prog.append(("set", ("SET %s = @@%s" % (v1, v2)).encode().join([b"\x03", b""]), "var set R|%s|%s" % (v1, v2), "SET %s = @@%s" % (v1, v2)))
            prog.append(("get", b"\x03" + ("SELECT @@%s" % v1).encode(), "var get " + v1, v1, mine))
        elif r < 0.335:
            # the same keyword in another letter case: ON / OFF / DEFAULT are values, on / off / default are rejected as
            # complex expressions; what one connection sent must not change what another one's spelling means
            var = rng.choice(["autocommit", "sql_auto_is_null", "transaction_read_only"])
            kw, tok = rng.choice([("OFF", "F"), ("ON", "T"), ("DEFAULT", "D")])
            if cid % 2:
                kw, tok = kw.lower(), "X"
            prog.append(("set", ("SET %s = %s" % (var, kw)).encode().join([b"\x03", b""]), "var set V|S|%s|%s" % (var, tok), "SET %s = %s" % (var, kw),
                         "err:notSupported" if tok == "X" else "ok"))
            prog.append(("get", b"\x03" + ("SELECT @@%s" % var).encode(), "var get " + var, var))
        elif r < 0.36:
            nm = c14.gen_name(rng)
            prog.append(("get", b"\x03" + ("SELECT @@%s" % nm).encode(), "var get " + nm, nm))
        elif r < 0.46:
            prog.append(("list", b"\x03SHOW VARIABLES", "var list", None))
        elif r < 0.54:
            prog.append(("prepare", b"\x16" + PSQL, "cur prepare", None))
            nst += 1
        elif r < 0.68 and nst:
            sid = rng.randrange(0, nst + 1)
            n = rng.choice([0, 1, 2, 3, 5, 8])
            fail = rng.random() < 0.1
            boom = rng.random() < 0.15
            src = rng.choice([0, 1, 2])
            cur = 1 if rng.random() < 0.75 else 0
            params = [(T_LONG, False, base, b""), (T_LONG, False, n, b""), (T_LONG, False, 1 if boom else 0, b""), (T_LONG, False, src, b""),
                      (T_LONG, False, 1 if fail else 0, b"")]
            ml = "cur exec %d %d fail" % (sid, cur) if fail else "cur exec %d %d %d %d %d" % (sid, cur, base, n, 1 if boom else 0)
            prog.append(("exec", ("exec", sid, cur, params), ml, None))
            base += 100
        elif r < 0.82 and nst:
            sid = rng.randrange(0, nst + 1)
            n = rng.choice([0, 1, 2, 3, 4, 9])
            prog.append(("fetch", b"\x1c" + struct.pack("<II", sid, n), "cur fetch %d %d" % (sid, n), None))
        elif r < 0.86 and nst:
            sid = rng.randrange(0, nst + 1)
            prog.append(("rst", b"\x1a" + struct.pack("<I", sid), "cur rst %d" % sid, None))
        elif r < 0.89 and nst:
            sid = rng.randrange(0, nst + 1)
            prog.append(("close", b"\x19" + struct.pack("<I", sid), "cur close %d" % sid, None))
        elif r < 0.94:
            db = rng.choice(["db1", "db2", "app%d" % cid])
            prog.append(("initdb", b"\x02" + db.encode(), None, db))
        elif r < 0.97:
            slow += 1
            prog.append(("slow", b"\x03" + ("SELECT k FROM slow%d" % (cid * 100 + slow)).encode(), None, cid * 100 + slow))
        elif r < 0.985:
            prog.append(("query", b"\x03SELECT a FROM plain", None, None))
        if rng.random() < 0.12:
            # back to the DEFAULT character set (the same for every connection, whatever anybody logged in with), then a
            # literal with bytes above 0x7F answered by the library: what comes back shows which set decoded it
            sql, ml = rng.choice([("SET NAMES DEFAULT", "var set N|*|*"), ("SET character_set_client = DEFAULT", "var set V|S|character_set_client|D"),
                                  ("SET CHARACTER SET DEFAULT", "var set C|*")])
            prog.append(("set", b"\x03" + sql.encode(), ml, sql))
        if rng.random() < 0.15:
            prog.append(("query", b"\x03SELECT '\xc3\xa9'", None, None))
        if rng.random() < 0.2:
            # listings with no rows or a NULL value: what they are made of must not leak into anybody's later listing
            prog.append(("query", rng.choice([b"\x03SHOW STATUS", b"\x03SHOW VARIABLES LIKE 'no_such_variable'", b"\x03SHOW VARIABLES LIKE 'sql_select_limit'",
                                               b"\x03SHOW WARNINGS"]), None, None))
        if rng.random() < 0.3:
            # the catalog is the application's answer for THIS connection's user (absolute oracle, see below)
            prog.append(rng.choice([("dbs", b"\x03SHOW DATABASES", None, None), ("tables", b"\x03SELECT table_name FROM information_schema.tables WHERE table_schema <> 'information_schema'", None, None)]))
        if rng.random() < 0.3:
            # this connection's own results character set, then a column whose NAME (declared by the application as the text
            # U+00E9) has a byte above 0x7F: the definition the client gets is encoded for THIS connection -- an oracle that
            # needs no second run, so state surviving in the process between runs cannot hide behind the solo comparison
            cs = rng.choice(["latin1", "cp850", "utf8mb4", "latin1", "utf8mb4"])
            prog.append(("set", ("SET character_set_results = '%s'" % cs).encode().join([b"\x03", b""]),
                         "var set V|S|character_set_results|s%s" % cs.encode().hex(), "SET character_set_results = '%s'" % cs))
            prog.append(("colname", b"\x03SELECT a AS 'U00E9' FROM named", None, cs))
        if rng.random() < 0.25:
            # text protocol over a row source that suspends between rows: the response is half written (buffered) while
            # other connections run
            n = rng.choice([3, 4, 6, 9])
            prog.append(("aquery", ("SELECT a FROM t WHERE base = %d AND n = %d AND boom = 0 AND src = 2 AND fail = 0" % (base, n)).encode().join([b"\x03", b""]), None, None))
            base += 100
    return prog


def payload_of(step, caps):
    kind, p = step[0], step[1]
    if kind == "exec":
        _, sid, cur, params = p
        return com_stmt_execute(sid, params, caps=caps, flags=cur)
    return p


def split_responses(raw):
    """server bytes of one connection after login → list of responses (a response starts with sequence id 1)"""
    out = []
    for seq, p in split_packets(raw):
        if seq == 1 or not out:
            out.append([])
        out[-1].append((seq, p))
    return out


LOGIN_CHARSETS = [(255, "utf8mb4"), (8, "latin1"), (255, "utf8mb4"), (51, "cp1251")]      # two connections share a client set


def login_charset(user):
    """each user logs in with its own collation (a function of the user, so that the run alone logs in the same way)"""
    return LOGIN_CHARSETS[int(user[4:]) % len(LOGIN_CHARSETS)]


async def login_all(srv_apps, rng, capslist, users, overlapping=True):
    """handshakes of all connections, interleaved: greet all, then answer in random order"""
    idp = SharedIDP()
    it = iter(srv_apps)
    srv = MysqlServer(session_factory=lambda: next(it), identity_provider=idp)
    peers = []
    for caps in capslist:
        a = Peer(srv)
        peers.append(a)
        if not overlapping:
            await a.greet()
    if overlapping:
        await settle()
        for a in peers:
            g = a.take()
            from lib import parse_greeting
            a.greeting = parse_greeting(g[0][1])
    order = list(range(len(peers)))
    rng.shuffle(order)
    oks = {}
    for i in order:
        a = peers[i]
        caps = capslist[i]
        a.caps = int(caps) & a.greeting["caps"]
        user = users[i]
        resp = scramble(("pw-" + user).encode(), a.greeting["nonce"])
        a.t.feed(pkt(1, hs_response(user, auth=resp, caps=caps, charset=login_charset(user)[0])))
        if rng.random() < 0.5:
            await settle(rng.randrange(0, 4))
    await settle()
    for i, a in enumerate(peers):
        out = a.take()
        oks[i] = bool(out) and out[0][1][:1] == b"\x00" and not a.done()
    return srv, peers, oks


async def run_interleaved(chk, rng, progs, capslist, users):
    """returns per-connection raw output bytes after login, and login results"""
    apps = [App() for _ in progs]
    srv, peers, oks = await login_all(apps, rng, capslist, users)
    pos = [0] * len(progs)
    released = set()
    while True:
        live = [i for i in range(len(progs)) if pos[i] < len(progs[i]) and oks[i] and not peers[i].done()]
        if not live:
            break
        i = rng.choice(live)
        step = progs[i][pos[i]]
        pos[i] += 1
        peers[i].t.feed(pkt(0, payload_of(step, peers[i].caps)))
        r = rng.random()
        if r < 0.5:
            await settle(rng.randrange(0, 4))
        # release an in-flight application call of a random connection
        if rng.random() < 0.3:
            cands = [(j, k) for j, ap in enumerate(apps) for k, ev in ap.gates.items() if not ev.is_set()]
            if cands:
                j, k = rng.choice(cands)
                apps[j].gates[k].set()
        # a transport stops / resumes accepting data
        if rng.random() < 0.15:
            j = rng.randrange(len(peers))
            if peers[j].t.blocked:
                peers[j].t.unblock()
            else:
                peers[j].t.block()
    # drain: release everything, resume everything
    for _ in range(60):
        await settle(10)
        for ap in apps:
            for ev in ap.gates.values():
                ev.set()
        for a in peers:
            if a.t.blocked:
                a.t.unblock()
    outs = [bytes(a.t.out[a.pos:]) for a in peers]
    uses = [list(ap.uses) for ap in apps]
    for a in peers:
        await a.finish()
    return outs, oks, uses


def classify_step(step, resp, caps):
    """canonical string comparable with the model's answer for this step"""
    kind = step[0]
    pk = [p for _, p in resp]
    if kind == "set":
        if pk and pk[0][:1] == b"\xff":
            return c14.ERRCLASS.get(parse_err(pk[0])[0], "err:?")
        return "ok" if pk and pk[0][:1] == b"\x00" else "?"
    if kind in ("get", "list"):
        if pk and pk[0][:1] == b"\xff":
            return c14.ERRCLASS.get(parse_err(pk[0])[0], "err:?")
        rs = decode_resultset(pk, caps)
        rows = [[None if c is None else c.decode() for c in decode_text_row(r, len(rs["cols"]))] for r in rs["rows"]]
        if kind == "get":
            return ("val", rows[0][0])
        return ("list", {r[0]: r[1] for r in rows})
    if kind == "prepare":
        return str(struct.unpack_from("<I", pk[0], 1)[0]) if pk and pk[0][:1] == b"\x00" else "err"
    if kind in ("exec", "fetch", "rst", "close"):
        return c11.classify(resp, caps, {"exec": "exec", "fetch": "fetch", "rst": "rst", "close": "close"}[kind])
    return None


def model_step(step, m):
    kind = step[0]
    if kind == "get":
        return m if m.startswith("err:") else ("val", c14.model_sel(m))
    if kind == "list":
        d = {}
        for kv in m.split(";"):
            k, v = kv.split("=", 1)
            d[k] = c14.model_str(v)
        return ("list", d)
    return m


CASES = {}


def fresh_solo(prog, caps, user, seed):
    """the raw output of `prog` run alone on a server in a NEW interpreter (nothing left behind by earlier connections)"""
    import pickle
    import subprocess
    job = pickle.dumps(dict(prog=prog, caps=caps, user=user, seed=seed)).hex()
    try:
        r = subprocess.run([sys.executable, os.path.abspath(__file__), "--fresh-solo"], input=job, capture_output=True, text=True, timeout=120)
        return bytes.fromhex(r.stdout.strip().splitlines()[-1])
    except (subprocess.SubprocessError, ValueError, IndexError):
        return None


def fresh_main():
    import pickle
    job = pickle.loads(bytes.fromhex(sys.stdin.read().strip()))
    prog = job["prog"]

    class Quiet:
        seed = 0

        def fail(self, *a, **k):
            pass

        def count(self, *a, **k):
            pass
    outs, _, _ = asyncio.run(run_interleaved(Quiet(), random.Random(job["seed"]), [prog], [job["caps"]], [job["user"]]))
    print(bytes(outs[0]).hex())


async def equal_but_different_values(chk):
    """values that compare equal in Python but are different values (0.0 / -0.0, 1 / 1.0 / True) bound by different connections in
    every order: the statement the application receives for an execution carries the literal of the value THAT connection sent
    -- an absolute oracle (a memo of rendered parameters keyed by == would hand one connection another one's rendering)"""
    from lib import RawSession, T_DOUBLE, T_LONGLONG, T_TINY
    vals = [(T_DOUBLE, 0.0, "0.0"), (T_DOUBLE, -0.0, "-0.0"), (T_LONGLONG, 1, "1"), (T_DOUBLE, 1.0, "1.0"), (T_LONGLONG, 0, "0"), (T_TINY, 1, "1")]
    import itertools
    for order in list(itertools.permutations(range(4), 2)) + [(1, 0), (3, 2), (4, 0), (0, 4)]:
        sa, sb = RawSession(), RawSession()
        srv = mkserver([sa, sb])
        a, b = Peer(srv), Peer(srv)
        await a.login(caps=int(BASE) & ~(1 << 27))
        await b.login(caps=int(BASE) & ~(1 << 27))
        ids = []
        for p_ in (a, b):
            o = await p_.cmd(b"\x16SELECT ?")
            ids.append(struct.unpack_from("<I", o[0][1], 1)[0])
        plan = [(a, sa, ids[0], order[0]), (b, sb, ids[1], order[1]), (a, sa, ids[0], order[1]), (b, sb, ids[1], order[0])]
        for who, (peer, sess, sid, vi) in enumerate(plan):
            t, v, lit = vals[vi]
            before = len(sess.log)
            await peer.cmd(com_stmt_execute(sid, [(t, False, v, b"")], caps=int(BASE) & ~(1 << 27)), n=30)
            got = [l[1] for l in sess.log[before:] if l[0] == "hq"]
            chk.count("bind equal-but-different values")
            if got != ["SELECT " + lit]:
                chk.fail("the literal bound for a parameter is not the one of the value this connection sent (values that compare equal, bound by different connections)",
                         dict(connection="AB"[who % 2], bound=repr(v), executions_so_far=[repr(vals[x[3]][1]) for x in plan[:who]]),
                         dict(received=got[:1], expected="SELECT " + lit))
        chk.case(("equal-values", order))
        await a.finish()
        await b.finish()


async def case(chk, rng, idx):
    K = rng.choice([2, 2, 3, 4])
    progs = [gen_program(rng, i + 1) for i in range(K)]
    capslist = [int(BASE) | (DEP if rng.random() < 0.5 else 0) for _ in range(K)]
    seed_inter = rng.randrange(1 << 30)
    users = ["user%d" % i for i in range(K)]
    outs, oks, uses = await run_interleaved(chk, random.Random(seed_inter), progs, capslist, users)
    CASES[idx] = (progs, capslist, users, seed_inter, outs)
    desc = dict(case=idx, seed=chk.seed, K=K, schedule_seed=seed_inter,
                programs=[[(s[0], s[3] if s[0] in ("set", "get", "initdb", "slow", "colname") else (s[2] or "")) for s in p] for p in progs])
    chk.count("K=%d" % K)
    if not all(oks.values()):
        chk.fail("a connection's handshake failed while others were in progress", desc, oks)
        return [], [], []
    lines, impl, descs = [], [], []
    for i in range(K):
        # oracle: the same program alone on a fresh server
        solo_out, solo_ok, solo_uses = await run_interleaved(chk, random.Random(seed_inter + 1 + i), [progs[i]], [capslist[i]], [users[i]])
        if solo_out[0] != outs[i]:
            ra, rb = split_responses(outs[i]), split_responses(solo_out[0])
            k = next((j for j in range(min(len(ra), len(rb))) if ra[j] != rb[j]), min(len(ra), len(rb)))
            chk.fail("a connection's responses differ from those of the same program run alone", dict(desc, connection=i),
                     dict(first_differing_response=k, interleaved=[p[:24].hex() for _, p in (ra[k] if k < len(ra) else [])][:4],
                          alone=[p[:24].hex() for _, p in (rb[k] if k < len(rb) else [])][:4]))
        if solo_uses[0] != uses[i]:
            chk.fail("a connection's application observed different database selections than alone", dict(desc, connection=i), dict(inter=uses[i], alone=solo_uses[0]))
        # model transcript
        resps = split_responses(outs[i])
        j = 0
        lines.append("@%d var reset" % (idx * 8 + i + 1))
        impl.append("ok")
        descs.append(dict(desc, connection=i, step="reset"))
        lines.append("@%d var force external_user s%s" % (idx * 8 + i + 1, ("user%d" % i).encode().hex()))
        impl.append("ok")
        descs.append(dict(desc, connection=i, step="user"))
        lines.append("@%d var set V|S|character_set_client|s%s" % (idx * 8 + i + 1, login_charset("user%d" % i)[1].encode().hex()))
        impl.append("ok")
        descs.append(dict(desc, connection=i, step="login charset"))
        lines.append("@%d cur reset" % (idx * 8 + i + 1))
        impl.append("ok")
        descs.append(dict(desc, connection=i, step="cur reset"))
        for step in progs[i]:
            kind = step[0]
            has_resp = kind not in ("close",)
            resp = None
            if has_resp:
                if j < len(resps):
                    resp = resps[j]
                    j += 1
                else:
                    chk.fail("a command got no response", dict(desc, connection=i, step=kind), None)
                    break
            chk.count("step:" + kind)
            if kind in ("dbs", "tables"):
                try:
                    rs = decode_resultset([p for _, p in resp or []], capslist[i])
                    names = sorted(decode_text_row(r, len(rs["cols"]))[0].decode() for r in rs["rows"])
                except (Bad, IndexError, struct.error, KeyError, AttributeError) as e:
                    names = "undecodable:%r" % (e,)
                # of the names only applications declare (tenant_* databases, t_user* tables), exactly this user's
                want_names = ["tenant_user%d" % i] if kind == "dbs" else ["t_user%d" % i]
                if isinstance(names, list):
                    names = [n for n in names if n.startswith("tenant_" if kind == "dbs" else "t_user")]
                if names != want_names:
                    chk.fail("a connection's catalog lists something other than its own application's schema",
                             dict(desc, connection=i, statement="SHOW DATABASES" if kind == "dbs" else "SELECT table_name FROM information_schema.tables ..."),
                             dict(got=names, want=want_names))
            if kind == "colname":
                try:
                    name = decode_resultset([p for _, p in resp or []], capslist[i])["cols"][0]["name"]
                except (Bad, IndexError, struct.error, KeyError) as e:
                    name = "undecodable:%r" % (e,)
                want_name = "\u00e9".encode({"latin1": "latin-1", "cp850": "cp850", "utf8mb4": "utf-8"}[step[3]])
                if name != want_name:
                    chk.fail("a column name was not encoded in the connection's own character_set_results",
                             dict(desc, connection=i, statement="SET character_set_results = '%s'; SELECT a AS <U+00E9> FROM named" % step[3]),
                             dict(got=name.hex() if isinstance(name, bytes) else name, want=want_name.hex()))
            if step[2] is None:
                continue
            try:
                got = classify_step(step, resp or [], capslist[i])
            except (Bad, IndexError, struct.error, KeyError) as e:
                got = "undecodable:%r" % (e,)
            if kind == "get" and len(step) > 4 and got != ("val", step[4]):
                # by construction this connection has just copied its own value of the referenced variable
                chk.fail("a connection read a variable value that stems from another connection's state",
                         dict(desc, connection=i, statement="SELECT @@%s after SET ... = @@..." % step[3]), dict(got=got, own_value=step[4]))
            if kind == "set" and len(step) > 4 and got != step[4]:
                # the meaning of this statement is fixed by its own text (a keyword in exactly this letter case); alone the
                # connection gets step[4]
                chk.fail("the outcome of a statement depends on what other connections executed before",
                         dict(desc, connection=i, statement=step[3]), dict(got=got, alone=step[4]))
            lines.append("@%d %s" % (idx * 8 + i + 1, step[2]))
            impl.append((step, got))
            descs.append(dict(desc, connection=i, step=(kind, step[3] if kind in ("set", "get") else step[2])))
        chk.case((tuple(s[0] for s in progs[i]), K))
    return lines, impl, descs


def main():
    chk = Check("C08", sys.argv[1:])
    chk.rule = ("for every per-connection step function and every interleaving, connection i's transcript = its solo transcript "
                "(projection_eq_solo, instantiated with the driver's step: driver_connections_independent); the package has no other state two "
                "connections can reach (shared_state_audit over the extracted inventory)")
    chk.tie(["MimicProps.C08"])
    rng = random.Random(chk.seed * 86028121 + 8)
    ncases = 1500 if chk.thorough else 45

    async def go():
        await equal_but_different_values(chk)
        L, I, D = [], [], []
        for idx in range(ncases):
            lines, impl, descs = await case(chk, rng, idx)
            L += lines
            I += impl
            D += descs
        out = drive(L)
        want, got = [], []
        for m, im in zip(out, I):
            if isinstance(im, tuple):
                step, g = im
                want.append(model_step(step, m))
                got.append(g)
            else:
                want.append(m)
                got.append(im)
        chk.compare("every connection's responses in the interleaved run = the model's own transcript for that connection", D, want, got)
        # failing-input search where model and implementation disagree: the same program alone on a server in a fresh
        # interpreter -- state that survives in the process from connection to connection cannot hide behind that comparison
        seen = set()
        for d_, w_, g_ in zip(D, want, got):
            if w_ != g_ and isinstance(d_, dict) and (d_.get("case"), d_.get("connection")) not in seen and len(seen) < 6:
                seen.add((d_["case"], d_["connection"]))
                progs, capslist, users, seed_inter, outs = CASES[d_["case"]]
                i = d_["connection"]
                alone = fresh_solo(progs[i], capslist[i], users[i], seed_inter + 1 + i)
                chk.count("fresh-process replay")
                if alone is not None and alone != bytes(outs[i]):
                    ra, rb = split_responses(outs[i]), split_responses(alone)
                    k = next((j for j in range(min(len(ra), len(rb))) if ra[j] != rb[j]), min(len(ra), len(rb)))
                    chk.fail("a connection's responses differ from those of the same program run alone on a server in a fresh process",
                             dict({x: d_[x] for x in ("case", "seed", "K", "schedule_seed", "programs", "connection")}),
                             dict(first_differing_response=k, here=[p[:24].hex() for _, p in (ra[k] if k < len(ra) else [])][:4],
                                  fresh=[p[:24].hex() for _, p in (rb[k] if k < len(rb) else [])][:4]))
    asyncio.run(go())
    chk.assumptions = [
        "each connection has its own application session object (the property is about the library, not about an application that shares one object)",
        "interleaving granularity is the event-loop iteration: packets of different connections, completion order of in-flight application calls, "
        "transports that stop / resume accepting data; preemption inside one iteration does not exist in asyncio",
        "KILL statements are excluded (C09)",
    ]
    chk.finish()


if __name__ == "__main__":
    if sys.argv[1:2] == ["--fresh-solo"]:
        fresh_main()
    else:
        guarded("C08", main)
