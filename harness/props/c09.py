"""C09 — KILL QUERY spares the connection; KILL CONNECTION ends exactly the target.

Tie: the L4 machine (Mimic.Conn) vs the real Connection, event by event, on target programs covering every command
kind with the application call and the socket drain pending or not, with one or two kills (QUERY / CONNECTION through
the Control API — which is what a KILL statement on another connection calls — or a KILL statement on the target
itself) injected at every event boundary.  Oracle: a QUERY kill never ends the connection and never produces a
packet outside a response; the command in flight ends with exactly one ERR; afterwards PING is answered in step;
a CONNECTION kill ends the target with its session closed once; the killer gets exactly one response."""
import asyncio
import os
import random
import struct
import sys

sys.path.insert(0, os.path.join(os.path.dirname(os.path.abspath(__file__)), ".."))
from framework import Check, drive  # noqa: E402
from lib import settle  # noqa: E402
from connharness import Driven, plan_token  # noqa: E402
from c03 import Prog, canon, gen_plan  # noqa: E402


def make_program(rng):
    """a list of (block_before, command-generator-seed) — commands are generated lazily against the driven connection"""
    return [dict(block=rng.random() < 0.3, seed=rng.randrange(1 << 30), selfkill=rng.choice([None] * 8 + ["q", "c"])) for _ in range(rng.randrange(1, 5))]


async def run(chk, program, dep, kills, lines, impl, oracle=True):
    """kills: dict boundary_index -> 'q' | 'c'.  Returns number of boundaries."""
    d = Driven(dep)
    lines.append("conn new")
    impl.append(await d.start())
    lines.append("conn login ok 0 0")
    impl.append(await d.login("ok"))
    nev = [0]
    expect_alive = [True]
    unsolicited = []
    killed_q_during = []

    async def boundary():
        # kills addressed to ids that name NO live connection but resemble the target's (same sequence number under another
        # server-id prefix, the bare sequence number, one bit off): they must change nothing, at any point
        cid = d.peer.greeting["cid"] if d.peer.greeting else None
        if cid is not None and nev[0] % 2 == 0:
            from mysql_mimic.constants import KillKind
            for bad in {(cid + 65536) & 0xFFFFFFFF, (cid - 65536) & 0xFFFFFFFF, cid & 0xFFFF, cid ^ 0x10000, cid ^ 0x80000000} - {cid}:
                await d.ctl.kill(bad, KillKind.QUERY if (nev[0] // 2) % 2 == 0 else KillKind.CONNECTION)
            await settle(3)
        k = kills.get(nev[0])
        nev[0] += 1
        if k:
            before_open = not d.peer.done()
            in_flight = d.cur is not None
            for one in k:           # "q", "c", or back-to-back "cq" / "qc" / "qq" / "cc" without the target running in between
                lines.append("conn kill" + one)
                impl.append(await d.event("kill" + one))
            lines.append("conn deliver")
            r = await d.event("deliver")
            impl.append(r)
            if "c" in k and before_open:
                expect_alive[0] = False
            if k in ("q", "qq") and before_open and d.peer.done():
                chk.fail("KILL QUERY ended the connection", dict(program=trace, kills=kills, deprecate_eof=dep))
            if not in_flight and r.split(" ")[0] not in ("-", "err:skilled") and before_open:
                unsolicited.append(r)

    trace = []
    resp = []          # per command: tokens written from its issue until the next command
    mark = [len(impl)]

    def close_resp():
        toks = []
        for r in impl[mark[0]:]:
            f = r.split(" ")[0]
            if f != "-":
                toks += f.split(",")
        resp.append(toks)

    for step in program:
        if d.peer.done():
            break
        prog = Prog(random.Random(step["seed"]), d)
        prog.stmts = getattr(d, "_stmts", {})
        prog.next_sid = getattr(d, "_next_sid", 0)
        cls, payload, ncols, plan, tok = prog.next()
        if step["selfkill"] and (cls == "query" or step.get("force")):
            cls, ncols = "query", 0
            plan = dict(callSusp=bool(plan and plan.get("callSusp")) and not step.get("force"), fail="none", ncols=0, rows=[], selfKill=step["selfkill"])
            tok = "query " + plan_token(plan)
            payload = b"\x03KILL 1"
            if step["selfkill"] == "c":
                expect_alive[0] = False
        if tok == "changeuser 0":
            expect_alive[0] = False       # a denied COM_CHANGE_USER ends the connection by design (C01)
        d._stmts, d._next_sid = prog.stmts, prog.next_sid
        trace.append(("block " if step["block"] else "") + tok)
        mark[0] = len(impl)
        if step["block"]:
            lines.append("conn block")
            impl.append(await d.event("block"))
            await boundary()
        lines.append("conn cmd %d %s" % (1 if dep else 0, tok))
        impl.append(await d.command(cls if cls != "none" else "simple", payload, ncols, plan))
        await boundary()
        guard = 0
        while not d.peer.done() and guard < 60:
            guard += 1
            if d.sess.pending:
                lines.append("conn resume")
                impl.append(await d.event("resume"))
            elif d.peer.t.blocked:
                lines.append("conn unblock")
                impl.append(await d.event("unblock"))
            else:
                break
            await boundary()
        if d.peer.t.blocked and not d.peer.done():
            lines.append("conn unblock")
            impl.append(await d.event("unblock"))
        # the command is over
        close_resp()
        d.cur = None
        if oracle and not kills and step["selfkill"] == "q" and tok.startswith("query") and "selfKill" in (plan or {}) and resp[-1] != ["ok"]:
            chk.fail("the issuing connection did not get exactly one response (OK) to its own KILL QUERY statement",
                     dict(program=trace, deprecate_eof=dep, transport_blocked=step["block"]), dict(response=resp[-1]))
    nb = nev[0]
    if oracle:
        await settle(10)
        extra = d.peer.take()
        if extra and not d.peer.done():
            unsolicited.append([p[:8].hex() for _, p in extra])
        if unsolicited:
            chk.fail("unsolicited packet (outside any response)", dict(program=trace, kills=kills, packets=unsolicited[:3]))
        only_q = all(set(v) == {"q"} for v in kills.values())
        if expect_alive[0] and only_q:
            if d.peer.done():
                chk.fail("connection ended although only KILL QUERY was issued", dict(program=trace, kills=kills, deprecate_eof=dep))
            else:
                d.cur = ("simple", 0, 1)
                d.cur_pkts = []
                out = await d.peer.cmd(b"\x0e")
                if not (len(out) == 1 and out[0][0] == 1 and out[0][1][:1] == b"\x00"):
                    chk.fail("connection not usable / not in step after KILL QUERY", dict(program=trace, kills=kills, ping_reply=[(q, p[:8].hex()) for q, p in out]))
        if any("c" in v for v in kills.values()):
            if not d.peer.done() and any(k < nb for k, v in kills.items() if "c" in v):
                chk.fail("KILL CONNECTION did not end the target", dict(program=trace, kills=kills))
        if d.peer.done() and d.sess.init_completed and d.sess.close_calls != 1:
            chk.fail("session closed %d times" % d.sess.close_calls, dict(program=trace, kills=kills))
    await d.finish()
    return nb, trace, resp


def known_d9d(model_line, impl_line):
    return False


def main():
    chk = Check("C09", sys.argv[1:])
    chk.rule = ("target programs of 1-4 commands over the whole command set (application call pending or not, awaiting row sources, "
                "transport blocked or not) x one kill at EVERY event boundary (QUERY and CONNECTION) + sampled pairs of kills + KILL "
                "statements aimed at the issuing connection itself. A case = (program, kill placement); every case distinct.")
    chk.assumptions = ["a KILL statement on another connection reaches the target through Control.kill (exercised directly)", "A1-A4 (asyncio) of DESIGN.md"]
    chk.tie(["MimicProps.C09"])
    chk.run_replays(["D9a", "D9b", "D9c", "D9d"])
    rng = random.Random(chk.seed)
    lines, impl = [], []
    flagged_final_drain = []

    async def go():
        nprog = 80 if not chk.thorough else 1200
        # always there, whatever the random stream gives: a KILL aimed at the issuing connection itself, with its transport
        # accepting data or not while the statement's own OK is written, followed by an ordinary command
        fixed = [([dict(block=b, seed=17 + n, selfkill=k, force=True), dict(block=False, seed=99 + n, selfkill=None)], dep)
                 for n, (b, k, dep) in enumerate([(b, k, dep) for b in (False, True) for k in ("q", "c") for dep in (False, True)])]
        for pi in range(-len(fixed), nprog):
            if pi < 0:
                program, dep = fixed[pi + len(fixed)]
            else:
                program = make_program(rng)
                dep = rng.random() < 0.5
            l0, i0 = [], []
            nb, trace, base_resp = await run(chk, program, dep, {}, l0, i0)
            lines.extend(l0)
            impl.extend(i0)
            chk.case(("base", pi, tuple(trace)), nontrivial=False)
            placements = [({k: kind}) for k in range(nb) for kind in ("q", "c")]
            placements += [({k: kind}) for k in range(nb) for kind in ("cq", "qc", "qq")]
            pairs = [({a: ka, b: kb}) for a in range(nb) for b in range(a, nb) for ka in "qc" for kb in "qc" if a != b]
            rng.shuffle(pairs)
            placements += pairs[: (6 if not chk.thorough else 60)]
            for kills in placements:
                l1, i1 = [], []
                _, _, kresp = await run(chk, program, dep, kills, l1, i1)
                # oracle: every response under kills is a prefix of the undisturbed response closed by the kill's ERR(s)
                for ci, toks in enumerate(kresp):
                    if ci >= len(base_resp):
                        break           # a kill aborted the command that ended the undisturbed run: nothing to compare with
                    body = list(toks)
                    while body and body[-1] in ("err:qkilled", "err:skilled"):
                        body.pop()
                    if len(toks) - len(body) > 2 or body != base_resp[ci][: len(body)]:
                        chk.fail("response under kill is not a prefix of the undisturbed response closed by one ERR per kill",
                                 dict(program=trace, deprecate_eof=dep, kills={str(k): v for k, v in kills.items()}, command=ci,
                                      undisturbed=base_resp[ci][:30], got=toks[:30]))
                        break
                lines.extend(l1)
                impl.extend(i1)
                chk.case(("kill", pi, tuple(sorted(kills.items()))), nontrivial=True,
                         sample=dict(program=trace, deprecate_eof=dep, kills={str(k): v for k, v in kills.items()}, reports=i1[-3:]) if rng.random() < 0.002 else None)
                chk.count("kills:%d" % len(kills))
                for v in kills.values():
                    chk.count("kind:" + v)

    asyncio.run(go())
    # kills that land in the middle of a stream larger than the write buffer, while the client is not reading: every await
    # inside MysqlStream.write / drain is a place where the cancellation can arrive; the response must still be a prefix
    # closed by one ERR, in step (shared with C03: harness/props/c03.py interrupted_streams)
    from c03 import interrupted_streams
    asyncio.run(interrupted_streams(chk, rng, 30 if not chk.thorough else 300, kill_only=True))
    model = [canon(x) for x in drive(lines)]
    implc = [canon(x) for x in impl]
    # known finding D9d: a KILL QUERY landing while the drain of the response's final packet is blocked appends an ERR
    # after the complete response. The model mirrors the code, so this shows up in both; the oracle flags it here.
    prev = ""
    for ln, out in zip(lines, implc):
        if ln == "conn deliver" and out.startswith("err:qkilled") and prev_complete(prev):
            chk.fail("ERR appended after a complete response", dict(event=ln, before=prev, after=out), scenario="kill-query-during-final-drain")
        if ln.startswith("conn cmd") or ln in ("conn resume", "conn unblock", "conn block"):
            prev = out if not out.startswith("-") else prev
    chk.compare("Connection under kills vs Mimic.Conn", lines, model, implc)
    chk.finish()


def prev_complete(tokens_line):
    toks = tokens_line.split(" ")[0].split(",")
    last = toks[-1]
    return last == "ok" or last.startswith("t") or last.startswith("p") or last.startswith("err")


if __name__ == "__main__":
    from framework import guarded
    guarded("C09", main)
