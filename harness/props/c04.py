"""C04 — packet framing is lossless for every payload size and every stream segmentation.

Tie: Extracted/Stream.lean (packet-size literals, header read method, buffer size, sequence modulus) +
correspondence of Mimic.Framing with the real MysqlStream over a real asyncio.StreamReader:
  (a) read side, random packet trains (good and bad sequence ids) under random segmentations — per-chunk events and
      reader state — with the real constant and with the class re-compiled from the *current* source with the
      packet-size literal replaced by a small m (so that multi-packet payloads and their boundaries are cheap);
  (b) write side, payload lengths around every multiple of m / M; content checked by independent reassembly;
  (c) a reference conversation against the real server cut at every 1-cut and sampled/exhaustive 2-cuts;
  (d) the same over in-memory TLS (known finding D4b for ClientHello coalesced with the SSLRequest)."""
import ast
import asyncio
import inspect
import os
import random
import struct
import sys
import types

sys.path.insert(0, os.path.join(os.path.dirname(os.path.abspath(__file__)), ".."))
from framework import Check, drive, hexs  # noqa: E402
from lib import (BASE, C, M, Peer, RecSession, mkserver, pkt, hs_response, com_stmt_execute, settle, split_packets,
                 T_VAR_STRING)  # noqa: E402

import mysql_mimic.stream as real_stream  # noqa: E402
from mysql_mimic.errors import MysqlError  # noqa: E402
from mysql_mimic import ResultColumn, ColumnType  # noqa: E402


def stream_class(m=None):
    """The real MysqlStream, or the class compiled from the current stream.py with the packet-size literal := m."""
    if m is None:
        return real_stream.MysqlStream
    src = inspect.getsource(real_stream)
    tree = ast.parse(src)

    class T(ast.NodeTransformer):
        def visit_BinOp(self, node):
            if isinstance(node.op, ast.BitAnd):
                return node  # header masks stay
            return self.generic_visit(node)

        def visit_Constant(self, node):
            if isinstance(node.value, int) and not isinstance(node.value, bool) and node.value == M:
                return ast.copy_location(ast.Constant(m), node)
            return node

    tree = T().visit(tree)
    ast.fix_missing_locations(tree)
    mod = types.ModuleType("stream_small_%d" % m)
    mod.__dict__["__name__"] = "mysql_mimic.stream"
    exec(compile(tree, real_stream.__file__, "exec"), mod.__dict__)
    return mod.MysqlStream


class FW:
    def __init__(self):
        self.out = bytearray()
        self.transport = None

    def write(self, b):
        self.out += bytes(b)

    async def drain(self):
        pass


def raw_pkt(seq, payload):
    return struct.pack("<I", len(payload))[:3] + bytes([seq & 0xFF]) + payload


def cut(rng, data, mode):
    if not data:
        return [data]
    if mode == "bytes":
        return [data[i:i + 1] for i in range(len(data))]
    if mode == "whole":
        return [data]
    k = rng.randrange(1, min(8, len(data)) + 1)
    pts = sorted(rng.sample(range(1, len(data)), min(k, len(data) - 1))) if len(data) > 1 else []
    out, a = [], 0
    for p in pts + [len(data)]:
        out.append(data[a:p])
        a = p
    return out


async def read_side(chk, rng, m, ncases):
    cls = stream_class(m)
    mm = m or M
    lines, impl = [], []
    for _ in range(ncases):
        start = rng.choice([0, 0, 1, 250, 254, 255])
        # build a packet train: payloads (each possibly multi-packet), occasionally a wrong sequence id
        wire = b""
        seq = start
        n_msgs = rng.randrange(1, 5)
        bad = rng.random() < 0.25
        for k in range(n_msgs):
            ln = rng.choice([0, 1, 2, 3, mm - 1, mm, mm + 1, 2 * mm, 2 * mm + 1, 3 * mm]) if m else rng.choice([0, 1, 4, 5, 9, 300, 70000])
            payload = bytes(rng.randrange(256) for _ in range(ln)) if ln < 4096 else rng.randbytes(ln)
            while True:
                part, payload = payload[:mm], payload[mm:]
                s = seq
                if bad and rng.random() < 0.2:
                    s = (seq + rng.choice([1, 2, 255])) % 256
                wire += raw_pkt(s, part)
                seq = (seq + 1) % 256
                if len(part) < mm:
                    break
            if rng.random() < 0.5:
                seq = start if rng.random() < 0.5 else seq  # commands restart at the reader's reset (handled below)
        if rng.random() < 0.15 and len(wire) > 2:
            wire = wire[:rng.randrange(1, len(wire))]  # truncated tail: the reader must just wait
        mode = rng.choice(["bytes", "whole", "rand", "rand"])
        if mode == "bytes" and len(wire) > 700:
            mode = "rand"  # the list-based model is quadratic in the buffered length per chunk
        chunks = cut(rng, wire, mode)
        reader = asyncio.StreamReader()
        st = cls(reader, FW())
        st.seq.value = start
        events = []

        async def pump():
            while True:
                try:
                    data = await st.read()
                    events.append("msg:" + hexs(data))
                except MysqlError as e:
                    import re
                    mt = re.search(r"Expected seq\((\d+)\) got seq\((\d+)\)", e.msg)
                    events.append("seqerr:%s:%s" % (mt.group(2), mt.group(1)))
                    return
                except real_stream.ConnectionClosed:
                    events.append("closed")
                    return

        task = asyncio.ensure_future(pump())
        lines.append("frm m %d" % mm)
        impl.append("ok")
        lines.append("frm reset %d" % start)
        impl.append("ok")
        for c in chunks:
            before = len(events)
            reader.feed_data(c)
            await settle(6 + 2 * (len(c) // 4))
            lines.append("frm feed " + hexs(c))
            impl.append(",".join(events[before:]) or "-")
        task.cancel()
        nt = any(len(c) < 4 for c in chunks[:-1]) or "seqerr" in ",".join(events)
        chk.case(("read", mm, start, wire, tuple(len(c) for c in chunks)), nontrivial=nt,
                 sample=dict(m=mm, start_seq=start, chunks=[hexs(c) for c in chunks][:8], events=events[:4]) if rng.random() < 0.01 else None)
        chk.count("read:m=%s" % ("M" if not m else m))
        chk.count("read:chunks=%s" % ("1" if len(chunks) == 1 else "2-8" if len(chunks) <= 8 else ">8"))
        if "seqerr" in ",".join(events):
            chk.count("read:seqerr")
        # oracle: segmentation independence on the implementation itself (feed whole)
        reader2 = asyncio.StreamReader()
        st2 = cls(reader2, FW())
        st2.seq.value = start
        ev2 = []

        async def pump2():
            while True:
                try:
                    ev2.append("msg:" + hexs(await st2.read()))
                except MysqlError:
                    ev2.append("seqerr")
                    return

        t2 = asyncio.ensure_future(pump2())
        reader2.feed_data(wire)
        await settle(10 + len(wire) // 2)
        t2.cancel()
        canon = [e if e.startswith("msg") else "seqerr" for e in events]
        if canon != ev2:
            chk.fail("segmented read differs from unsegmented read", dict(m=mm, start=start, wire=hexs(wire),
                     chunks=[hexs(c) for c in chunks], segmented=canon, whole=ev2))
    return lines, impl


async def write_side(chk, rng, m, lens):
    cls = stream_class(m)
    mm = m or M
    lines, impl = ["frm m %d" % mm], ["ok"]
    for ln in lens:
        start = rng.choice([0, 1, 254, 255])
        payload = rng.randbytes(ln)
        w = FW()
        st = cls(asyncio.StreamReader(), w)
        st.seq.value = start
        await st.write(payload)
        pk = split_packets(bytes(w.out))
        lines.append("frm splitlens %d %d" % (start, ln))
        impl.append(",".join("%d:%d" % (q, len(p)) for q, p in pk))
        # oracle: a standard client reassembles the identical payload
        got = b""
        done = False
        for i, (q, p) in enumerate(pk):
            if done or q != (start + i) % 256:
                chk.fail("written packets not reassemblable", dict(m=mm, length=ln, seqs=[x for x, _ in pk][:6]))
                break
            got += p
            if len(p) < 0xFFFFFF and m is None or (m is not None and len(p) < m):
                done = True
        if got != payload or not done:
            chk.fail("written payload does not reassemble to the original", dict(m=mm, length=ln, packets=[(q, len(p)) for q, p in pk][:6]))
        chk.case(("write", mm, ln, start), nontrivial=ln >= mm, sample=dict(m=mm, length=ln, packets=[(q, len(p)) for q, p in pk][:5]) if ln >= mm and rng.random() < 0.2 else None)
        chk.count("write:m=%s" % ("M" if not m else m))
    return lines, impl


class FW2(FW):
    """records every transport.write call"""

    def __init__(self):
        super().__init__()
        self.calls = []

    def write(self, b):
        self.calls.append(bytes(b))
        super().write(b)


def show_chunk(b: bytes) -> str:
    return "%d:%s:%s" % (len(b), hexs(b[:12]), hexs(b[max(0, len(b) - 6):]))


async def write_programs(chk, rng, m, B, n):
    """programs of write(payload, drain) / drain() on one stream: transport writes, buffered length and sequence
    counter after every call vs the model; oracle: the byte stream reassembles to the payloads in order."""
    cls = stream_class(m)
    mm = m or M
    lines, impl = ["frm m %d" % mm], ["ok"]
    for _ in range(n):
        start = rng.choice([0, 3, 254, 255])
        w = FW2()
        st = cls(asyncio.StreamReader(), w, buffer_size=B)
        st.seq.value = start
        lines.append("wr reset %d %d" % (start, B))
        impl.append("ok")
        payloads = []
        for _ in range(rng.randrange(1, 9)):
            before = len(w.calls)
            r = rng.random()
            if r < 0.15:
                await st.drain()
                lines.append("wr drain")
            else:
                if m:
                    ln = rng.choice([0, 1, 2, 3, 5, B - 5, B - 4, B - 3, B, B + 1, 2 * B, mm - 1, mm, mm + 1, 2 * mm])
                else:  # real packet size: multi-packet payloads are covered by write_side (lengths only)
                    ln = rng.choice([0, 1, 5, 100, B - 5, B - 4, B - 3, B, B + 7, 2 * B])
                ln = max(0, ln)
                d = rng.random() < 0.4
                if ln > 2000:
                    p = bytes(ln)
                    lines.append("wr zeros %d %d" % (1 if d else 0, ln))
                else:
                    p = rng.randbytes(ln)
                    lines.append("wr write %d %s" % (1 if d else 0, hexs(p)))
                payloads.append(p)
                await st.write(p, drain=d)
            impl.append("%d %d %s" % (len(st._buffer), st.seq.value, ",".join(show_chunk(c) for c in w.calls[before:])))
        await st.drain()
        # oracle on the implementation: the transport stream is the packets of the payloads in order
        pk = split_packets(bytes(w.out))
        got, cur, q = [], b"", start
        okseq = True
        for s_, p in pk:
            if s_ != q:
                okseq = False
            q = (q + 1) % 256
            cur += p
            if len(p) < mm:
                got.append(cur)
                cur = b""
        if not okseq or got != payloads:
            chk.fail("transport bytes are not the written payloads in order", dict(m=mm, B=B, start=start, program=lines[-12:],
                     seqs=[x for x, _ in pk][:12]))
        chk.case(("wprog", mm, B, tuple(lines[-10:])), nontrivial=len(payloads) > 1, sample=dict(m=mm, B=B, program=lines[-6:]) if rng.random() < 0.01 else None)
        chk.count("wprog:m=%s,B=%d" % ("M" if not m else m, B))
    return lines, impl


# ---- (c) conversation segmentation through the real server
def conversation():
    """client byte stream after the greeting: login, 3 queries, prepare/execute/fetch, a 2-packet... (kept small)"""
    caps = BASE | C.CLIENT_CONNECT_WITH_DB
    parts = [pkt(1, hs_response("u", caps=caps, db="db1"))]
    parts.append(pkt(0, b"\x03select a from t"))
    parts.append(pkt(0, b"\x0e"))
    parts.append(pkt(0, b"\x03select b from t where x = 'segment'"))
    parts.append(pkt(0, b"\x16select ? from t"))
    parts.append(pkt(0, com_stmt_execute(0, [(T_VAR_STRING, False, b"v", b"")], caps=caps, flags=1)))
    parts.append(pkt(0, b"\x1c" + struct.pack("<II", 0, 2)))
    parts.append(pkt(0, b"\x02db2"))
    parts.append(pkt(0, b"\x03select c from t"))
    # commands without a response right behind commands with one: what was answered before them must be on the wire
    # whether or not they arrived in the same read
    parts.append(pkt(0, b"\x0e"))
    parts.append(pkt(0, b"\x18" + struct.pack("<IH", 0, 0) + b"chunk"))      # COM_STMT_SEND_LONG_DATA
    parts.append(pkt(0, b"\x0e"))
    parts.append(pkt(0, b"\x19" + struct.pack("<I", 0)))                      # COM_STMT_CLOSE
    parts.append(pkt(0, b"\x03select d from t"))
    parts.append(pkt(0, b"\x0e"))
    parts.append(pkt(0, b"\x01"))                                            # COM_QUIT
    return b"".join(parts)


def beh(sess, e, sql, attrs):
    return [(1, "x"), (2, None), (3, "zz")], [ResultColumn("a", ColumnType.LONGLONG), ResultColumn("b", ColumnType.VARCHAR)]


async def run_conv(chunks):
    s = RecSession(beh)
    srv = mkserver([s])
    a = Peer(srv)
    await a.greet()
    for c in chunks:
        a.t.feed(c)
        await settle(12)
    await settle(20)
    out = a.take_raw()
    log = [l for l in s.log]
    await a.finish()
    return out, log


async def conv_cuts(chk, rng, n2):
    data = conversation()
    base_out, base_log = await run_conv([data])
    n = len(data)
    chk.extra["conversation_bytes"] = n
    cuts = [(i,) for i in range(1, n)]
    allpairs = [(i, j) for i in range(1, n) for j in range(i + 1, n)]
    if n2 >= len(allpairs):
        cuts += allpairs
        chk.extra["two_cuts_exhaustive"] = True
    else:
        cuts += rng.sample(allpairs, n2)
        # header-splitting pairs are the interesting ones: force some
        cuts += [(i, i + 1) for i in range(1, n - 1, 3)]
    cuts.append(tuple(range(1, n)))  # byte at a time
    for cs in cuts:
        chunks, a = [], 0
        for p in list(cs) + [n]:
            chunks.append(data[a:p])
            a = p
        out, log = await run_conv(chunks)
        chk.case(("conv", cs), nontrivial=True, sample=dict(cuts=list(cs)[:6], reply_bytes=len(out)) if rng.random() < 0.002 else None)
        chk.count("conv:%d-cut" % (len(cs) if len(cs) < 3 else 99))
        if out != base_out or log != base_log:
            chk.fail("conversation differs under segmentation", dict(cuts=list(cs)[:10], stream=hexs(data),
                     reply_len=len(out), base_len=len(base_out)))
            if len(chk.failures) > 5:
                break


async def tls_part(chk):
    from tls import tls_conversation
    for coalesce, chunk1 in [(False, False), (False, True), (True, False)]:
        try:
            r = await tls_conversation(coalesce=coalesce, chunk1=chunk1)
        except Exception as e:  # noqa
            r = dict(ok=False, detail="exception %r" % e)
        chk.case(("tls", coalesce, chunk1), sample=dict(tls=True, coalesce=coalesce, byte_at_a_time=chunk1, ok=r["ok"]))
        chk.count("tls:coalesce=%s" % coalesce)
        if not r["ok"]:
            chk.fail("conversation over TLS fails", dict(coalesce=coalesce, chunk1=chunk1, detail=repr(r["detail"])[:300]),
                     scenario="tls-coalesced-clienthello" if coalesce else None)


def main():
    chk = Check("C04", sys.argv[1:])
    chk.rule = ("read side: random packet trains x random segmentations compared per chunk with Mimic.Framing (real class and "
                "class recompiled from current source with small packet size); write side: lengths around multiples of the "
                "packet size; real-server conversation at every 1-cut and sampled/exhaustive 2-cuts; in-memory TLS. "
                "non-trivial = a chunk boundary inside a header, a multi-packet payload, or a sequence error")
    chk.assumptions = ["asyncio.StreamReader.readexactly(n) completes exactly when n bytes are buffered (A3)",
                       "the TLS engine (ssl/asyncio.sslproto) is trusted; only the hand-over of bytes is examined"]
    chk.extra["table_lemmas"] = ["M_eq", "M_pos", "M_lt", "literals_agree", "header_read_exact", "seq_modulus"]
    chk.tie(["MimicProps.C04"])
    chk.run_replays(["D4a"])
    rng = random.Random(chk.seed)
    T = chk.thorough
    lines, impl = [], []

    async def go():
        nonlocal lines, impl
        for m, n in [(None, 150 if not T else 1500), (3, 400 if not T else 6000), (5, 300 if not T else 4000), (1, 100 if not T else 1000)]:
            l, i = await read_side(chk, rng, m, n)
            lines += l
            impl += i
        for m in (1, 2, 4, 7):
            l, i = await write_side(chk, rng, m, list(range(0, 5 * m + 3)))
            lines += l
            impl += i
        big = [0, 1, 250, 251, 65535, 65536, M - 1, M, M + 1] + ([2 * M, 2 * M + 1] if T else [])
        l, i = await write_side(chk, rng, None, big)
        lines += l
        impl += i
        for m, B, n in [(None, 32768, 60), (None, 64, 200), (5, 16, 400), (3, 8, 400), (7, 40, 200)]:
            l, i = await write_programs(chk, rng, m, B, n if not T else 10 * n)
            lines += l
            impl += i
        await conv_cuts(chk, rng, 600 if not T else 10 ** 9)
        await tls_part(chk)

    asyncio.run(go())
    model = drive(lines)
    chk.compare("MysqlStream.read/write vs Mimic.Framing", lines, model, impl)
    chk.finish()


if __name__ == "__main__":
    from framework import guarded
    guarded("C04", main)
