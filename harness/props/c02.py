"""C02 — a password proof is accepted iff it fits this connection's nonce and secret.

Tie: Extracted/Auth.lean (nonce alphabet, nonce length, filler, plugin names) + correspondence of Mimic.Auth.authenticate
(with the executable SHA-1) with the real Connection over all four routes (optimistic handshake, auth-switch during
handshake, COM_CHANGE_USER reusing the handshake nonce, COM_CHANGE_USER with switch / more-data), for configurable
identity providers; SHA-1 model vs hashlib; oracle: accept <=> reference predicate computed with hashlib, the session
user is the vouched identity, every fresh nonce consumes exactly 20 new random draws."""
import asyncio
import os
import random
import struct
import sys
from hashlib import sha1

sys.path.insert(0, os.path.join(os.path.dirname(os.path.abspath(__file__)), ".."))
from framework import Check, drive, hexs  # noqa: E402
from lib import BASE, C, Peer, RawSession, mkserver, pkt, hs_response, com_change_user, scramble, parse_err, settle  # noqa: E402

import mysql_mimic.utils as mm_utils  # noqa: E402
from mysql_mimic import IdentityProvider, NativePasswordAuthPlugin, NoLoginAuthPlugin, User  # noqa: E402
from mysql_mimic.auth import AbstractClearPasswordAuthPlugin, AuthPlugin, Success, Forbidden  # noqa: E402

ALPHA = mm_utils.SAFE_NONCE_CHARS


class FakeSystemRandom:
    """replaces random.SystemRandom inside mysql_mimic.utils: draws come from the harness PRNG and are recorded"""
    rng = random.Random(0)
    draws = []
    forced = []          # indices the next draws must take (the harness steers the next nonce: e.g. one whose scramble ends in NUL)

    def choice(self, seq):
        if FakeSystemRandom.forced:
            i = FakeSystemRandom.forced.pop(0) % len(seq)
        else:
            i = FakeSystemRandom.rng.randrange(len(seq))
        FakeSystemRandom.draws.append(i)
        return seq[i]


class Clear(AbstractClearPasswordAuthPlugin):
    name = "clearpw"

    def __init__(self, table):
        self.table = table

    async def check(self, username, password):
        return username if (username, password.encode("utf8")) in self.table else None


class Custom2(AuthPlugin):
    name = "custom2"
    client_plugin_name = "custom2_client"

    async def auth(self, auth_info=None):
        info = yield b"round1__________"
        if info.data != b"a":
            yield Forbidden()
            return
        info = yield b"round2__________"
        if info.data != b"b":
            yield Forbidden()
            return
        yield Success(info.username)


class Trust(AuthPlugin):
    """accepts whoever answers; no client plugin name (None = any)"""
    name = "trust"
    client_plugin_name = None

    async def auth(self, auth_info=None):
        if not auth_info:
            auth_info = yield b"0" * 20 + b"\x00"
        yield Success(auth_info.username)


class IDP(IdentityProvider):
    def __init__(self, plugins, users):
        self.p = plugins
        self.u = users

    def get_plugins(self):
        return self.p

    async def get_user(self, n):
        return self.u.get(n)


PW = ["pw", "pässwörd", "密码", "\U0001f600x", "a b", "p" * 40]


CLEAR_STRATS = ["right", "right2", "wrong", "empty", "nonul", "nonul2", "nonul_extra", "short", "short_nul", "nul_junk", "only_nul"]


def make_config(rng, focus=None):
    clear_table = [("carl", b"secret"), ("carl", "sëcret".encode()), ("dflt", b"dpw")]
    clear2_table = [("dora", b"hunter2"), ("carl", b"nope")]
    kinds = ["native", "clear", "nologin", "custom2", "clear2", "trust"]
    rng.shuffle(kinds)
    kinds = kinds[: rng.randrange(1, 6)]
    if "native" not in kinds and rng.random() < 0.7:
        kinds.insert(rng.randrange(len(kinds) + 1), "native")
    if focus == "multi":
        # a multi-round plugin next to a single-step default: the account's own plugin must be the one that decides,
        # also after an auth switch (the default plugin's state from the handshake must not be asked again)
        kinds = [k for k in kinds if k not in ("native", "custom2")]
        kinds = ["native"] + kinds + ["custom2"] if rng.random() < 0.7 else ["clear"] + [k for k in kinds if k != "clear"] + ["custom2"]
    if focus == "switchlogin":
        kinds = ["native", "clear"] + [k for k in kinds if k not in ("native", "clear")]
    if focus == "clear":
        # the clear-password plugin is consulted: as the default plugin (optimistic route) or after a switch
        kinds = [k for k in kinds if k != "clear"]
        kinds.insert(rng.choice([0, 0, len(kinds)]), "clear")
    plugins, lines = [], ["auth reset"]
    for k in kinds:
        if k == "native":
            plugins.append(NativePasswordAuthPlugin())
            lines.append("auth plugin mysql_native_password %s native" % hexs(b"mysql_native_password"))
        elif k == "clear":
            plugins.append(Clear(clear_table))
            lines.append("auth plugin clearpw %s clear:%s" % (hexs(b"mysql_clear_password"), ";".join("%s=%s" % (hexs(u.encode()), hexs(p)) for u, p in clear_table)))
        elif k == "clear2":
            c2 = Clear(clear2_table)
            c2.name = "clearpw2"
            plugins.append(c2)
            lines.append("auth plugin clearpw2 %s clear:%s" % (hexs(b"mysql_clear_password"), ";".join("%s=%s" % (hexs(u.encode()), hexs(p)) for u, p in clear2_table)))
        elif k == "trust":
            plugins.append(Trust())
            lines.append("auth plugin trust - trust")
        elif k == "nologin":
            plugins.append(NoLoginAuthPlugin())
            lines.append("auth plugin mysql_no_login - nologin")
        else:
            plugins.append(Custom2())
            lines.append("auth plugin custom2 %s custom2" % hexs(b"custom2_client"))
    pw, old = rng.choice(PW), rng.choice(PW)
    cas = NativePasswordAuthPlugin.create_auth_string
    users = {
        "bob": User("bob", cas(pw), "mysql_native_password", old_auth_string=cas(old) if rng.random() < 0.5 else None),
        "nopw": User("nopw", None, "mysql_native_password"),
        "empty": User("empty", "", "mysql_native_password"),
        "bad": User("bad", rng.choice(["zz", "abc", "12 3", "0g" * 20]), "mysql_native_password"),
        "upper": User("upper", cas(pw).upper(), "mysql_native_password"),
        "carl": User("carl", None, "clearpw"),
        "dora": User("dora", None, "clearpw2"),
        "tom": User("tom", None, "trust"),
        "nl": User("nl", None, "mysql_no_login"),
        "cust": User("cust", None, "custom2"),
        "dflt": User("dflt", cas("dpw"), None),
        "ghost": User("ghost", cas(pw), "no_such_plugin"),
        "alias": User("real_name", cas(pw), "mysql_native_password"),
    }
    for n, u in users.items():
        def h(x):
            return "-" if x is None else hexs(x.encode())
        lines.append("auth user %s %s %s %s %s" % (hexs(n.encode()), hexs(u.name.encode()), h(u.auth_string), h(u.old_auth_string), u.auth_plugin or "-"))
    return plugins, users, lines, dict(pw=pw, old=old, kinds=kinds)


def reply_for(rng, strategy, plugin_name, data, user, meta):
    """client's answer to a switch / more-data request"""
    if plugin_name == "mysql_native_password" or (plugin_name is None and len(data) == 21):
        nonce = data.rstrip(b"\0")
        return native_resp(rng, strategy, nonce, meta)
    if plugin_name == "mysql_clear_password":
        return {"right": b"secret\0", "right2": "sëcret".encode() + b"\0", "wrong": b"nope\0", "empty": b"", "nonul": b"secret",
                "nonul2": "sëcret".encode(), "nonul_extra": b"secretX", "short": b"secre", "short_nul": b"secre\0",
                "nul_junk": b"secret\0junk", "only_nul": b"\0"}.get(strategy, b"dpw\0")
    if data == b"round1__________":
        # the two-round plugin: right answers a / b; wrong ones, and answers another plugin would accept (empty: the native
        # plugin's password-less quick path; a NUL: what stripping would turn into empty)
        return {"wrong": b"x", "empty": b"", "nonul": b"", "junk": b"\0"}.get(strategy, b"a")
    if data == b"round2__________":
        return {"wrong": b"y", "wrong2": b"y", "empty": b"", "trunc": b"", "junk": b"\0"}.get(strategy, b"b")
    return b""


def native_resp(rng, strategy, nonce, meta):
    pw = meta["pw"].encode("utf8")
    good = scramble(pw, nonce)
    if strategy in ("right", "right2"):
        return good
    if strategy == "old":
        return scramble(meta["old"].encode("utf8"), nonce)
    if strategy == "dflt":
        return scramble(b"dpw", nonce)
    if strategy == "othernonce":
        return scramble(pw, bytes(rng.choice(ALPHA) for _ in range(20)))
    if strategy == "bitflip":
        i = rng.randrange(160)
        b = bytearray(good)
        b[i // 8] ^= 1 << (i % 8)
        return bytes(b)
    if strategy == "trunc":
        return good[: rng.randrange(0, 20)]
    if strategy == "junk":
        return good + rng.randbytes(rng.randrange(1, 6))
    if strategy == "empty":
        return b""
    if strategy == "zeros":
        return scramble(pw, b"0" * 20)          # a proof for the constant filler another plugin sends, not for this connection's nonce
    if strategy == "nuls":
        return b"\0" * rng.choice([1, 3, 20])       # neither empty nor a scramble
    return rng.randbytes(20)


STRATS = ["right", "right", "old", "dflt", "othernonce", "bitflip", "trunc", "junk", "empty", "wrong", "right2", "nonul", "wrong2"]


def classify(p):
    if p[:1] == b"\x00":
        return "ok"
    if p[:1] == b"\xff":
        code = parse_err(p, proto41=(p[3:4] == b"#"))[0]
        return {3162: "errU", 1045: "errD"}.get(code, "err%d" % code)
    if p[:1] == b"\xfe":
        j = p.index(b"\0", 1)
        return "switch:%s:%s" % (p[1:j].decode(), hexs(p[j + 1:]))
    if p[:1] == b"\x01":
        return "more:" + hexs(p[1:])
    return "?" + p[:8].hex()


def reference_accept(users, user_key, plugins, exchange, meta):
    """independent reference (hashlib): is this exchange a valid proof?  exchange = list of (nonce_or_None, response)"""
    u = users.get(user_key)
    if u is None:
        return False
    names = [p.name for p in plugins]
    pname = u.auth_plugin if u.auth_plugin in names else names[0]
    if pname == "mysql_native_password":
        nonce, resp = exchange[-1]
        if nonce is None:
            return False
        if not resp and not u.auth_string:
            return True
        for stored in (u.auth_string, u.old_auth_string):
            try:
                st = bytes.fromhex(stored or "")
            except ValueError:
                continue
            x = sha1(nonce + st).digest()
            n = min(len(resp), len(x))
            cand = bytes(a ^ b for a, b in zip(resp[:n], x[:n]))
            if sha1(cand).digest() == st:
                return True
        return False
    if pname in ("clearpw", "clearpw2"):
        resp = exchange[-1][1]
        pw = resp.split(b"\0")[0]
        return (user_key, pw) in plugins[names.index(pname)].table
    if pname == "trust":
        return True
    if pname == "mysql_no_login":
        return False
    if pname == "custom2":
        rs = [r for _, r in exchange]
        return len(rs) >= 2 and rs[-2:] == [b"a", b"b"]
    return False


async def run_case(chk, rng, lines, impl, sha_lines, sha_impl, focus=None):
    plugins, users, cfg_lines, meta = make_config(rng, focus)
    FakeSystemRandom.draws = []
    s = RawSession()
    srv = mkserver([s], identity_provider=IDP(plugins, users))
    a = Peer(srv)
    g = await a.greet()
    if not a.greeting:
        await a.finish()
        return
    greet_data = a.greeting["auth_data"][: a.greeting["auth_len"]]
    default_name = plugins[0].name
    default_client = plugins[0].client_plugin_name
    route = rng.choice(["handshake", "handshake", "change_user"])
    user_key = rng.choice(list(users) + ["mallory"])
    strategy = rng.choice(STRATS)
    announce = rng.choice([default_client or "", "mysql_native_password", "mysql_clear_password", "custom2_client", "bogus_plugin", ""])
    if focus == "nul":
        # auth switch to the native plugin with a nonce whose correct scramble ENDS IN A NUL byte (1 nonce in 256): the
        # 20-byte proof is binary data, not a C string; and replies made of NULs only for a password-less account
        user_key = rng.choice(["bob", "bob", "nopw"])
        strategy = "right" if user_key == "bob" else rng.choice(["nuls", "nuls", "empty"])
        announce = rng.choice(["mysql_clear_password", "bogus_plugin", "custom2_client"])
        route = rng.choice(["handshake", "change_user"])
        want_tail = rng.choice([1, 1, 2])
        for _ in range(400000):
            cand = bytes(rng.choice(ALPHA) for _ in range(20))
            if scramble(meta["pw"].encode("utf8"), cand).endswith(b"\0" * want_tail):
                FakeSystemRandom.forced = [ALPHA.index(bytes([b])) if isinstance(ALPHA, (bytes, bytearray)) else list(ALPHA).index(b) for b in cand]
                break
    if focus == "switchlogin":
        # the connection logged in THROUGH AN AUTH SWITCH to another plugin (which sent its own plugin data); a later
        # COM_CHANGE_USER to a native account is still judged against the nonce of this connection's greeting
        route = "change_user"
        user_key = rng.choice(["bob", "bob", "nopw", "dflt"])
        strategy = rng.choice(["right", "right", "zeros", "othernonce", "dflt"])
        announce = "mysql_native_password"
    if focus == "multi":
        user_key = "cust"
        strategy = rng.choice(["empty", "empty", "right", "wrong", "junk", "wrong2", "trunc"])
        announce = rng.choice(["mysql_native_password", "mysql_clear_password", "bogus_plugin", ""])
    if focus == "clear":
        # the password as transmitted: terminated, unterminated (end of input terminates it), one byte more / less, junk after the NUL
        user_key = rng.choice(["carl", "carl", "carl", "dflt"])
        strategy = rng.choice(CLEAR_STRATS)
        announce = rng.choice(["mysql_clear_password", "mysql_clear_password", "mysql_native_password", ""])
    draws_before = 0

    async def exchange(first_payload, seq0):
        """send the first packet, answer switch / more-data requests; returns (outs, replies, exchange list)"""
        await a.send(pkt(seq0, first_payload))
        outs, replies = [], []
        seqn = seq0 + 1
        for _ in range(6):
            got = a.take()
            if not got:
                break
            stop = False
            for q, p in got:
                k = classify(p)
                outs.append(k)
                if k.startswith("switch:") or k.startswith("more:"):
                    if k.startswith("switch:"):
                        j = p.index(b"\0", 1)
                        pn, data = p[1:j].decode(), p[j + 1:]
                    else:
                        pn, data = None, p[1:]
                    r = reply_for(rng, strategy, pn, data, user_key, meta)
                    replies.append((pn, data, r))
                    await a.send(pkt(q + 1, r))
                else:
                    stop = True
            if stop:
                break
        return outs, replies

    if route == "handshake":
        # first response: computed for the greeting nonce if the announced plugin is native, else per strategy
        if announce == "mysql_native_password":
            resp = native_resp(rng, strategy, greet_data.rstrip(b"\0"), meta)
        elif announce == "mysql_clear_password":
            resp = reply_for(rng, strategy, "mysql_clear_password", b"", user_key, meta)
        else:
            resp = rng.choice([b"", b"a", rng.randbytes(20)])
        outs, replies = await exchange(hs_response(user_key, auth=resp, caps=BASE, plugin=announce), 1)
        draws = list(FakeSystemRandom.draws)
        model_line = "auth go 1 %s %s %s none x %s %s" % (
            hexs(user_key.encode()), hexs(resp), hexs(announce.encode()) if announce is not None else "-",
            ",".join(map(str, draws + [0])), ";".join(hexs(r) for _, _, r in replies) or "none")
        greet_tok = "greet:%s " % hexs(greet_data)
        first_nonce = greet_data.rstrip(b"\0") if default_name == "mysql_native_password" else None
        optimistic = (default_client is None or default_client == announce)
    else:
        # log in first as dflt (always resolves to the default plugin) using whatever that plugin needs
        if focus == "switchlogin":
            await a.send(pkt(1, hs_response("carl", auth=b"x" * 20, plugin="mysql_native_password")))
            o = a.take()
            ok = False
            if o and o[-1][1][:1] == b"\xfe":
                await a.send(pkt(o[-1][0] + 1, b"secret\0"))
                o = a.take()
                ok = bool(o) and o[-1][1][:1] == b"\x00"
        else:
            ok = await login_default(a, plugins, greet_data)
        if not ok:
            await a.finish()
            return
        s.log.clear()
        FakeSystemRandom.draws = []
        if announce == "mysql_native_password":
            resp = native_resp(rng, strategy, greet_data.rstrip(b"\0"), meta)
        elif announce == "mysql_clear_password":
            resp = reply_for(rng, strategy, "mysql_clear_password", b"", user_key, meta)
        else:
            resp = rng.choice([b"", b"a"])
        outs, replies = await exchange(com_change_user(user_key.encode(), resp, b"db", plugin=announce.encode()), 0)
        draws = list(FakeSystemRandom.draws)
        model_line = "auth go 0 %s %s %s %s %s %s %s" % (
            hexs(user_key.encode()), hexs(resp), hexs(announce.encode()), hexs(greet_data), default_name,
            ",".join(map(str, draws + [0])), ";".join(hexs(r) for _, _, r in replies) or "none")
        greet_tok = ""
        first_nonce = greet_data.rstrip(b"\0") if default_name == "mysql_native_password" else None
    await settle()
    closed = a.t.closed
    final = outs[-1] if outs else "none"
    # canonical implementation answer in the model's vocabulary
    if final == "ok":
        res = "auth:" + hexs((s.username or "").encode())
    elif final in ("errU", "errD"):
        res = "failed"
    elif final.startswith("switch") or final.startswith("more"):
        res = "waiting"
    else:
        res = "raised"
    core = [o for o in outs if not o.startswith("err") or o in ("errU", "errD")]
    impl.append(greet_tok + ",".join(core) + " " + res)
    lines.extend(cfg_lines)
    impl.extend(["ok"] * len(cfg_lines))
    # keep order: config lines first, then the go line
    impl.append(impl.pop(-len(cfg_lines) - 1))
    lines.append(model_line)
    chk.case((route, tuple(meta["kinds"]), user_key, strategy, announce), nontrivial=True,
             sample=dict(route=route, plugins=meta["kinds"], user=user_key, client_plugin=announce, strategy=strategy, packets=outs) if rng.random() < 0.004 else None)
    chk.count("route:" + route)
    chk.count("final:" + (final.split(":")[0]))
    chk.count("user:" + user_key)
    # ---- oracle
    u = users.get(user_key)
    exch = []
    names = [p.name for p in plugins]
    if u is not None:
        pname = u.auth_plugin if u.auth_plugin in names else names[0]
        if replies:
            for pn, data, r in replies:
                exch.append((data.rstrip(b"\0") if len(data) == 21 else None, r))
        else:
            # decided on the first response: nonce in force is the greeting's (native default) — or none
            exch.append((first_nonce if pname == "mysql_native_password" else None, resp))
        if pname == "mysql_native_password" and not replies and default_name != "mysql_native_password":
            exch = [(None, resp)]
        if pname == "custom2":
            exch = [(None, resp)] + [(None, r) for _, _, r in replies]
    want = reference_accept(users, user_key, plugins, exch, meta) if exch else False
    if res == "raised":
        want = False if final != "ok" else want
    got_ok = final == "ok"
    if got_ok != want and res != "raised":
        chk.fail("acceptance differs from the reference predicate (hashlib)", dict(route=route, plugins=meta["kinds"], user=user_key,
                 announce=announce, strategy=strategy, packets=outs, reference_accepts=want))
    if got_ok:
        exp_name = u.name if (u and (u.auth_plugin if u.auth_plugin in names else names[0]) in ("mysql_native_password",)) else user_key
        if s.username != exp_name:
            chk.fail("session user is not the identity the plugin vouched for", dict(user=user_key, session_username=s.username, expected=exp_name))
    else:
        if res == "failed" and not closed:
            chk.fail("connection not closed after a refused authentication", dict(route=route, user=user_key, packets=outs))
    # fresh nonces: every switch / more-data nonce consumed exactly 20 new draws
    n_fresh = sum(1 for pn, data, r in replies if len(data) == 21 and data[:20].isalnum() and data[:20] != b"0" * 20)
    if len(draws) != 20 * n_fresh + (20 if (route == "handshake" and default_name == "mysql_native_password") else 0):
        chk.fail("nonce issue did not consume exactly 20 fresh random draws", dict(draws=len(draws), fresh_nonces=n_fresh, route=route))
    for pn, data, r in replies:
        if len(data) == 21 and (b"\0" in data[:20] or data[20:] != b"\0"):
            chk.fail("nonce contains NUL or is not 20 bytes + terminator", dict(data=hexs(data)))
    await a.finish()


async def run_overlap(chk, rng, lines, impl):
    """two or three connections whose handshakes overlap on one identity provider (shared plugin objects): each
    connection's proof is judged against ITS OWN nonce; a proof captured on another connection is useless"""
    plugins, users, cfg_lines, meta = make_config(rng)
    if plugins[0].name != "mysql_native_password":
        return
    FakeSystemRandom.draws = []
    idp = IDP(plugins, users)
    sessions = [RawSession() for _ in range(3)]
    srv = mkserver(sessions, identity_provider=idp)
    peers = []
    for i in range(rng.choice([2, 3])):
        a = Peer(srv)
        await a.greet()
        peers.append(a)
    nonces = [p.greeting["auth_data"][:20] for p in peers]
    order = list(range(len(peers)))
    rng.shuffle(order)
    pw = meta["pw"].encode("utf8")
    for i in order:
        a = peers[i]
        mode = rng.choice(["own", "own", "replay"])
        src = i if mode == "own" else rng.choice([j for j in range(len(peers)) if j != i])
        resp = scramble(pw, nonces[src])
        await a.send(pkt(1, hs_response("bob", auth=resp, plugin="mysql_native_password")))
        out = [classify(p) for _, p in a.take()]
        final = out[-1] if out else "none"
        res = ("auth:" + hexs((sessions[i].username or "").encode())) if final == "ok" else "failed" if final in ("errU", "errD") else "raised"
        lines.extend(cfg_lines)
        impl.extend(["ok"] * len(cfg_lines))
        lines.append("auth go 1 %s %s %s none x %s none" % (hexs(b"bob"), hexs(resp), hexs(b"mysql_native_password"),
                     ",".join(map(str, FakeSystemRandom.draws[20 * i: 20 * i + 20] + [0]))))
        impl.append("greet:%s %s %s" % (hexs(nonces[i] + b"\0"), ",".join(out), res))
        chk.case(("overlap", i, mode, tuple(order)), sample=dict(overlapping_handshakes=len(peers), answered=i, proof_for_nonce_of=src, reply=out) if rng.random() < 0.02 else None)
        chk.count("overlap:" + mode)
        if (final == "ok") != (mode == "own"):
            chk.fail("proof judged against another connection's nonce", dict(connections=len(peers), answered=i, proof_for=src, reply=out))
    for a in peers:
        await a.finish()


async def run_rotation(chk, rng):
    """histories: the account's stored credentials change (password rotated, old one kept as secondary or not, account
    deleted, nothing) between a successful login and a COM_CHANGE_USER for the same name on the same connection; a proof is
    accepted iff it fits what the identity provider holds NOW"""
    cas = NativePasswordAuthPlugin.create_auth_string
    pw1, pw2 = rng.sample(PW, 2)
    users = {"bob": User("bob", cas(pw1), "mysql_native_password"), "amy": User("amy", cas(pw2), "mysql_native_password")}
    s = RawSession()
    srv = mkserver([s], identity_provider=IDP([NativePasswordAuthPlugin()], users))
    a = Peer(srv)
    await a.greet()
    if not a.greeting:
        await a.finish()
        return
    nonce = a.greeting["auth_data"][:20]
    await a.send(pkt(1, hs_response("bob", auth=scramble(pw1.encode(), nonce), plugin="mysql_native_password")))
    o = a.take()
    if not (o and o[-1][1][:1] == b"\x00"):
        chk.fail("correct password refused", dict(route="rotation", step="login"))
        await a.finish()
        return
    hops = rng.randrange(0, 3)
    for _ in range(hops):      # optional successful re-authentications before the change
        who, pw = rng.choice([("bob", pw1), ("amy", pw2)])
        await a.send(pkt(0, com_change_user(who.encode(), scramble(pw.encode(), nonce), b"db", plugin=b"mysql_native_password")))
        a.take()
    change = rng.choice(["rotate", "rotate", "rotate_keep_old", "delete", "none", "to_nopw"])
    if change == "rotate":
        users["bob"] = User("bob", cas(pw2), "mysql_native_password")
    elif change == "rotate_keep_old":
        users["bob"] = User("bob", cas(pw2), "mysql_native_password", old_auth_string=cas(pw1))
    elif change == "delete":
        del users["bob"]
    elif change == "to_nopw":
        users["bob"] = User("bob", None, "mysql_native_password")
    proof = rng.choice(["pw1", "pw2", "empty"])
    resp = {"pw1": scramble(pw1.encode(), nonce), "pw2": scramble(pw2.encode(), nonce), "empty": b""}[proof]
    await a.send(pkt(0, com_change_user(b"bob", resp, b"db", plugin=b"mysql_native_password")))
    outs = [classify(p) for _, p in a.take()]
    final = outs[-1] if outs else "none"
    want = {"rotate": proof == "pw2", "rotate_keep_old": proof in ("pw1", "pw2"), "delete": False, "none": proof == "pw1",
            "to_nopw": proof == "empty"}[change]
    chk.case(("rotation", change, proof, hops), nontrivial=True,
             sample=dict(route="rotation", change=change, proof=proof, packets=outs) if rng.random() < 0.02 else None)
    chk.count("rotation:" + change)
    if (final == "ok") != want:
        chk.fail("acceptance does not follow the account's current credentials", dict(route="login, credentials changed, COM_CHANGE_USER",
                 change=change, proof_for=proof, reauthentications_before=hops, packets=outs, reference_accepts=want))
    await a.finish()


async def login_default(a, plugins, greet_data):
    d = plugins[0]
    if d.name == "mysql_native_password":
        await a.send(pkt(1, hs_response("dflt", auth=scramble(b"dpw", greet_data.rstrip(b"\0")), plugin="mysql_native_password")))
    elif d.name == "clearpw":
        await a.send(pkt(1, hs_response("dflt", auth=b"dpw\0", plugin="mysql_clear_password")))
    elif d.name == "trust":
        await a.send(pkt(1, hs_response("dflt", auth=b"", plugin="anything")))
    elif d.name == "custom2":
        await a.send(pkt(1, hs_response("dflt", auth=b"a", plugin="custom2_client")))
        o = a.take()
        if o and o[-1][1][:1] == b"\x01":
            await a.send(pkt(o[-1][0] + 1, b"b"))
    else:
        return False
    o = a.take()
    return bool(o) and o[-1][1][:1] == b"\x00"


def verify_unit(chk, rng, n):
    """NativePasswordAuthPlugin.verify_scramble against the model and the property, with responses whose missing or
    extra bytes are zeros (a client that treats the scramble as a C string strips a trailing NUL): only the exact
    20-byte scramble (or one followed by more bytes) may be accepted"""
    from mysql_mimic.auth import NativePasswordAuthPlugin
    pl = NativePasswordAuthPlugin()
    lines, impl, inputs = [], [], []
    for i in range(n):
        pw = rng.choice(PW + ["x", "secret", "pässwörd2"])
        stored = NativePasswordAuthPlugin.create_auth_string(pw)
        want_zeros = rng.choice([0, 1, 1, 1, 2])
        nonce = None
        for _ in range(200000):
            cand = bytes(rng.choice(ALPHA) for _ in range(20))
            g = scramble(pw.encode("utf8"), cand)
            if want_zeros == 0 or g.endswith(b"\0" * want_zeros) or (want_zeros == 1 and g[:1] == b"\0"):
                nonce = cand
                break
        if nonce is None:
            continue
        good = scramble(pw.encode("utf8"), nonce)
        variants = {"exact": good, "plus-junk": good + b"zz", "plus-nul": good + b"\0"}
        for k in (1, 2, 3):
            variants["strip-%d" % k] = good[:-k]
            variants["strip-front-%d" % k] = good[k:]
        variants["rstrip-nul"] = good.rstrip(b"\0")
        variants["lstrip-nul"] = good.lstrip(b"\0")
        variants["last-byte-zeroed"] = good[:-1] + b"\0"
        variants["empty"] = b""
        for name, resp in variants.items():
            got = pl.verify_scramble(stored, resp, nonce)
            should = resp[:20] == good
            d = dict(password=pw, nonce=nonce.hex(), variant=name, response=resp.hex(), scramble=good.hex())
            if got != should:
                chk.fail("a response that is not this connection's scramble is accepted (or the scramble is rejected)", d, dict(accepted=got))
            lines.append("auth verify %s %s %s" % (hexs(stored.encode()), hexs(resp), hexs(nonce)))
            impl.append("1" if got else "0")
            inputs.append(d)
            chk.case(("verify", name, len(resp), good[-1] == 0))
            chk.count("verify:" + name)
    out = drive(lines)
    chk.compare("NativePasswordAuthPlugin.verify_scramble = Mimic.Auth.verifyScramble", inputs, out, impl)


def main():
    chk = Check("C02", sys.argv[1:])
    chk.rule = ("identity providers with random plugin lists/orders (native, clear-password with accept table, no-login, a 2-round "
                "custom plugin), accounts with/without password, secondary password, malformed / upper-case stored hash, unknown plugin, "
                "aliasing User.name; responses: exact, other nonce, old password, single-bit corruption, truncation, junk-extended, empty, "
                "random; announced client plugin varied; routes: optimistic handshake, switch during handshake, COM_CHANGE_USER reusing "
                "the handshake nonce, COM_CHANGE_USER with switch/more-data. Every case distinct and non-trivial.")
    chk.assumptions = ["hashlib.sha1 is the reference for the executable SHA-1 model", "random.SystemRandom replaced by a recording PRNG inside the harness process"]
    chk.extra["table_lemmas"] = ["nonce_wellformed (alphabet NUL-free, by decide over the 62 extracted bytes)"]
    chk.tie(["MimicProps.C02"])
    rng = random.Random(chk.seed)
    FakeSystemRandom.rng = random.Random(chk.seed + 1)
    mm_utils.random.SystemRandom = FakeSystemRandom  # harness-side only
    lines, impl = [], []
    sha_lines, sha_impl = [], []
    for ln in [0, 1, 55, 56, 63, 64, 119, 120] + [rng.randrange(0, 300) for _ in range(60 if not chk.thorough else 2000)]:
        b = rng.randbytes(ln)
        sha_lines.append("auth sha1 " + hexs(b))
        sha_impl.append(sha1(b).hexdigest())

    async def go():
        for k in range(500 if not chk.thorough else 60000):
            await run_case(chk, rng, lines, impl, sha_lines, sha_impl)
        for k in range(120 if not chk.thorough else 6000):
            await run_case(chk, rng, lines, impl, sha_lines, sha_impl, focus="clear")
        for k in range(60 if not chk.thorough else 4000):
            await run_case(chk, rng, lines, impl, sha_lines, sha_impl, focus="multi")
        for k in range(40 if not chk.thorough else 3000):
            await run_case(chk, rng, lines, impl, sha_lines, sha_impl, focus="switchlogin")
        for k in range(24 if not chk.thorough else 1500):
            await run_case(chk, rng, lines, impl, sha_lines, sha_impl, focus="nul")
            FakeSystemRandom.forced = []
        for k in range(120 if not chk.thorough else 12000):
            await run_overlap(chk, rng, lines, impl)
        for k in range(150 if not chk.thorough else 8000):
            await run_rotation(chk, rng)

    asyncio.run(go())
    verify_unit(chk, rng, 12 if not chk.thorough else 300)
    model = drive(sha_lines + lines)
    chk.compare("Mimic.Sha1 vs hashlib.sha1", sha_lines, model[: len(sha_lines)], sha_impl)
    chk.compare("Connection.authenticate vs Mimic.Auth.authenticate", lines, model[len(sha_lines):], impl)
    chk.finish()


if __name__ == "__main__":
    from framework import guarded
    guarded("C02", main)
