"""C13 — the application sees exactly the statements it must handle, once, in order.

Tie: (a) extraction of the ordered middleware list, of what each interceptor tests, of how handle_query builds the
chain, and of the catalog databases (theorems chain_known / chain_complete / query_args_pass_client_text /
intercept_tests are re-checked against them); (b) correspondence of Mimic.Dispatch with a real connection: statement
lists from a grammar (built-ins, user selects with FROM / JOIN / subquery / UNION / CTE, mixed user+catalog tables,
DML/DDL, EXPLAIN/DESCRIBE SELECT, raising statements), joined by ';' with comments and empty statements, sent by
COM_QUERY (with and without query attributes) and by prepare/execute, after histories of database selections
(handshake db, COM_INIT_DB, USE, COM_CHANGE_USER, catalog databases as current database in any letter case).

The property's own oracle, computed from the generator's ground truth without the model, runs on every case."""
import asyncio
import os
import random
import re
import struct
import sys

sys.path.insert(0, os.path.join(os.path.dirname(os.path.abspath(__file__)), ".."))
from framework import Check, drive, guarded  # noqa: E402
from lib import (BASE, C, Peer, RecSession, mkserver, com_query, com_stmt_execute, com_change_user, decode_resultset, pkt, Bad)  # noqa: E402

QA = int(C.CLIENT_QUERY_ATTRIBUTES)
WITH_DB = int(C.CLIENT_CONNECT_WITH_DB)
SCHEMA = {"db1": {"t1": {"a": "INT", "b": "TEXT"}, "tables": {"a": "INT"}}, "db2": {"t2": {"a": "INT"}, "columns": {"a": "INT"}},
          "app": {"t1": {"a": "INT"}, "boom": {"a": "INT"}}}
CATALOG = ["information_schema", "mysql"]
USER_TABLES = [(None, "t1"), ("db1", "t1"), ("db2", "t2"), ("app", "t1"), (None, "t9"), ("db1", "tables")]
# unqualified names that exist in information_schema: user tables or catalog tables depending on the current database
AMBIG = [(None, "tables"), (None, "columns"), (None, "schemata")]
CAT_TABLES = [("information_schema", "tables"), ("INFORMATION_SCHEMA", "COLUMNS"), ("information_schema", "schemata"),
              ("Information_Schema", "tables")]
CAT_COL = {"tables": "table_name", "columns": "column_name", "schemata": "schema_name", "COLUMNS": "column_name"}


class App(RecSession):
    def __init__(self):
        super().__init__(schema=SCHEMA)
        self.calls = []
        self.head = []   # statements seen by a middleware the application installs at the head of the chain

        async def head_mw(q):
            self.head.append(q.expression.sql(dialect="mysql"))
            return await q.next()
        self.middlewares.insert(0, head_mw)

    async def query(self, expression, sql, attrs):
        text = expression.sql(dialect="mysql")
        m = re.search(r"9\d\d\d\d", text)
        tag = int(m.group(0)) - 90000 if m else -1
        self.calls.append(("query", tag, self.database, sql, dict(attrs), type(expression).__name__))
        if "kaboom" in text:
            from mysql_mimic.errors import MysqlError, ErrorCode
            raise MysqlError("the application refuses this statement", ErrorCode.PARSE_ERROR)
        if "boom" in text:
            raise RuntimeError("application failure")
        return [(tag,)], ["tag"]

    async def use(self, database):
        self.calls.append(("use", database))
        await super().use(database)


def tname(t):
    db, n = t
    return n if db is None else "%s.%s" % (db, n)


def colof(t):
    return CAT_COL.get(t[1], "a") if (t[0] or "").lower() in CATALOG or t in AMBIG else "a"


class Gen:
    """statement grammar; each statement = (sql, abstract record)"""

    def __init__(self, rng):
        self.rng = rng

    def rec(self, kind, tag, static=False, dbs=(), use="x", fails=False):
        return dict(kind=kind, static=static, dbs=list(dbs), use=use, tag=tag, fails=fails)

    def pick_tables(self, flavour):
        r = self.rng
        if flavour == "user":
            return [r.choice(USER_TABLES) for _ in range(r.randrange(1, 4))]
        if flavour == "catalog":
            return [r.choice(CAT_TABLES) for _ in range(r.randrange(1, 3))]
        if flavour == "ambig":
            return [r.choice(AMBIG + CAT_TABLES) for _ in range(r.randrange(1, 3))]
        return [r.choice(USER_TABLES)] + [r.choice(CAT_TABLES + AMBIG)] + ([r.choice(USER_TABLES + CAT_TABLES)] if r.random() < 0.4 else [])

    def query_stmt(self, tag):
        """a SELECT / set operation over 1-3 tables in one of several shapes; the marker literal 9xxxx identifies it"""
        r = self.rng
        flavour = r.choice(["user", "user", "catalog", "ambig", "mixed"])
        ts = self.pick_tables(flavour)
        r.shuffle(ts)
        lit = 90000 + tag
        shape = r.choice(["from", "join", "from-subquery", "where-subquery", "union", "cte", "exists"]) if len(ts) > 1 else r.choice(["from", "from-subquery", "from", "cte"])
        a = ts[0]
        al = ["x%d" % i for i in range(len(ts))]
        if shape == "from":
            if len(ts) == 1:
                sql = "SELECT %s.%s, %d FROM %s AS %s" % (al[0], colof(a), lit, tname(a), al[0])
            else:
                sql = "SELECT %s.%s, %d FROM %s" % (al[0], colof(a), lit, ", ".join("%s AS %s" % (tname(t), x) for t, x in zip(ts, al)))
            kind = "select"
        elif shape == "join":
            sql = "SELECT %s.%s, %d FROM %s AS %s" % (al[0], colof(a), lit, tname(a), al[0])
            for t, x in zip(ts[1:], al[1:]):
                sql += " %s %s AS %s ON %s.%s = %s.%s" % (r.choice(["JOIN", "LEFT JOIN", "INNER JOIN"]), tname(t), x, x, colof(t), al[0], colof(a))
            kind = "select"
        elif shape == "from-subquery":
            inner = "SELECT %s AS c FROM %s" % (colof(a), tname(a))
            sql = "SELECT s.c, %d FROM (%s) AS s" % (lit, inner)
            for t, x in zip(ts[1:], al[1:]):
                sql += " JOIN %s AS %s ON %s.%s = s.c" % (tname(t), x, x, colof(t))
            kind = "select"
        elif shape == "where-subquery":
            b = ts[1]
            sql = "SELECT %s, %d FROM %s WHERE %s IN (SELECT %s FROM %s)" % (colof(a), lit, tname(a), colof(a), colof(b), tname(b))
            for t in ts[2:]:
                sql += " AND %s NOT IN (SELECT %s FROM %s)" % (colof(a), colof(t), tname(t))
            kind = "select"
        elif shape == "exists":
            b = ts[1]
            sql = "SELECT %s, %d FROM %s AS o WHERE EXISTS (SELECT 1 FROM %s AS i WHERE i.%s = o.%s)" % (colof(a), lit, tname(a), tname(b), colof(b), colof(a))
            ts = ts[:2]
            kind = "select"
        elif shape == "union":
            parts = ["SELECT %s AS c, %d AS m FROM %s" % (colof(t), lit, tname(t)) for t in ts]
            op = r.choice(["UNION", "UNION ALL"])
            sql = (" %s " % op).join(parts)
            kind = "setop"
        else:  # cte
            sql = "WITH c AS (SELECT %s AS v FROM %s) SELECT c.v, %d FROM c" % (colof(a), tname(a), lit)
            for t, x in zip(ts[1:], al[1:]):
                sql += " JOIN %s AS %s ON %s.%s = c.v" % (tname(t), x, x, colof(t))
            kind = "select"
        if r.random() < 0.2 and kind == "select" and shape in ("from", "join"):
            sql += " LIMIT 5"
        rec = self.rec(kind, tag, dbs=[t[0] for t in ts])
        rec["tables"] = list(ts)
        return sql, rec

    def stmt(self, tag, allow_fail):
        r = self.rng
        k = r.choice(["query"] * 6 + ["static", "static", "set", "set", "use", "use", "kill", "show", "show", "descT", "descS",
                                      "begin", "commit", "rollback", "other", "other", "other", "fail"])
        lit = 90000 + tag
        if k == "fail" and not allow_fail:
            k = "other"
        if k == "query":
            return self.query_stmt(tag)
        if k == "static":
            sql = r.choice(["SELECT 1", "SELECT 1 + 1, 'x'", "SELECT 2 LIMIT 1", "SELECT @@version_comment", "SELECT CONNECTION_ID()",
                            "select 'a' as b", "SELECT @@session.autocommit", "SELECT %d" % lit, "SELECT NOW()"])
            return sql, self.rec("select", tag, static=True)
        if k == "set":
            sql = r.choice(["SET autocommit = 1", "SET @@session.sql_mode = 'ANSI'", "SET NAMES utf8mb4", "SET SESSION sql_mode = ''",
                            "SET autocommit = 0, sql_mode = 'ANSI'", "SET character_set_results = 'utf8mb4'", "SET @@autocommit = ON",
                            "SET SESSION TRANSACTION READ ONLY", "SET NAMES utf8mb4 COLLATE utf8mb4_general_ci"])
            return sql, self.rec("set", tag)
        if k == "use":
            d = r.choice(["db1", "db2", "app", "information_schema", "INFORMATION_SCHEMA", "mysql", "Information_Schema", "other"])
            return r.choice(["USE %s", "use %s", "USE `%s`"]) % d, self.rec("use", tag, use=d)
        if k == "kill":
            return r.choice(["KILL 99991", "KILL QUERY 99992", "KILL CONNECTION 99993"]), self.rec("kill", tag)
        if k == "show":
            sql = r.choice(["SHOW VARIABLES", "SHOW VARIABLES LIKE 'version%'", "SHOW TABLES", "SHOW DATABASES", "SHOW COLUMNS FROM db1.t1",
                            "SHOW STATUS", "SHOW WARNINGS", "SHOW SESSION VARIABLES LIKE 'auto%'", "SHOW TABLES FROM db1", "SHOW FULL TABLES FROM db2",
                            "SHOW ERRORS", "SHOW INDEX FROM db1.t1"])
            rec = self.rec("show", tag)
            rec["needs_db"] = sql == "SHOW TABLES"
            return sql, rec
        if k == "descT":
            return r.choice(["DESCRIBE db1.t1", "DESC db2.t2", "EXPLAIN db1.t1", "DESCRIBE app.t1"]), self.rec("describeTable", tag)
        if k == "descS":
            t = r.choice(USER_TABLES + CAT_TABLES)
            return r.choice(["EXPLAIN", "DESCRIBE", "DESC"]) + " SELECT a, %d FROM %s" % (lit, tname(t)), self.rec("describeSelect", tag)
        if k == "begin":
            return r.choice(["BEGIN", "START TRANSACTION", "begin"]), self.rec("begin", tag)
        if k == "commit":
            return r.choice(["COMMIT", "commit"]), self.rec("commit", tag)
        if k == "rollback":
            return r.choice(["ROLLBACK", "rollback"]), self.rec("rollback", tag)
        if k == "fail":
            if r.random() < 0.6:
                # the application fails (any exception / a MysqlError of its own), also for statements that carry optimizer
                # hints: it has seen the statement once and must not see it again
                hint = r.choice(["", "", "/*+ SET_VAR(max_execution_time=100) */ ", "/*+ SET_VAR(sql_mode='ANSI') SET_VAR(autocommit=0) */ ", "/*+ NO_INDEX_MERGE(t) */ "])
                tbl = r.choice(["app.boom", "app.kaboom", "app.kaboom"])
                return "SELECT %sa, %d FROM %s" % (hint, lit, tbl), self.rec("select", tag, dbs=["app"], fails=True)
            return r.choice(["SET nonexistent_variable_x = 1", "SET GLOBAL autocommit = 1", "SET @uservar = 1"]), self.rec("set", tag, fails=True)
        t = r.choice(USER_TABLES + CAT_TABLES)
        sql = r.choice([
            "INSERT INTO %s VALUES (%d)" % (tname(t), lit), "UPDATE %s SET a = %d" % (tname(t), lit), "DELETE FROM %s WHERE a = %d" % (tname(t), lit),
            "CREATE TABLE x%d (a INT)" % lit, "DROP TABLE x%d" % lit, "INSERT INTO %s SELECT table_name, %d FROM information_schema.tables" % (tname(t), lit),
            "CREATE TABLE x%d AS SELECT table_name FROM information_schema.tables" % lit, "REPLACE INTO %s VALUES (%d)" % (tname(t), lit),
            "ALTER TABLE x%d ADD COLUMN b INT" % lit, "CREATE VIEW v%d AS SELECT a FROM %s" % (lit, tname(t)),
        ])
        return sql, self.rec("other", tag)

    def text(self, allow_fail=True):
        r = self.rng
        n = r.choice([1, 1, 1, 2, 2, 3, 4, 6])
        stmts = []
        for i in range(n):
            s = self.stmt(i, allow_fail)
            stmts.append(s)
        parts = []
        for sql, _ in stmts:
            if r.random() < 0.15:
                sql = "/* c%d */ %s" % (r.randrange(100), sql)
            if r.random() < 0.1:
                sql = sql + " -- trailing\n"
            parts.append(sql)
        sep = r.choice(["; ", ";", " ;\n", ";;", "; /* between */ ; "]) if n > 1 or r.random() < 0.3 else ";"
        text = sep.join(parts)
        tail = r.choice(["", "", ";", " ; ", "; -- done", "; /* end */", ";;"])
        return text + tail, [rec for _, rec in stmts]


def stmt_token(rec):
    return "%s/%d/%s/%s/%d/%d" % (rec["kind"], 1 if rec["static"] else 0, ",".join("-" if d is None else d for d in rec["dbs"]),
                                  rec["use"], rec["tag"], 1 if rec["fails"] else 0)


def dbtok(d):
    return "-" if d is None else d


def annotate(db, recs, tables):
    """history-dependent ground truth: a query answered by the library raises iff one of its tables does not exist in
    the catalog database it resolves to.  tables: per statement the (db, name) list.  Returns the database afterwards."""
    from mysql_mimic.constants import INFO_SCHEMA
    for rec, ts in zip(recs, tables):
        k = rec["kind"]
        if k in ("select", "setop") and ts:
            resolved = [((d if d is not None else (db or "")), n) for d, n in ts]
            if all(d.lower() in CATALOG for d, _ in resolved):
                # the catalog executor resolves an unqualified name in any catalog database
                anycat = set().union(*[set(v) for v in INFO_SCHEMA.values()])
                if any((n.lower() not in INFO_SCHEMA[d.lower()]) if od is not None else (n.lower() not in anycat)
                       for (d, n), (od, _) in zip(resolved, ts)):
                    rec["fails"] = True
        if k == "show" and rec.get("needs_db") and not db:
            rec["fails"] = True   # SHOW TABLES without a selected database
        if rec["fails"]:
            return db
        if k == "use":
            db = rec["use"]
    return db


def expected_by_property(db, recs):
    """ground truth from the generator, written against the property's text (not the model): returns
    (app calls [(tag, db)], uses [db], final db, outcome kind)"""
    calls, uses, last = [], [], None
    for rec in recs:
        k = rec["kind"]
        control = k in ("set", "use", "kill", "show", "describeTable", "begin", "commit", "rollback")
        fromless = k == "select" and rec["static"]
        resolved = [(d if d is not None else (db or "")) for d in rec["dbs"]]
        catalog_only = k in ("select", "setop") and resolved and all(d.lower() in CATALOG for d in resolved)
        lib = control or fromless or catalog_only
        if not lib:
            calls.append((rec["tag"], db))
        if rec["fails"]:
            return calls, uses, db, "err"
        if k == "use":
            uses.append(rec["use"])
            db = rec["use"]
        last = ("app:%d" % rec["tag"]) if not lib else ("ok" if k in ("set", "use", "kill", "begin", "commit", "rollback") else "rs")
    return calls, uses, db, last or "ok"


def classify(out, caps, binary=False):
    pk = [p for _, p in out]
    if not pk:
        return "none"
    if pk[0][:1] == b"\xff":
        return "err"
    if pk[0][:1] == b"\x00" and len(pk) == 1:
        return "ok"
    try:
        rs = decode_resultset(pk, caps)
    except (Bad, IndexError, struct.error) as e:
        return "undecodable:%r" % (e,)
    if rs["term"][0] == "ERR":
        return "rs+err"
    names = [c["name"] for c in rs["cols"]]
    if names == [b"tag"] or names == ["tag"]:
        rows = rs["rows"]
        try:
            if binary:
                return "app:%d" % struct.unpack_from("<q", rows[0], 2)[0]
            return "app:%d" % int(rows[0][1:])
        except Exception:  # noqa
            return "app:?"
    return "rs"


async def run_history(chk, rng, hist, caps, hs_db):
    """hist: list of events ('text', sql, recs, via, attrs) | ('initdb', db) | ('cu', db).  Returns per-text observations."""
    app = App()
    srv = mkserver([app])
    a = Peer(srv)
    await a.login(caps=caps, db=hs_db)
    obs = []
    for ev in hist:
        if a.done():
            obs.append(("dead",))
            continue
        if ev[0] == "initdb":
            out = await a.cmd(b"\x02" + ev[1].encode())
            obs.append(("initdb", classify(out, a.caps), app.database))
        elif ev[0] == "cu":
            out = await a.cmd(com_change_user(b"u", b"", ev[1].encode(), caps=a.caps))
            obs.append(("cu", classify(out, a.caps), app.database))
        else:
            _, sql, recs, via, attrs = ev
            n0 = len(app.calls)
            h0 = len(app.head)
            if via == "query":
                out = await a.cmd(com_query(sql.encode(), a.caps, attrs), n=120)
            else:
                o = await a.cmd(b"\x16" + sql.encode())
                if not o or o[0][1][:1] != b"\x00":
                    obs.append(("text", "prepare-failed", [], [], app.database))
                    continue
                sid = struct.unpack_from("<I", o[0][1], 1)[0]
                out = await a.cmd(com_stmt_execute(sid, [], caps=a.caps, attrs=attrs), n=120)
                await a.cmd(b"\x19" + struct.pack("<I", sid), n=5)
            new = app.calls[n0:]
            obs.append(("text", classify(out, a.caps, via != "query"), new, app.head[h0:], app.database))
    await a.finish()
    return obs


def gen_history(rng, gen):
    hist = []
    for _ in range(rng.randrange(1, 7)):
        x = rng.random()
        if x < 0.12:
            hist.append(("initdb", rng.choice(["db1", "db2", "information_schema", "MYSQL", "app", "nowhere"])))
        elif x < 0.2:
            hist.append(("cu", rng.choice(["db1", "", "information_schema", "app"])))
        else:
            sql, recs = gen.text()
            via = "query" if rng.random() < 0.7 else "prepared"
            attrs = []
            if rng.random() < 0.5:
                attrs = [(0xFD, False, b"v%d" % rng.randrange(100), b"k%d" % i) for i in range(rng.randrange(1, 3))]
            hist.append(("text", sql, recs, via, attrs))
    return hist


async def cases(chk, rng, count):
    gen = Gen(rng)
    lines, impl, descs = [], [], []
    for i in range(count):
        caps = int(BASE) | (QA if rng.random() < 0.6 else 0)
        hs_db = rng.choice([None, None, "db1", "app", "information_schema", "Mysql", ""])
        if hs_db is not None:
            caps |= WITH_DB
        hist = gen_history(rng, gen)
        obs = await run_history(chk, rng, hist, caps, hs_db)
        toks = ["H:" + dbtok(hs_db)]
        db = hs_db
        impl_parts = []
        dead = False
        desc = dict(case=i, seed=chk.seed, handshake_db=hs_db, query_attrs=bool(caps & QA),
                    history=[(e[0], e[1], e[3]) if e[0] == "text" else e for e in hist])
        for ev, ob in zip(hist, obs):
            if ob[0] == "dead":
                dead = True
                chk.fail("connection died during a history of statements", desc, None)
                break
            if ev[0] == "initdb":
                toks.append("I:" + ev[1])
                db = ev[1]
                if ob[1] != "ok" or ob[2] != db:
                    chk.fail("COM_INIT_DB did not select the database the application observes", desc, ob)
                continue
            if ev[0] == "cu":
                toks.append("C:" + ev[1])
                db = ev[1]
                if ob[1] != "ok" or ob[2] != db:
                    chk.fail("COM_CHANGE_USER did not select the database the application observes", desc, ob)
                continue
            _, sql, recs, via, attrs = ev
            annotate(db, recs, [r.get("tables", []) for r in recs])
            toks.append("T:" + ";".join(stmt_token(r) for r in recs))
            _, outcome, new, head, dbafter = ob
            got_calls = [(c[1], c[2]) for c in new if c[0] == "query"]
            got_uses = [c[1] for c in new if c[0] == "use"]
            want_calls, want_uses, db2, want_outcome = expected_by_property(db, recs)
            tdesc = dict(desc, text=sql, via=via, records=[stmt_token(r) for r in recs], db_before=db)
            chk.count("via:" + via)
            chk.count("stmts:%d" % len(recs))
            for r in recs:
                chk.count("kind:" + r["kind"] + ("/static" if r["static"] else "") + ("/fails" if r["fails"] else ""))
            if got_calls != want_calls:
                chk.fail("application calls are not exactly the statements it must handle, once, in order (with the selected database)",
                         tdesc, dict(got=got_calls, want=want_calls))
            nhandled = len(recs)
            for j, r in enumerate(recs):
                if r["fails"]:
                    nhandled = j + 1
                    break
            if head is not None and len(head) != nhandled:
                chk.fail("a middleware at the head of the chain did not see each statement exactly once", tdesc, dict(seen=len(head), statements=nhandled, head=head[:8]))
            if got_uses != want_uses:
                chk.fail("USE statements not applied once each in order", tdesc, dict(got=got_uses, want=want_uses))
            want_attrs = {a_[3].decode(): a_[2].decode() for a_ in attrs} if (caps & QA) else {}
            for c in new:
                if c[0] == "query":
                    if c[3] != sql:
                        chk.fail("application did not receive the client's original SQL text", tdesc, dict(got=c[3]))
                    if c[4] != want_attrs:
                        chk.fail("application did not receive the client's query attributes", tdesc, dict(got=c[4], want=want_attrs))
            if outcome != want_outcome:
                chk.fail("client did not receive the result of the last statement", tdesc, dict(got=outcome, want=want_outcome))
            if dbafter != db2:
                chk.fail("database after the text is not the one last selected", tdesc, dict(got=dbafter, want=db2))
            # projection of the implementation's behaviour comparable with the model's trace
            impl_parts.append(",".join(["%d@%s>app" % (t, dbtok(d)) for t, d in got_calls]) + "#" + ",".join(got_uses) + "#" + outcome)
            db = db2
            chk.case((tuple(stmt_token(r) for r in recs), db, via), sample=tdesc if i < 2 else None)
        if dead:
            continue
        lines.append("dsp run " + " ".join(toks))
        final = obs[-1][4] if obs and obs[-1][0] == "text" else (obs[-1][2] if obs else hs_db)
        impl.append(dbtok(final) + " " + "|".join(impl_parts))
        descs.append((desc, hist))
    out = drive(lines)
    want = []
    for m, (desc, hist) in zip(out, descs):
        # project the model's trace: app entries, USE targets, outcome
        sp = m.split(" ", 1)
        fin = sp[0]
        traces = sp[1].split("|") if len(sp) > 1 and sp[1] != "" else []
        texts = [e for e in hist if e[0] == "text"]
        parts = []
        if len(traces) < len(texts):
            traces += [""] * (len(texts) - len(traces))
        for tr, ev in zip(traces, texts):
            recs = ev[2]
            ents = [e for e in tr.split(",") if e]
            apps = [e for e in ents if e.endswith(">app")]
            uses = []
            for e in ents:
                if e.endswith(">use"):
                    tag = int(e.split("@")[0])
                    rec = [r for r in recs if r["tag"] == tag][0]
                    if not rec["fails"]:
                        uses.append(rec["use"])
            failed = len(ents) > 0 and [r for r in recs if r["tag"] == int(ents[-1].split("@")[0])][0]["fails"]
            if failed:
                outc = "err"
            elif not ents:
                outc = "ok"
            else:
                who = ents[-1].split(">")[1]
                outc = "app:%s" % ents[-1].split("@")[0] if who == "app" else ("ok" if who in ("set", "use", "kill", "begin", "commit", "rollback") else "rs")
            parts.append(",".join(apps) + "#" + ",".join(uses) + "#" + outc)
        want.append(fin + " " + "|".join(parts))
    chk.compare("dispatch: application calls / USEs / outcome / database = model", [d for d, _ in descs], want, impl)


def main():
    chk = Check("C13", sys.argv[1:])
    chk.rule = ("one history entry per statement in textual order (each_statement_once_in_order), library iff control / FROM-less / catalog-only "
                "(library_iff), application log = forwarded statements in order (app_calls_are_forwarded_in_order), client gets the last result "
                "(client_gets_last), database = last selected (database_tracks_client)")
    chk.tie(["MimicProps.C13"])
    chk.run_replays(["D13", "D13b", "D13c"])
    rng = random.Random(chk.seed * 104729 + 13)

    async def go():
        await cases(chk, rng, 9000 if chk.thorough else 220)
    asyncio.run(go())
    chk.assumptions = [
        "sqlglot's parser decides what the statements of a text are and which tables a query reads (find_tables / traverse_scope); the harness's "
        "grammar states them by construction and the comparison would expose a disagreement",
        "database names are ASCII (lower-casing in the model is ASCII)",
        "the content of library-produced result sets is not compared here (C14/C16), only who answered",
    ]
    chk.finish()


if __name__ == "__main__":
    guarded("C13", main)
