"""C06 — prepared-statement parameters are bound as data, never as SQL.

Tie: Extracted/Params.lean (REGEX_PARAM source, escape replacements, single-pass substitution, string type set, valid
type codes) + correspondence of Mimic.Params.parseExecute / phCount with the real connection (prepare, long data in
chunks, repeated executions) on templates from the property's grammar and adversarial values; oracle: the SQL the
application receives tokenises (sqlglot MySQL tokenizer) to the template's tokens with each placeholder replaced by
exactly one literal token carrying the value."""
import asyncio
import os
import random
import struct
import sys

sys.path.insert(0, os.path.join(os.path.dirname(os.path.abspath(__file__)), ".."))
from framework import Check, drive, hexs  # noqa: E402
from lib import BASE, C, Peer, RawSession, mkserver, com_stmt_execute, T_BLOB  # noqa: E402
from paramgen import gen_param, gen_string, STRS, INTS, expected_value  # noqa: E402

from sqlglot.dialects.mysql import MySQL  # noqa: E402
from sqlglot.tokens import TokenType  # noqa: E402

PLAIN = ["select ", "a", ", ", " from t", " where x = ", " and ", "(", ")", "1", " ", "b ", "\n", "insert into t values ", "="]
QUOTED = ["'?'", '"?"', "`?`", "'x?y'", '"a ? b"', "`c?`", "''", "'it'", '"q"']


def gen_template(rng):
    """→ (template, separated): `separated` = every placeholder is delimited from neighbouring tokens by a space or
    punctuation, so that the tokenizer oracle applies (the model comparison applies to every template)"""
    parts = []
    separated = rng.random() < 0.8
    for _ in range(rng.randrange(1, 10)):
        r = rng.random()
        if r < 0.35:
            parts.append(" ? " if separated else "?")
        elif r < 0.6:
            parts.append((" %s " if separated else "%s") % rng.choice(QUOTED))
        else:
            parts.append(rng.choice(PLAIN))
    return "".join(parts), separated


def toks(sql):
    return [(t.token_type, t.text) for t in MySQL().tokenize(sql)]


def expected_tokens(template, values):
    """template tokens with the i-th PLACEHOLDER replaced by the tokens of the literal denoting values[i]"""
    out, i = [], 0
    for tt, text in toks(template):
        if tt == TokenType.PLACEHOLDER:
            v = values[i]
            i += 1
            if v is None:
                out.append((TokenType.NULL, "NULL"))
            elif isinstance(v, str):
                out.append((TokenType.STRING, v))
            else:
                out.extend(toks(repr(v) if isinstance(v, float) else str(v)))
        else:
            out.append((tt, text))
    return out, i


async def run_case(chk, rng, lines, impl, qa):
    caps = BASE | (C.CLIENT_QUERY_ATTRIBUTES if qa else 0)
    fail = [False]

    def result(sess, sql, attrs):
        if fail[0]:
            raise RuntimeError("application failure")
        return [(1,)], ["a"]

    s = RawSession(result)
    srv = mkserver([s])
    a = Peer(srv)
    await a.login(caps=caps)
    template, separated = gen_template(rng)
    out = await a.cmd(b"\x16" + template.encode("utf8"))
    if not out or out[0][1][:1] != b"\x00":
        chk.fail("prepare failed", dict(template=template, reply=[p.hex() for _, p in out][:2]))
        await a.finish()
        return
    sid, _, nparams = struct.unpack_from("<IHH", out[0][1], 1)
    lines.append("par count " + hexs(template.encode("utf8")))
    impl.append(str(nparams))
    # oracle for the count: placeholders = `?` tokens of the template (outside quotes)
    want_n = sum(1 for tt, _ in toks(template) if tt == TokenType.PLACEHOLDER) if separated else nparams
    if nparams != want_n:
        chk.fail("num_params announced at prepare differs from the placeholders outside quotes",
                 dict(template=template, announced=nparams, placeholders=want_n))
    for rep in range(rng.randrange(1, 5)):
        fail[0] = rng.random() < 0.25  # the application rejects this execution; the next one must be unaffected
        allow_float = rng.random() < 0.25
        params = [gen_param(rng, allow_float=allow_float) for _ in range(nparams)]
        # long data for some string parameters, in random chunking
        long_idx = {}
        for i, p in enumerate(params):
            if p[2] is not None and p[0] in STRS and rng.random() < 0.2:
                data = p[2]
                k = rng.randrange(1, 4)
                cuts = sorted(rng.randrange(0, len(data) + 1) for _ in range(k - 1))
                chunks = [data[x:y] for x, y in zip([0] + cuts, cuts + [len(data)])]
                # cut inside characters is fine: the bytes are decoded after concatenation
                for c in chunks:
                    await a.cmd(b"\x18" + struct.pack("<IH", sid, i) + c, n=10)
                long_idx[i] = data
                params[i] = (T_BLOB, False, p[2], p[3])
        if nparams and rng.random() < 0.15:
            # long data that is abandoned: sent, then discarded with COM_STMT_RESET; the execution that follows supplies the
            # value inline, and that inline value is what must be bound
            j = rng.randrange(nparams)
            if j not in long_idx:
                await a.cmd(b"\x18" + struct.pack("<IH", sid, j) + b"stale long data ' \\ ?", n=10)
                await a.cmd(b"\x1a" + struct.pack("<I", sid), n=20)
                for i2, d2 in long_idx.items():        # the reset discarded these as well: send them again
                    await a.cmd(b"\x18" + struct.pack("<IH", sid, i2) + d2, n=10)
                chk.count("exec:long-data-abandoned-by-reset")
        stale = {}
        if nparams and rng.random() < 0.2:
            # long data for a parameter that this execution then flags NULL: NULL is what is bound, and the data must not
            # survive into the next execution of the statement (which supplies its values inline)
            j = rng.randrange(nparams)
            if j not in long_idx:
                stale[j] = b"left over ' \\ ? long data"
                await a.cmd(b"\x18" + struct.pack("<IH", sid, j) + stale[j], n=10)
                params[j] = (T_BLOB, False, None, params[j][3])
                chk.count("exec:long-data-for-a-null-parameter")
        before = len(s.log)
        payload = com_stmt_execute(sid, params, caps=caps, skip=list(long_idx))
        out = await a.cmd(payload, n=50)
        got = [l[1] for l in s.log[before:] if l[0] == "hq"]
        has_float = any(isinstance(p[2], float) for p in params)
        vals = [expected_value(p) for p in params]
        chk.case(("exec", template, tuple(repr(v) for v in vals), tuple(sorted(long_idx)), qa), nontrivial=nparams > 0,
                 sample=dict(template=template, values=[repr(v)[:30] for v in vals], long_data=sorted(long_idx), received=got[:1]) if rng.random() < 0.004 else None)
        chk.count("exec:nparams=%d" % min(nparams, 5))
        if long_idx:
            chk.count("exec:long-data")
        if fail[0]:
            chk.count("exec:application-failure")
        if len(got) != 1:
            chk.fail("execute did not reach the application exactly once", dict(template=template, values=[repr(v) for v in vals],
                     reply=[p[:40].hex() for _, p in out][:2], received=got))
        elif separated:
            # oracle
            try:
                exp, used = expected_tokens(template, vals)
                rt = toks(got[0])
                ok = used == nparams and len(rt) == len(exp) and all(
                    (a_[0] == b_[0] and (a_[1] == b_[1] or (a_[0] == TokenType.NUMBER and float(a_[1]) == float(b_[1]))))
                    for a_, b_ in zip(rt, exp))
            except Exception as e:  # noqa
                ok = False
            if not ok:
                chk.fail("received SQL is not the template with each placeholder replaced by a literal of its value",
                         dict(template=template, values=[repr(v) for v in vals], received=got[0]))
        if not has_float:
            bufs = ",".join("%d=%s" % (i, hexs(d)) for i, d in sorted({**long_idx, **stale}.items())) or "-"
            lines.append("par exec %d %d %s %s %s" % (1 if qa else 0, nparams, hexs(template.encode("utf8")), bufs, hexs(payload[5:])))
            impl.append("sql=%s attrs=- cursor=0" % hexs(got[0].encode("utf8")) if len(got) == 1 else "err")
    await a.finish()


async def parsed_route(chk, rng, count):
    """through the real Session (parse + middlewares): the string literals of the expression handed to the application's
    query() are the bound values — whatever sql_mode / character-set statements the session executed before (the binder's
    literal syntax and the parser's must agree in every session state)"""
    from lib import RecSession
    from sqlglot import exp
    modes = ["NO_BACKSLASH_ESCAPES", "ANSI_QUOTES", "ANSI", "TRADITIONAL", "PIPES_AS_CONCAT,NO_BACKSLASH_ESCAPES", "", "HIGH_NOT_PRECEDENCE"]
    for i in range(count):
        seen = []

        def beh(sess, e, sql, attrs):
            seen.append(e)
            return [(1,)], ["a"]
        s = RecSession(beh)
        srv = mkserver([s])
        a = Peer(srv)
        await a.login()
        pre = []
        if rng.random() < 0.7:
            pre.append("SET SESSION sql_mode = '%s'" % rng.choice(modes))
        if rng.random() < 0.2:
            pre.append("SET NAMES utf8mb4")
        for st in pre:
            await a.cmd(b"\x03" + st.encode())
        n = rng.choice([1, 2, 3])
        template = "SELECT " + ", ".join(["?"] * n) + " FROM x"
        out = await a.cmd(b"\x16" + template.encode())
        sid = struct.unpack_from("<I", out[0][1], 1)[0]
        vals = [gen_string(rng) for _ in range(n)]
        vals = [v for v in vals]
        params = [(253, False, v.encode("utf8"), b"") for v in vals]
        seen.clear()
        rep = await a.cmd(com_stmt_execute(sid, params), n=50)
        await a.finish()
        chk.count("parsed-route:" + (pre[0].split("=")[-1].strip() if pre else "default"))
        chk.case(("parsed", tuple(pre), tuple(vals)))
        desc = dict(session_statements_before=pre, template=template, values=[repr(v) for v in vals])
        if len(seen) != 1:
            chk.fail("execute did not reach the application's query() exactly once", desc, dict(reply=[p[:40].hex() for _, p in rep][:2]))
            continue
        lits = [l.this for l in seen[0].find_all(exp.Literal) if l.is_string]
        if lits != vals:
            chk.fail("the literals of the expression the application receives are not the bound values", desc, dict(literals=[repr(x) for x in lits]))


async def named_parameters(chk, rng, count):
    """binding is positional: the i-th placeholder gets the i-th value of the parameter block whatever NAMES the client attached to
    the statement's parameters (libmysqlclient's mysql_stmt_bind_named_param sends them) and whatever attributes follow"""
    for i in range(count):
        caps = BASE | C.CLIENT_QUERY_ATTRIBUTES
        s = RawSession(lambda sess, sql, attrs: ([(1,)], ["a"]))
        srv = mkserver([s])
        a = Peer(srv)
        await a.login(caps=caps)
        n = rng.choice([1, 2, 3])
        out = await a.cmd(b"\x16select " + b", ".join([b"?"] * n) + b" from t")
        sid = struct.unpack_from("<I", out[0][1], 1)[0]
        named = [rng.random() < 0.7 for _ in range(n)]
        if not any(named):
            named[rng.randrange(n)] = True
        params = [(253, False, b"v%d" % k, (b"p%d" % k) if named[k] else b"") for k in range(n)]
        attrs = rng.choice([[], [(253, False, b"x' OR '1'='1", b"")], [(253, False, b"mallory", b""), (3, False, 5, b"lim")], [(253, False, b"t", b"trace")]])
        before = len(s.log)
        rep = await a.cmd(com_stmt_execute(sid, params, caps=caps, attrs=attrs), n=50)
        got = [l[1] for l in s.log[before:] if l[0] == "hq"]
        await a.finish()
        want = "select " + ", ".join("'v%d'" % k for k in range(n)) + " from t"
        chk.count("exec:named-parameters")
        chk.case(("named", n, tuple(named), len(attrs), i))
        if got != [want]:
            chk.fail("placeholders were not bound positionally when the statement's parameters carry names",
                     dict(template="select %s from t" % ", ".join("?" * n), names=[p[3].decode() for p in params],
                          trailing_attributes=[(x[3].decode(), repr(x[2])) for x in attrs]),
                     dict(received=got[:2], expected=want, reply=[pk[:60] for _, pk in rep][:1]))


def main():
    chk = Check("C06", sys.argv[1:])
    chk.rule = ("templates from the grammar (text | ? | '?' | \"?\" | `?` | other quoted runs)*, parameter tuples over an adversarial "
                "alphabet (quotes, backslashes, ?, NUL, newlines, %, _, \\1, \\g<0>, multi-byte), integers of every width/signedness at "
                "their boundaries, floats, NULLs, long data in random chunking, repeated executions, with and without "
                "CLIENT_QUERY_ATTRIBUTES. non-trivial = at least one placeholder")
    chk.assumptions = ["sqlglot's MySQL tokenizer defines what a literal denotes (oracle side)",
                       "floats: str(float) is opaque; float parameters are checked by the oracle only"]
    chk.extra["table_lemmas"] = ["source_facts"]
    chk.tie(["MimicProps.C06"])
    chk.run_replays(["D6"])
    rng = random.Random(chk.seed)
    lines, impl = [], []

    async def go():
        for k in range(500 if not chk.thorough else 60000):
            await run_case(chk, rng, lines, impl, qa=(k % 3 == 0))
        await parsed_route(chk, rng, 120 if not chk.thorough else 6000)
        await named_parameters(chk, rng, 30 if not chk.thorough else 600)

    asyncio.run(go())
    model = drive(lines)
    chk.compare("prepare / long data / execute vs Mimic.Params", lines, model, impl)
    chk.finish()


if __name__ == "__main__":
    from framework import guarded
    guarded("C06", main)
