"""C16 — catalog answers mirror the application's declared schema exactly.

Tie: (a) extraction of the built-in catalog (INFO_SCHEMA flattened by the code's own mapping_to_columns), of the WHERE
templates and source tables of show_statement_to_info_schema_query and of the three branches of like_to_regex (theorems
show_filters_shape, like_translation_shape, builtins_always_listed are re-checked); (b) correspondence of Mimic.Catalog /
Mimic.Like with a real session: random mappings of depth 2, 3 and 4 (names over identifier characters incl. `_` and
`$`, shared table / column names across databases and catalogs), every current-database setting, SHOW DATABASES /
TABLES / COLUMNS (FULL, FROM, IN, db.t), DESCRIBE, COM_FIELD_LIST, INFORMATION_SCHEMA.SCHEMATA / TABLES / COLUMNS and
SHOW VARIABLES, with LIKE patterns built from literals, % and _ over those names.

The property's own oracle — expected rows computed directly from the mapping with an independent LIKE matcher — runs
on every answer, and every column-definition packet of COM_FIELD_LIST is decoded strictly."""
import asyncio
import os
import random
import struct
import sys

sys.path.insert(0, os.path.join(os.path.dirname(os.path.abspath(__file__)), ".."))
from framework import Check, drive, guarded  # noqa: E402
from lib import (BASE, C, Peer, RecSession, mkserver, decode_resultset, decode_text_row, parse_coldef, parse_err, Bad)  # noqa: E402
from mysql_mimic.constants import INFO_SCHEMA  # noqa: E402
from mysql_mimic.variables import SYSTEM_VARIABLES  # noqa: E402

WITH_DB = int(C.CLIENT_CONNECT_WITH_DB)
TYPES = ["INT", "TEXT", "DATE", "DOUBLE", "VARCHAR", "BIGINT", "JSON"]
ALPHA = "abcxyz_$019"


def like_ref(p, s):
    """independent SQL LIKE: whole string, % any run, _ one character (iterative DP)"""
    n, m = len(p), len(s)
    ok = [[False] * (m + 1) for _ in range(n + 1)]
    ok[0][0] = True
    for i in range(1, n + 1):
        for j in range(0, m + 1):
            if p[i - 1] == "%":
                ok[i][j] = ok[i - 1][j] or (j > 0 and ok[i][j - 1])
            elif j > 0 and (p[i - 1] == "_" or p[i - 1] == s[j - 1]):
                ok[i][j] = ok[i - 1][j - 1]
    return ok[n][m]


def gen_name(rng, pool):
    if pool and rng.random() < 0.35:
        return rng.choice(pool)
    n = rng.choice("abcxyz") + "".join(rng.choice(ALPHA) for _ in range(rng.randrange(0, 5)))
    pool.append(n)
    return n


def gen_mapping(rng):
    """returns (depth, python mapping, canonical 4-level list [(cat, [(db, [(tbl, [(col, ty)])])])])"""
    depth = rng.choice([2, 3, 3, 3, 4])
    tpool, cpool, dpool = [], [], []

    def cols():
        out = {}
        for _ in range(rng.randrange(1, 6)):
            out.setdefault(gen_name(rng, cpool), rng.choice(TYPES))
        return out

    def tables():
        out = {}
        for _ in range(rng.randrange(1, 5)):
            out.setdefault(gen_name(rng, tpool), cols())
        return out

    def dbs():
        out = {}
        for _ in range(rng.randrange(1, 4)):
            out.setdefault(gen_name(rng, dpool), tables())
        return out
    def with_empties(d, make_empty_name):
        """declared containers without content, at random positions (also first): they declare nothing that could be listed,
        but they must not disturb how the rest of the mapping is read"""
        if rng.random() < 0.35:
            items = list(d.items())
            for k in range(rng.randrange(1, 3)):
                items.insert(rng.choice([0, 0, len(items)]) if items else 0, (make_empty_name(k), {}))
            return dict(items)
        return d
    if depth == 2:
        m = tables()
        if rng.random() < 0.3:
            m = with_empties(m, lambda k: "emptyt%d" % k)
    elif depth == 3:
        m = dbs()
        for d in list(m):
            m[d] = with_empties(m[d], lambda k: "emptyt%d" % k)
        m = with_empties(m, lambda k: "emptydb%d" % k)
    else:
        m = {"def": dbs()}
        if rng.random() < 0.6:
            m["cat2"] = dbs()
        for c in list(m):
            m[c] = with_empties(m[c], lambda k: "emptydb%d" % k)
        if rng.random() < 0.3:
            # a catalog that holds only table-less databases, possibly in front of the populated ones
            items = list(m.items())
            items.insert(rng.choice([0, len(items)]), ("staging", {"scratch": {}, "tmp": {}}))
            m = dict(items)
    canon = canon_of(depth, m)
    return depth, m, canon


def canon_of(depth, m):
    if depth == 2:
        return [("def", [("", [(t, list(c.items())) for t, c in m.items()])])]
    if depth == 3:
        return [("def", [(d, [(t, list(c.items())) for t, c in ts.items()]) for d, ts in m.items()])]
    return [(cname, [(d, [(t, list(c.items())) for t, c in ts.items()]) for d, ts in ds.items()]) for cname, ds in m.items()]


def mutate(rng, depth, m, k):
    """the application changes what it declares: a new table, a new column, a new database"""
    top = m if depth < 4 else m["def"]
    kind = rng.choice(["table", "column", "db", "reorder", "reorder", "retype"] if depth >= 3 else ["table", "column", "reorder", "reorder", "retype"])
    if kind in ("reorder", "retype"):
        # the table is declared again with the same column names: in another order (dropped and recreated, ALTER … FIRST /
        # AFTER), or with another type for one column — as a new dict object, the way an application rebuilds its mapping
        tgt = top if depth == 2 else top[rng.choice(list(top))] if top else None
        cands = [t for t in (tgt or {}) if len(tgt[t]) >= (2 if kind == "reorder" else 1)]
        if not cands:
            kind = "table"
        else:
            t = rng.choice(cands)
            items = list(tgt[t].items())
            if kind == "reorder":
                j = rng.randrange(1, len(items))
                items = items[j:] + items[:j] if rng.random() < 0.5 else list(reversed(items))
            else:
                j = rng.randrange(len(items))
                items[j] = (items[j][0], "BIGINT" if str(items[j][1]).upper() != "BIGINT" else "TEXT")
            tgt[t] = dict(items)
            return kind
    if kind == "db":
        top["newdb%d" % k] = {"nt%d" % k: {"nc": "INT"}}
    elif kind == "table":
        tgt = top if depth == 2 else top[rng.choice(list(top))]
        tgt["nt%d" % k] = {"nc%d" % k: "TEXT", "nd": "INT"}
    else:
        tgt = top if depth == 2 else top[rng.choice(list(top))]
        if not tgt:
            tgt["nt%d" % k] = {}
        t = rng.choice(list(tgt))
        tgt[t]["nc%d" % k] = "DATE"
    return kind


class LiveSession(RecSession):
    """an application whose declared schema is whatever its mapping holds now; `fresh` hands out a new copy per call"""
    fresh = False

    async def schema(self):
        import copy
        return copy.deepcopy(self._schema) if self.fresh else self._schema


def tokens(canon):
    out = []
    for c, ds in canon:
        out.append("c:" + c)
        for d, ts in ds:
            out.append("d:" + d)
            for t, cs in ts:
                out.append("t:" + t)
                for n, ty in cs:
                    out.append("k:%s:%s" % (n, ty))
    return out


def all_cols(canon):
    """declared columns then the built-in ones, as (cat, db, tbl, col, ty)"""
    out = []
    for c, ds in canon:
        for d, ts in ds:
            for t, cs in ts:
                for n, ty in cs:
                    out.append((c, d, t, n, ty))
    for d, ts in INFO_SCHEMA.items():
        for t, cs in ts.items():
            for n, ty in cs.items():
                out.append(("def", d, t, n, str(ty)))
    return out


def gen_pattern(rng, names):
    """patterns over the names' alphabet: literals, %, _, mutations of real names"""
    r = rng.random()
    names = [n for n in names if n]
    base = rng.choice(names) if names else "a"
    if r < 0.15:
        return base
    if r < 0.3:
        return base[:rng.randrange(0, len(base) + 1)] + "%"
    if r < 0.4:
        return "%" + base[rng.randrange(0, len(base) + 1):]
    if r < 0.55:
        i = rng.randrange(0, len(base))
        return base[:i] + "_" + base[i + 1:]
    if r < 0.65:
        return "_" * len(base)
    if r < 0.72:
        return "%"
    if r < 0.8:
        i = rng.randrange(0, len(base) + 1)
        return base[:i] + "%" + base[i:]
    if r < 0.87:
        return base + rng.choice(["_", "%_", "_%"])
    return "".join(rng.choice(ALPHA + "%%__") for _ in range(rng.randrange(1, 6)))


async def run(a, sql):
    out = await a.cmd(b"\x03" + sql.encode(), n=80)
    pk = [p for _, p in out]
    if not pk:
        return "none", None
    if pk[0][:1] == b"\xff":
        return "err:%d" % parse_err(pk[0])[0], None
    if pk[0][:1] == b"\x00":
        return "ok", None
    try:
        rs = decode_resultset(pk, a.caps)
        if rs["term"][0] == "ERR":
            return "err-in-result", None
        return "rs", [[None if c is None else c.decode() for c in decode_text_row(r, len(rs["cols"]))] for r in rs["rows"]]
    except (Bad, IndexError, struct.error) as e:
        return "undecodable:%r" % (e,), None


def q(name):
    return "`%s`" % name


async def one_schema(chk, rng, idx, lines, expect):
    depth, mapping, canon = gen_mapping(rng)
    cols = all_cols(canon)
    dbnames = sorted({c[1] for c in cols})
    tnames = sorted({c[2] for c in cols if c[1] not in INFO_SCHEMA})
    cnames = sorted({c[3] for c in cols if c[1] not in INFO_SCHEMA})
    declared_dbs = [d for d in dbnames if d not in INFO_SCHEMA and d != ""]
    cur = rng.choice([None, None] + declared_dbs + ["information_schema", "nosuchdb"])
    app = LiveSession(schema=mapping)
    app.fresh = rng.random() < 0.5
    srv = mkserver([app])
    a = Peer(srv)
    if cur is None:
        await a.login()
    else:
        await a.login(caps=int(BASE) | WITH_DB, db=cur)
    import copy
    desc = dict(schema_index=idx, seed=chk.seed, depth=depth, mapping=copy.deepcopy(mapping), current_db=cur, fresh_copy_per_call=app.fresh)
    if rng.random() < 0.4:
        # session settings clients make for their SELECTs (row limits, modes, timeouts) are no part of the declared schema: the
        # catalog answers are the same with and without them
        setting = rng.choice(["SET sql_select_limit = 1", "SET sql_select_limit = 2", "SET SESSION sql_select_limit = 3", "SET sql_mode = 'TRADITIONAL'",
                              "SET max_execution_time = 1", "SET sql_auto_is_null = 1, sql_select_limit = 2"])
        await run(a, setting)
        desc["session_setting"] = setting
        chk.count("with-session-setting")
    lines.append("cat load " + " ".join(tokens(canon)))
    expect.append(("load", desc, None, None))
    chk.count("depth:%d" % depth)
    chk.count("current-db:" + ("none" if cur is None else "catalog" if cur in INFO_SCHEMA else "unknown" if cur == "nosuchdb" else "declared"))
    curtok = cur or "-"

    def key_sorted(rows):
        return sorted(rows)

    for stepno in range(rng.randrange(6, 14)):
        if stepno > 0 and rng.random() < 0.35:
            kind = mutate(rng, depth, mapping, stepno)
            canon = canon_of(depth, mapping)
            cols = all_cols(canon)
            dbnames = sorted({c[1] for c in cols})
            tnames = sorted({c[2] for c in cols if c[1] not in INFO_SCHEMA})
            cnames = sorted({c[3] for c in cols if c[1] not in INFO_SCHEMA})
            declared_dbs = [d for d in dbnames if d not in INFO_SCHEMA and d != ""]
            import copy
            desc = dict(desc, mapping=copy.deepcopy(mapping), mutated=desc.get("mutated", 0) + 1)
            lines.append("cat load " + " ".join(tokens(canon)))
            expect.append(("load", desc, None, None))
            chk.count("schema-change:" + kind)
        form = rng.choice(["dbs", "tables", "tables", "columns", "columns", "describe", "fieldlist", "is-schemata", "is-tables", "is-columns", "variables"])
        pat = gen_pattern(rng, {"dbs": dbnames, "tables": tnames, "columns": cnames, "describe": cnames, "fieldlist": cnames,
                                "variables": list(SYSTEM_VARIABLES)}.get(form, cnames)) if rng.random() < 0.6 else None
        chk.count("form:" + form + ("+like" if pat is not None else ""))
        if form == "dbs":
            sql = "SHOW DATABASES" + (" LIKE '%s'" % pat if pat is not None else "")
            st, rows = await run(a, sql)
            got = key_sorted([r[0] for r in rows]) if rows is not None else st
            keys = sorted({(c[0], c[1]) for c in cols})
            want = key_sorted([d for _, d in keys if pat is None or pat == "" or like_ref(pat, d)])
            lines.append("cat dbs %s" % (pat if pat else "-"))
            expect.append(("set", dict(desc, sql=sql), got, want))
        elif form == "tables":
            db = rng.choice([None, None] + declared_dbs + ["information_schema", "nosuchdb"])
            full = rng.random() < 0.3
            sql = "SHOW %sTABLES" % ("FULL " if full else "") + (" %s %s" % (rng.choice(["FROM", "IN"]), q(db)) if db else "") + (" LIKE '%s'" % pat if pat is not None else "")
            st, rows = await run(a, sql)
            eff = db or cur
            if not eff:
                want = "err:1046"
            else:
                keys = sorted({(c[0], c[1], c[2]) for c in cols})
                want = key_sorted([t for _, d, t in keys if d == eff and (pat is None or pat == "" or like_ref(pat, t))])
            got = key_sorted([r[0] for r in rows]) if rows is not None else st
            lines.append("cat tables %s %s %s" % (db or "-", curtok, pat if pat else "-"))
            expect.append(("set", dict(desc, sql=sql), got, want))
            if full and rows:
                for r in rows:
                    wt = "SYSTEM TABLE" if eff in INFO_SCHEMA else "BASE TABLE"
                    if r[1] != wt:
                        chk.fail("SHOW FULL TABLES reports the wrong table type", dict(desc, sql=sql), r)
        elif form in ("columns", "describe"):
            t = rng.choice(tnames + ["nosuchtable"]) if tnames else "nosuchtable"
            db = rng.choice([None, None] + declared_dbs + ["nosuchdb"])
            if form == "describe":
                kw = rng.choice(["DESCRIBE", "DESC", "EXPLAIN"])
                sql = "%s %s" % (kw, (q(db) + "." if db else "") + q(t))
                p_eff = None
            else:
                style = rng.choice(["from", "dotted"])
                full = "FULL " if rng.random() < 0.3 else ""
                if db and style == "dotted":
                    sql = "SHOW %sCOLUMNS FROM %s.%s" % (full, q(db), q(t))
                else:
                    # (sqlglot's parser knows SHOW COLUMNS FROM only; `IN` is used where it parses: the database part)
                    sql = "SHOW %sCOLUMNS FROM %s" % (full, q(t)) + (" %s %s" % (rng.choice(["FROM", "IN"]), q(db)) if db else "")
                if pat is not None:
                    sql += " LIKE '%s'" % pat
                p_eff = pat
            st, rows = await run(a, sql)
            eff = db or cur or ""
            want = [(c[3], c[4]) for c in cols if c[2] == t and (eff == "" or c[1] == eff) and (p_eff is None or p_eff == "" or like_ref(p_eff, c[3]))]
            got = [(r[0], r[1]) for r in rows] if rows is not None else st
            lines.append("cat columns %s %s %s %s" % (t, db or "-", curtok, p_eff if p_eff else "-"))
            expect.append(("list", dict(desc, sql=sql), got, want))
        elif form == "fieldlist":
            t = rng.choice(tnames + ["nosuchtable"]) if tnames else "nosuchtable"
            out = await a.cmd(b"\x04" + t.encode() + b"\0" + (pat or "").encode(), n=80)
            pk = [p for _, p in out]
            got = []
            bad = None
            for p in pk[:-1]:
                try:
                    cd = parse_coldef(p, field_list=True)
                    got.append(cd["name"].decode())
                    if cd["table"].decode() != t:
                        bad = "table field %r" % cd["table"]
                except Bad as e:
                    bad = str(e)
            if not pk or pk[-1][:1] not in (b"\xfe", b"\x00"):
                bad = "missing terminator: %r" % (pk[-1][:8] if pk else None)
            if bad:
                chk.fail("COM_FIELD_LIST column definition not decodable by a standard client", dict(desc, table=t, wildcard=pat), bad)
            eff = cur or ""
            want = [c[3] for c in cols if c[2] == t and (eff == "" or c[1] == eff) and (not pat or like_ref(pat, c[3]))]
            lines.append("cat columns %s - %s %s" % (t, curtok, pat if pat else "-"))
            expect.append(("names", dict(desc, field_list=t, wildcard=pat), got, want))
        elif form == "is-schemata":
            st, rows = await run(a, "SELECT catalog_name, schema_name FROM information_schema.schemata")
            got = key_sorted([tuple(r) for r in rows]) if rows is not None else st
            want = sorted({(c[0], c[1]) for c in cols})
            lines.append("cat dbs -")
            expect.append(("oracle-only", dict(desc, sql="information_schema.schemata"), got, want))
        elif form == "is-tables":
            db = rng.choice(declared_dbs + ["information_schema"]) if declared_dbs else "information_schema"
            st, rows = await run(a, "SELECT table_catalog, table_schema, table_name FROM information_schema.tables WHERE table_schema = '%s'" % db)
            got = key_sorted([tuple(r) for r in rows]) if rows is not None else st
            want = sorted({(c[0], c[1], c[2]) for c in cols if c[1] == db})
            lines.append("cat tables %s - -" % db)
            expect.append(("oracle-only", dict(desc, sql="information_schema.tables " + db), got, want))
        elif form == "is-columns":
            if not declared_dbs:
                continue
            db = rng.choice(declared_dbs)
            t = rng.choice(sorted({c[2] for c in cols if c[1] == db}))
            st, rows = await run(a, "SELECT table_catalog, column_name, ordinal_position, data_type FROM information_schema.columns "
                                    "WHERE table_schema = '%s' AND table_name = '%s'" % (db, t))
            got = [tuple(r) for r in rows] if rows is not None else st
            want = []
            seen = {}
            for c in cols:
                if c[1] == db and c[2] == t:
                    k = seen.get(c[0], 0)
                    want.append((c[0], c[3], str(k), c[4]))
                    seen[c[0]] = k + 1
            lines.append("cat ordinals %s %s" % (t, db))
            expect.append(("ordinals", dict(desc, sql="information_schema.columns %s.%s" % (db, t)), got, want))
        else:
            sql = "SHOW VARIABLES" + (" LIKE '%s'" % pat if pat is not None else "")
            st, rows = await run(a, sql)
            got = [r[0] for r in rows] if rows is not None else st
            want = [n for n in sorted(SYSTEM_VARIABLES) if not pat or like_ref(pat, n)]
            for n in sorted(SYSTEM_VARIABLES):
                lines.append("cat like %s %s" % (pat if pat else "%", n))
                expect.append(("skip",))
            expect[-1] = ("variables", dict(desc, sql=sql), got, want, len(SYSTEM_VARIABLES))
        if a.done():
            chk.fail("connection died on a catalog statement", desc, None)
            break
    await a.finish()


def evaluate(chk, out, expect):
    i = 0
    while i < len(expect):
        ex = expect[i]
        m = out[i]
        i += 1
        kind = ex[0]
        if kind in ("skip", "load"):
            continue
        if kind == "variables":
            _, d, got, want, n = ex
            ms = out[i - n:i]
            names = sorted(SYSTEM_VARIABLES)
            model = [nm for nm, b in zip(names, ms) if b == "1"]
            chk.case((d["sql"],))
            if got != want:
                chk.fail("SHOW VARIABLES LIKE does not select exactly the matching variables", d, dict(got=got, want=want))
            if got != model:
                chk.disagree("SHOW VARIABLES LIKE = model LIKE", d, model, got)
            continue
        _, d, got, want = ex
        chk.case((kind, d.get("sql") or d.get("field_list"), d.get("current_db"), str(want)[:80]))
        if got != want:
            chk.fail("catalog answer is not exactly the declared (and built-in) entries selected by the statement's filters", d, dict(got=got, want=want))
        if kind == "oracle-only":
            continue
        if kind == "set":
            model = m if m.startswith("err") else sorted(m.split(",")) if m != "" else []
            if isinstance(got, str):
                g = "err:nodb" if got == "err:1046" else got
            else:
                g = got
            if model != g:
                chk.disagree("SHOW DATABASES / TABLES = model", d, model, g)
        elif kind == "list":
            model = [tuple(x.split(":", 1)) for x in m.split(",") if x]
            if model != got:
                chk.disagree("SHOW COLUMNS / DESCRIBE = model", d, model, got)
        elif kind == "names":
            model = [x.split(":", 1)[0] for x in m.split(",") if x]
            if model != got:
                chk.disagree("COM_FIELD_LIST = model", d, model, got)
        elif kind == "ordinals":
            # the model's ordinals are per (catalog, db, table); the query does not select one catalog: compare per catalog order
            model = [tuple(x.split(":", 1)) for x in m.split(",") if x]
            g = [(r[1], r[2]) for r in got] if not isinstance(got, str) else got
            if model != g:
                chk.disagree("INFORMATION_SCHEMA.COLUMNS ordinal positions = model", d, model, g)


async def empty_containers(chk):
    """known finding D16c: a declared database without tables (or a table without columns) is not listed"""
    app = RecSession(schema={"db1": {"t": {"a": "INT"}, "t_empty": {}}, "db_empty": {}})
    srv = mkserver([app])
    a = Peer(srv)
    await a.login()
    st, rows = await run(a, "SHOW DATABASES")
    st2, rows2 = await run(a, "SHOW TABLES FROM db1")
    dbs = [r[0] for r in rows] if rows else st
    ts = [r[0] for r in rows2] if rows2 else st2
    if "db1" not in dbs or "t" not in ts:
        chk.fail("declared tables next to empty containers are not listed", dict(schema="db1{t,t_empty{}} db_empty{}"), dict(dbs=dbs, tables=ts))
    elif "db_empty" not in dbs or "t_empty" not in ts:
        chk.fail("a declared database without tables / table without columns is not listed", dict(schema="db1{t,t_empty{}} db_empty{}"),
                 dict(dbs=dbs, tables=ts), scenario="declared-empty-database-or-table")
    await a.finish()


SHAPES = [
    (0, {}),        # an application that declares nothing: the built-in catalog is still answered
    # (depth, mapping): containers without content in front of, between and behind the populated ones, at every level
    (2, {"t1": {"a": "INT", "b": "TEXT"}, "t2": {"c": "DATE"}}),
    # a table wider than any look-ahead the result machinery may use (catalog listings have all-NULL columns: Key, Default, Extra)
    (3, {"wide": {"t": {"c%04d" % i: "INT" for i in range(1100)}, "u": {"x": "TEXT"}}}),
    (2, {"e0": {}, "t1": {"a": "INT", "b": "TEXT"}}),
    (3, {"e0": {}, "db1": {"t1": {"a": "INT", "b": "TEXT"}}, "db2": {"t2": {"c": "DATE"}}}),
    (3, {"db1": {"e0": {}, "t1": {"b": "TEXT", "a": "INT"}}, "e1": {}}),
    (3, {"e0": {}, "e1": {}, "db1": {"e2": {}, "t1": {"a": "INT"}}}),
    (4, {"def": {"db1": {"t1": {"a": "INT", "b": "TEXT"}}}}),
    (4, {"staging": {"scratch": {}}, "def": {"shop": {"orders": {"id": "INT", "total": "DOUBLE"}}}}),
    (4, {"staging": {"scratch": {}, "tmp": {}}, "def": {"e0": {}, "shop": {"e1": {}, "orders": {"total": "DOUBLE", "id": "INT"}}}}),
    (4, {"def": {"shop": {"orders": {"id": "INT"}}}, "staging": {"scratch": {}}}),
    (4, {"c0": {}, "def": {"shop": {"orders": {"id": "INT"}}}}),
    (4, {"c1": {"d0": {"t0": {}}}, "def": {"shop": {"orders": {"id": "INT", "x": "TEXT"}}}}),
]


async def shape_corpus(chk):
    """fixed mappings of every depth with declared-but-empty containers at every position: each declared table that has
    columns is listed in its database with exactly its columns in order, and no name that is not a declared database
    (or a built-in one) is listed as a database"""
    for depth, m in SHAPES:
        canon = canon_of(depth, m) if depth else []
        cols = all_cols(canon)
        app = RecSession(schema=m)
        srv = mkserver([app])
        a = Peer(srv)
        await a.login()
        desc = dict(fixed_shape=True, depth=depth, mapping=m)
        chk.case(("shape", repr(m)))
        chk.count("shape:depth%d" % depth)
        st, rows = await run(a, "SHOW DATABASES")
        dbs = [r[0] for r in rows] if rows else []
        if st != "rs" or not all(b in dbs for b in INFO_SCHEMA):
            chk.fail("SHOW DATABASES does not list the built-in databases", desc, dict(status=st, databases=dbs))
        declared = {c[1] for c in cols} | {d for _, ds in canon for d, _ in ds}
        bogus = [d for d in dbs if d not in declared and d not in INFO_SCHEMA]
        if bogus:
            chk.fail("SHOW DATABASES lists a name that is not a declared database", desc, dict(databases=dbs, not_declared=bogus))
        for cat, ds in canon:
            for d, ts in ds:
                for t, cs in ts:
                    if not cs:
                        continue
                    if d:
                        st2, rows2 = await run(a, "SHOW COLUMNS FROM %s FROM %s" % (q(t), q(d)))
                    else:
                        st2, rows2 = await run(a, "SHOW COLUMNS FROM %s" % q(t))
                    got = [(r[0], r[1]) for r in rows2] if rows2 else st2
                    want = [(n, ty) for n, ty in cs]
                    if got != want:
                        chk.fail("a declared table's columns are not listed exactly and in order", dict(desc, table="%s.%s" % (d, t)), dict(got=got, declared=want))
                    if d:
                        st3, rows3 = await run(a, "SHOW TABLES FROM %s" % q(d))
                        ts_got = [r[0] for r in rows3] if rows3 else st3
                        if t not in ts_got:
                            chk.fail("a declared table is not listed in its database", dict(desc, table="%s.%s" % (d, t)), dict(tables=ts_got))
        await a.finish()


def like_cases(chk, rng, n):
    """Mimic.Like against like_to_regex (SHOW VARIABLES' matcher) and sqlglot's executor LIKE, directly"""
    from mysql_mimic.schema import like_to_regex
    from sqlglot.executor.env import ENV
    lines, impl, inputs = [], [], []
    for _ in range(n):
        s = "".join(rng.choice(ALPHA + ".") for _ in range(rng.randrange(0, 7)))
        p = gen_pattern(rng, [s or "a", "abc", "a_c", "x$1"])
        if " " in p or " " in s or p == "-" or s == "-":
            continue
        lines.append("cat like %s %s" % (p if p else "-", s if s else "-"))
        r1 = bool(like_to_regex(p).fullmatch(s))
        r2 = bool(ENV["LIKE"](s, p))
        ref = like_ref(p, s)
        if r1 != ref or r2 != ref:
            chk.fail("LIKE matcher disagrees with SQL LIKE semantics", dict(pattern=p, string=s), dict(like_to_regex=r1, executor=r2, sql_like=ref))
        impl.append("1" if r1 else "0")
        inputs.append(dict(pattern=p, string=s))
        chk.case(("like", p, s))
    out = drive(lines)
    chk.compare("like_to_regex + fullmatch = Mimic.Like.like", inputs, out, impl)


def main():
    chk = Check("C16", sys.argv[1:])
    chk.rule = ("a declared table's catalog columns are exactly the declared ones in order (table_columns_exactly_declared), every database / table "
                "key exactly once (tables_exactly_once, databases_exactly_once), each SHOW form = its FROM/LIKE subset (show_*_exact), the translated "
                "regex under fullmatch = SQL LIKE for all patterns and strings (like_regex_equiv)")
    chk.tie(["MimicProps.C16"])
    chk.run_replays(["D16", "D16b", "D16d"])
    rng = random.Random(chk.seed * 49979687 + 16)
    nschema = 260 if chk.thorough else 40

    async def go():
        lines, expect = [], []
        for i in range(nschema):
            await one_schema(chk, rng, i, lines, expect)
        out = drive(lines)
        evaluate(chk, out, expect)
        await empty_containers(chk)
        await shape_corpus(chk)
    asyncio.run(go())
    like_cases(chk, rng, 6000 if chk.thorough else 800)
    chk.assumptions = [
        "sqlglot's executor evaluates the catalog SELECTs (projection, equality, LIKE); it is trusted only as far as the answers agree with the model and the oracle",
        "identifiers are quoted with backticks in the statements; names are drawn from [a-z0-9_$]",
        "known finding D16c: databases without tables and tables without columns are not listed (the catalog is derived from the column list)",
    ]
    chk.finish()


if __name__ == "__main__":
    guarded("C16", main)
