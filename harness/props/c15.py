"""C15 — text crosses the wire in the negotiated character sets without corruption.

Tie: (a) extraction of every .decode( / .encode( call site with the character set it uses, of the two selectors, of
the collation / character-set catalogue and the usable sets (theorems code_sites_use_negotiated_sets, catalogue_consistent,
usable_iff_codec … are re-checked); (b) correspondence of Mimic.Charset with a real connection: histories of handshake
collations (every collation id of the catalogue), SET NAMES, SET CHARACTER SET, assignments to the character-set
variables, COM_CHANGE_USER with and without a collation, accepted and rejected; the (client set at the start, results set
at the end) of every command as observed on the wire = the model's trace.

The property's own oracle runs on every probe with REFERENCE codecs chosen from MySQL's definition of each character
set (not from CharacterSet.codec): a string from the set's repertoire sent in SQL text, COM_INIT_DB, COM_FIELD_LIST,
COM_CHANGE_USER, handshake user / database, prepared-statement string parameters (inline and long data), query
attribute names / values arrives unchanged at the application; column names, error messages and cells decode to the
application's strings under the results / column character set."""
import asyncio
import os
import random
import struct
import sys

sys.path.insert(0, os.path.join(os.path.dirname(os.path.abspath(__file__)), ".."))
from framework import Check, drive, guarded  # noqa: E402
from lib import (BASE, C, Peer, mkserver, com_stmt_execute, decode_resultset, decode_text_row, parse_err, parse_coldef, pkt,
                 lenenc, lenstr, enc_params, hs_response, Bad)  # noqa: E402
from mysql_mimic import Session, ResultColumn, ColumnType  # noqa: E402
from mysql_mimic.errors import MysqlError  # noqa: E402
from mysql_mimic.charset import CharacterSet, Collation  # noqa: E402

QA = int(C.CLIENT_QUERY_ATTRIBUTES)
WITH_DB = int(C.CLIENT_CONNECT_WITH_DB)

# MySQL character set → Python codec, from MySQL's definition of the set (reference client side)
REF = {
    "big5": "big5", "cp850": "cp850", "latin1": "latin-1", "latin2": "iso8859_2", "ascii": "ascii", "ujis": "euc_jp", "sjis": "shift_jis",
    "hebrew": "iso8859_8", "tis620": "tis_620", "euckr": "euc_kr", "gb2312": "gb2312", "greek": "iso8859_7", "cp1250": "cp1250", "gbk": "gbk",
    "latin5": "iso8859_9", "utf8": "utf-8", "ucs2": "utf-16-be", "cp866": "cp866", "macroman": "mac_roman", "cp852": "cp852", "latin7": "iso8859_13",
    "cp1251": "cp1251", "utf16": "utf-16-be", "utf16le": "utf-16-le", "cp1256": "cp1256", "cp1257": "cp1257", "utf32": "utf-32-be", "cp932": "cp932",
    "gb18030": "gb18030", "utf8mb4": "utf-8",
}
WIDE = {"ucs2", "utf16", "utf16le", "utf32"}
BMP_ONLY = {"utf8", "ucs2"}
FORBIDDEN = set("'\"\\`\0\n\r;%_?/*-#@:")   # characters with a meaning of their own in the SQL the probes are embedded in


def repertoire(cs, rng, n=40):
    """characters that the reference codec of `cs` round-trips (sampled for large sets, boundaries included)"""
    codec = REF[cs]
    cands = []
    if cs in ("utf8", "utf8mb4", "ucs2", "utf16", "utf16le", "utf32", "gb18030"):
        pts = [0x41, 0x7E, 0x80, 0xA1, 0xFF, 0x100, 0x7FF, 0x800, 0xFFF, 0x3042, 0x4E2D, 0xAC00, 0xD7FF, 0xE000, 0xFFFD]
        pts += [rng.randrange(0xA0, 0xD7FF) for _ in range(n)]
        if cs not in BMP_ONLY:
            pts += [0x10000, 0x1F600, 0x10FFFF] + [rng.randrange(0x10000, 0x10FFFF) for _ in range(n // 4)]
        cands = [chr(p) for p in pts]
    elif cs in ("big5", "ujis", "sjis", "euckr", "gb2312", "gbk", "cp932"):
        pts = list(range(0x21, 0x7F)) + [0x3042, 0x30A2, 0x4E00, 0x4E2D, 0x6587, 0x9FA0, 0xAC00, 0xD7A3, 0xFF21, 0xFF71, 0x3000]
        pts += [rng.randrange(0x3040, 0x30FF) for _ in range(n // 2)] + [rng.randrange(0x4E00, 0x9FA5) for _ in range(n * 2)]
        pts += [rng.randrange(0xAC00, 0xD7A3) for _ in range(n // 2)]
        cands = [chr(p) for p in pts]
    else:
        for b in range(1, 256):
            if cs == "latin1" and 0x80 <= b <= 0x9F:
                continue   # MySQL's latin1 is cp1252 there; the two definitions agree everywhere else
            try:
                cands.append(bytes([b]).decode(codec))
            except UnicodeDecodeError:
                pass
    out = []
    for ch in cands:
        try:
            if ch.encode(codec).decode(codec) == ch and ch not in FORBIDDEN and ch.isprintable() and not ch.isspace():
                out.append(ch)
        except (UnicodeEncodeError, UnicodeDecodeError):
            pass
    return out


# characters whose encoding ends in (or contains) a byte with a meaning of its own on the wire: a trailing 0x00 in the
# wide sets, a 0x5C / 0x27 / 0x00 trail byte in the double-byte sets
TAILS = {
    "utf16": "\u0100\u4e00\u3000\u0200", "ucs2": "\u0100\u4e00\u3000", "utf32": "\u0100\u4e00\U0001f600", "utf16le": "Az\u00e9\u007e",
    "sjis": "\u8868\u80fd\u30bd\u5341", "cp932": "\u8868\u80fd\u30bd\u5341", "big5": "\u529f\u8a31\u84cb", "gbk": "\u4e57\u5005\u50bd", "gb18030": "\u4e57\u5005",
}


def sample_str(rep, rng, k=None, cs=None):
    k = k or rng.randrange(1, 9)
    s = "".join(rng.choice(rep) for _ in range(k))
    tails = [ch for ch in TAILS.get(cs, "") if ch in rep or cs in TAILS]
    if tails and rng.random() < 0.6:
        t = rng.choice(tails)
        try:
            if t.encode(REF[cs]).decode(REF[cs]) == t:
                s = s + t if rng.random() < 0.7 else s[: len(s) // 2] + t + s[len(s) // 2:]
        except (UnicodeEncodeError, UnicodeDecodeError):
            pass
    return s


class App(Session):
    """records the raw SQL text and attributes before anything is parsed; answers application statements with what
    the harness prepared"""

    def __init__(self):
        super().__init__()
        self.seen = []
        self.uses = []
        self.next = None

    async def handle_query(self, sql, attrs):
        self.seen.append((sql, dict(attrs)))
        return await super().handle_query(sql, attrs)

    async def use(self, database):
        self.uses.append(database)
        await super().use(database)

    async def query(self, expression, sql, attrs):
        if self.next is None:
            return [(1,)], ["a"]
        kind, a, b = self.next
        if kind == "raise":
            raise MysqlError(a)
        return a, b

    async def schema(self):
        return {"db": {"t": {"a": "TEXT"}}}


class Client:
    """reference client: tracks the character sets it asked for and encodes / decodes accordingly"""

    def __init__(self, peer, client_cs, results_cs="utf8mb4"):
        self.p = peer
        self.cc = client_cs
        self.rc = results_cs
        self.trace = []

    def enc(self, s):
        return s.encode(REF[self.cc])

    def dec(self, b):
        return b.decode(REF[self.rc])

    async def query(self, sql, attrs=()):
        c0 = self.cc
        payload = b"\x03"
        if self.p.caps & QA:
            payload += lenenc(len(attrs)) + lenenc(1) + enc_params([(0xFD, False, self.enc(v), self.enc(k)) for k, v in attrs], True)
        out = await self.p.cmd(payload + self.enc(sql), n=60)
        return c0, out


def classify_simple(out):
    pk = [p for _, p in out]
    if not pk:
        return "none"
    if pk[0][:1] == b"\xff":
        return "err"
    if pk[0][:1] == b"\x00":
        return "ok"
    return "rs"


async def probe_all(chk, rng, cl, app, reps, desc, nullterm_ok=True):
    """every string-carrying path once, with strings from the repertoires in force"""
    cc, rc = cl.cc, cl.rc
    rin = reps[cc]
    rout = reps[rc]
    a = cl.p
    d = dict(desc, client_set=cc, results_set=rc)
    chk.count("probe:client=" + cc)
    chk.count("probe:results=" + rc)
    # 1. COM_QUERY text + query attributes; the application's answer: column name and cells
    s_in = sample_str(rin, rng, cs=cc)
    s_col = sample_str(rout, rng, cs=rc)
    ccs = rng.choice([c for c in reps])            # the column's own character set
    s_cell = sample_str(reps[ccs], rng, cs=ccs)
    app.next = ("rows", [(s_cell, None)], [ResultColumn(s_col, ColumnType.VARCHAR, character_set=CharacterSet[ccs]), ResultColumn("n", ColumnType.VARCHAR)])
    sql = "SELECT a FROM t WHERE b = '%s'" % s_in
    attrs = [(sample_str(rin, rng, 3), sample_str(rin, rng))] if a.caps & QA else []
    n0 = len(app.seen)
    _, out = await cl.query(sql, attrs)
    got = app.seen[n0:]
    if len(got) != 1 or got[0][0] != sql:
        chk.fail("SQL text did not arrive unchanged", d, dict(sent=sql, got=[g[0] for g in got]))
    elif a.caps & QA and got[0][1] != dict(attrs):
        chk.fail("query attribute names / values did not arrive unchanged", d, dict(sent=attrs, got=got[0][1]))
    try:
        rs = decode_resultset([p for _, p in out], a.caps)
        name = rs["cols"][0]["name"]
        if name.decode(REF[rc]) != s_col:
            chk.fail("column name not encoded in the results character set", d, dict(sent=s_col, wire=name.hex()))
        if rs["cols"][0]["charset"] != int(CharacterSet[ccs]):
            chk.fail("column definition does not announce the column's character set", d, dict(announced=rs["cols"][0]["charset"], want=int(CharacterSet[ccs])))
        cell = decode_text_row(rs["rows"][0], 2)[0]
        if cell.decode(REF[ccs]) != s_cell:
            chk.fail("result cell not encoded in its column's character set", dict(d, column_set=ccs), dict(sent=s_cell, wire=cell.hex()))
        chk.count("probe:column=" + ccs)
    except (Bad, IndexError, struct.error, UnicodeDecodeError, KeyError, TypeError) as e:
        chk.fail("result set undecodable by the reference client", d, repr(e))
    # 2. error message in the results character set
    msg = sample_str(rout, rng, 6, cs=rc)
    app.next = ("raise", msg, None)
    _, out = await cl.query("SELECT a FROM t")
    try:
        code, state, m = parse_err(out[0][1])
        if m.decode(REF[rc]) != msg:
            chk.fail("error message not encoded in the results character set", d, dict(sent=msg, wire=m.hex()))
    except (Bad, IndexError, UnicodeDecodeError) as e:
        chk.fail("error packet undecodable by the reference client", d, repr(e))
    app.next = None
    # 3. COM_INIT_DB
    db = sample_str(rin, rng, cs=cc)
    n0 = len(app.uses)
    out = await a.cmd(b"\x02" + cl.enc(db))
    if app.uses[n0:] != [db]:
        chk.fail("COM_INIT_DB database name did not arrive unchanged", d, dict(sent=db, got=app.uses[n0:]))
    # 4. prepared statement: text + string parameters (inline and long data)
    s_txt = sample_str(rin, rng, cs=cc)
    p1 = sample_str(rin, rng, cs=cc)
    p2 = sample_str(rin, rng, 12, cs=cc)
    psql = "SELECT a FROM t WHERE b = '%s' AND c = ? AND d = ?" % s_txt
    out = await a.cmd(b"\x16" + cl.enc(psql))
    if out and out[0][1][:1] == b"\x00":
        sid = struct.unpack_from("<I", out[0][1], 1)[0]
        raw2 = cl.enc(p2)
        cut = rng.randrange(0, len(raw2) + 1)   # the chunk boundary may fall inside a multi-byte character
        for chunk in (raw2[:cut], raw2[cut:]):
            a.t.feed(pkt(0, b"\x18" + struct.pack("<IH", sid, 1) + chunk))
            await asyncio.sleep(0)
        n0 = len(app.seen)
        qattrs = [(0xFD, False, cl.enc(v), cl.enc(k)) for k, v in attrs]
        out = await a.cmd(com_stmt_execute(sid, [(0xFD, False, cl.enc(p1), b""), (0xFC, False, b"", b"")], caps=a.caps, attrs=qattrs, skip=[1]), n=60)
        want = psql.replace("?", "'%s'" % p1, 1).replace("?", "'%s'" % p2, 1)
        got = app.seen[n0:]
        if len(got) != 1 or got[0][0] != want:
            chk.fail("prepared statement text / string parameters did not arrive unchanged", dict(d, long_data_cut=cut), dict(want=want, got=[g[0] for g in got], reply=out[0][1][:40].hex() if out else None))
        elif a.caps & QA and got[0][1] != dict(attrs):
            chk.fail("query attributes of COM_STMT_EXECUTE did not arrive unchanged", d, dict(sent=attrs, got=got[0][1]))
        await a.cmd(b"\x19" + struct.pack("<I", sid), n=4)
    else:
        chk.fail("COM_STMT_PREPARE rejected", d, out[0][1][:60].hex() if out else None)
    # 4b. the SAME statement bytes as on every earlier probe of this connection: they mean another text under another client
    # set (0xC3 0xA9 is 'é' in utf8, 'Ã©' in latin1, 'Г©' in cp1251, one character in gbk / big5 / euckr, two half-width
    # katakana in sjis), and the text the application receives must be the one of the set in force NOW
    if cc not in WIDE:
        raw = b"SELECT a FROM t WHERE b = '\xc3\xa9' AND c = ?"
        try:
            want_txt = raw.decode(REF[cc])
        except UnicodeDecodeError:
            want_txt = None
        if want_txt is not None:
            out = await a.cmd(b"\x16" + raw)
            if out and out[0][1][:1] == b"\x00":
                sid = struct.unpack_from("<I", out[0][1], 1)[0]
                n0 = len(app.seen)
                out = await a.cmd(com_stmt_execute(sid, [(3, False, 5, b"")], caps=a.caps, attrs=[]), n=60)
                got = app.seen[n0:]
                want = want_txt.replace("?", "5", 1)
                if len(got) != 1 or got[0][0] != want:
                    chk.fail("a statement prepared again from the same bytes after a change of the client character set is decoded with an earlier set",
                             d, dict(want=want, got=[g[0] for g in got], reply=out[0][1][:40].hex() if out else None))
                await a.cmd(b"\x19" + struct.pack("<I", sid), n=4)
            else:
                chk.fail("COM_STMT_PREPARE of bytes valid in the client character set rejected", d, out[0][1][:60].hex() if out else None)
    # 5. null-terminated fields (not possible in the wide sets, which MySQL does not allow as client sets)
    if nullterm_ok and cc not in WIDE:
        tbl = sample_str(rin, rng)
        wc = sample_str(rin, rng)
        n0 = len(app.seen)
        await a.cmd(b"\x04" + cl.enc(tbl) + b"\0" + cl.enc(wc), n=60)
        got = app.seen[n0:]
        if len(got) != 1 or tbl not in got[0][0] or wc not in got[0][0]:
            chk.fail("COM_FIELD_LIST table / wildcard did not arrive unchanged", d, dict(table=tbl, wildcard=wc, got=[g[0] for g in got]))
    chk.case((cc, rc, s_in))


async def connect(srv_app, caps, collation, user, db):
    srv = mkserver([srv_app])
    a = Peer(srv)
    await a.greet()
    a.caps = int(caps) & a.greeting["caps"]
    await a.send(pkt(1, hs_response(user, caps=caps, db=db, charset=collation)))
    return a, a.take()


async def handshake_cases(chk, rng, reps, thorough):
    """every collation id of the catalogue in the handshake: user name and database arrive unchanged, probes follow"""
    lines, impl, descs = [], [], []
    ids = [int(c) for c in Collation]
    if not thorough:
        # every character set at least once + a sample of the other ids
        first = {}
        for c in Collation:
            first.setdefault(c.charset.name, int(c))
        ids = sorted(set(first.values()) | set(rng.sample(ids, 40)))
    ids += [0, 17, 200, 222, 251]   # ids that are not in the catalogue
    for cid in ids:
        try:
            csname = Collation(cid).charset.name
        except Exception:  # noqa
            csname = None
        usable = csname in REF
        app = App()
        caps = int(BASE) | WITH_DB | (QA if rng.random() < 0.5 else 0)
        if csname in WIDE:
            # the handshake response carries NUL-terminated strings (user name, plugin name): they cannot be framed in
            # a two- or four-byte code unit set (MySQL does not accept these sets from a client either)
            continue
        if usable:
            rep = [ch for ch in reps[csname] if 0 not in ch.encode(REF[csname])]
            user = sample_str(rep, rng)
            db = sample_str(rep, rng)
            ub, dbb = user.encode(REF[csname]), db.encode(REF[csname])
        else:
            user, db, ub, dbb = "u", "d", b"u", b"d"
        a, out = await connect(app, caps, cid, ub, dbb)
        ok = bool(out) and out[0][1][:1] == b"\x00" and not a.done()
        desc = dict(handshake_collation=cid, charset=csname)
        chk.count("handshake:" + ("accepted" if ok else "rejected"))
        lines.append("cs run H:%d O" % cid)
        if ok:
            impl_tr = []
            if not usable:
                chk.fail("handshake with a collation whose character set has no reference codec was accepted", desc, None)
            else:
                if app.username != user or app.database != db:
                    chk.fail("handshake user name / database did not arrive unchanged", desc, dict(sent=(user, db), got=(app.username, app.database)))
                cl = Client(a, csname)
                await probe_all(chk, rng, cl, app, reps, desc)
                chk.count("handshake-charset:" + csname)
            st, cs2 = await observe_sets(a, app, Client(a, csname if usable else "utf8mb4"))
            impl.append("utf8mb4/utf8mb4 %s" % st)
        else:
            if usable:
                chk.fail("handshake with a usable collation rejected", desc, out[0][1][:60].hex() if out else None)
            impl.append("utf8mb4/utf8mb4")
        descs.append(desc)
        await a.finish()
    out = drive(lines)
    chk.compare("character sets after the handshake = model", descs, out, impl)


async def observe_sets(a, app, cl):
    """read the two sets in force through SHOW VARIABLES (the statement text is pure ASCII / encoded by the client)"""
    _, out = await cl.query("SHOW VARIABLES LIKE 'character_set_%'")
    try:
        rs = decode_resultset([p for _, p in out], a.caps)
        vals = {}
        # cells travel in the character set their column definition announces
        ccs = [REF[CharacterSet(c["charset"]).name] for c in rs["cols"]]
        for r in rs["rows"]:
            k, v = decode_text_row(r, 2)
            vals[k.decode(ccs[0])] = v.decode(ccs[1])
        return "%s/%s" % (vals["character_set_client"], vals["character_set_results"]), vals
    except Exception as e:  # noqa
        return "unreadable:%r:%r" % (e, out[0][1][:80] if out else None), {}


SWITCHABLE = [c for c in REF]
UNUSABLE = ["dec8", "koi8r", "hp8", "binary", "bogus", "UTF8MB4", "eucjpms"]


async def history_cases(chk, rng, reps, count):
    lines, impl, descs = [], [], []
    for i in range(count):
        app = App()
        caps = int(BASE) | WITH_DB | (QA if rng.random() < 0.5 else 0)
        hs_cs = rng.choice(["utf8mb4", "latin1", "utf8", "sjis", "cp1251", "gbk", "big5", "euckr", "latin2"])
        cid = int(CharacterSet[hs_cs].default_collation)
        a, out = await connect(app, caps, cid, b"u", b"d")
        cl = Client(a, hs_cs)
        toks = ["H:%d" % cid]
        tr = ["utf8mb4/utf8mb4"]
        hist = []
        dead = False
        for step in range(rng.randrange(2, 7)):
            op = rng.choice(["names", "names", "charset", "var-client", "var-results", "cu", "cu-none", "probe", "probe", "names-bad", "names-default", "multi",
                             "reset", "names-then-fail"])
            c0 = cl.cc
            if op in ("names", "names-bad"):
                cs = rng.choice(UNUSABLE if op == "names-bad" else SWITCHABLE)
                coll = rng.choice([None, None, "x_general_ci"])
                sql = "SET NAMES %s" % cs + (" COLLATE %s" % coll if coll else "")
                _, out = await cl.query(sql)
                st = classify_simple(out)
                toks.append("S:N|%s|%s" % (cs, coll or "*"))
                if st == "ok":
                    cl.cc = cl.rc = cs
                if (st == "ok") != (cs in REF):
                    chk.fail("SET NAMES accepted / rejected against the catalogue of usable sets", dict(sql=sql), st)
            elif op == "names-then-fail":
                # one COM_QUERY: a switch that is executed, then a statement that fails — the command is answered with ERR,
                # but the switch happened (statements run in order, nothing is rolled back) and applies from the next command on
                cs = rng.choice(SWITCHABLE)
                _, out = await cl.query("SET NAMES %s; SET no_such_variable_xyz = 1" % cs)
                st = classify_simple(out)
                toks.append("S:N|%s|*" % cs)
                if st == "ok":
                    chk.fail("a command whose last statement fails is answered with OK", dict(history=hist, sql="SET NAMES %s; SET no_such_variable_xyz = 1" % cs), st)
                cl.cc = cl.rc = cs
            elif op == "names-default":
                _, out = await cl.query("SET NAMES DEFAULT")
                st = classify_simple(out)
                toks.append("S:N|*|*")
                if st == "ok":
                    cl.cc = cl.rc = "utf8mb4"
            elif op == "charset":
                cs = rng.choice(SWITCHABLE + UNUSABLE[:3])
                _, out = await cl.query("SET CHARACTER SET %s" % cs)
                st = classify_simple(out)
                toks.append("S:C|%s" % cs)
                if st == "ok":
                    cl.cc = cl.rc = cs
            elif op in ("var-client", "var-results"):
                var = "character_set_client" if op == "var-client" else "character_set_results"
                cs = rng.choice(SWITCHABLE + UNUSABLE[:3])
                _, out = await cl.query("SET %s = '%s'" % (var, cs))
                st = classify_simple(out)
                toks.append("S:V|S|%s|s%s" % (var, cs.encode().hex()))
                if st == "ok":
                    if op == "var-client":
                        cl.cc = cs
                    else:
                        cl.rc = cs
            elif op == "multi":
                cs1 = rng.choice(SWITCHABLE)
                cs2 = rng.choice(SWITCHABLE + UNUSABLE[:2])
                _, out = await cl.query("SET character_set_results = '%s', character_set_client = '%s'" % (cs1, cs2))
                st = classify_simple(out)
                toks.append("S:V|S|character_set_results|s%s+V|S|character_set_client|s%s" % (cs1.encode().hex(), cs2.encode().hex()))
                cl.rc = cs1   # the first assignment stays even if the second is rejected
                if st == "ok":
                    cl.cc = cs2
            elif op == "reset":
                # COM_RESET_CONNECTION is not among the events that change the character sets: whatever it resets, the
                # client goes on sending in the set it negotiated and must be understood
                out = await a.cmd(b"\x1f", n=20)
                st = classify_simple(out)
                if st != "ok":
                    chk.fail("COM_RESET_CONNECTION not answered with OK", dict(history=hist), out[0][1][:60].hex() if out else None)
                await probe_all(chk, rng, cl, app, reps, dict(history=list(hist) + [("reset", cl.cc, cl.rc)]))
                hist.append(("reset", cl.cc, cl.rc, st))
                chk.count("switch:reset:" + st)
                continue
            elif op in ("cu", "cu-none"):
                if cl.cc in WIDE:
                    continue
                user = sample_str(reps[cl.cc], rng)
                db = sample_str(reps[cl.cc], rng)
                newcs = rng.choice([c for c in SWITCHABLE if c not in WIDE])
                ncid = int(CharacterSet[newcs].default_collation) if op == "cu" else None
                p = b"\x11" + cl.enc(user) + b"\0" + b"\0" + cl.enc(db) + b"\0"
                if ncid is not None:
                    p += struct.pack("<H", ncid) + b"mysql_native_password\0"
                out = await a.cmd(p, n=60)
                if out and out[0][1][:1] == b"\xfe":
                    # no plugin named in the packet: the server asks to switch; an empty password answers with an empty packet
                    await a.send(pkt(out[0][0] + 1, b""), 60)
                    out = a.take()
                st = classify_simple(out)
                toks.append("U:%s" % (ncid if ncid is not None else "-"))
                if st != "ok":
                    chk.fail("COM_CHANGE_USER rejected", dict(history=hist), out[0][1][:60].hex() if out else None)
                    dead = True
                    break
                if app.username != user or app.database != db:
                    chk.fail("COM_CHANGE_USER user name / database did not arrive unchanged (decoded with the set in force before it)",
                             dict(history=hist, client_set=c0), dict(sent=(user, db), got=(app.username, app.database)))
                if ncid is not None:
                    cl.cc = newcs
            else:
                await probe_all(chk, rng, cl, app, reps, dict(history=list(hist)))
                hist.append(("probe", cl.cc, cl.rc))
                continue
            hist.append((op, c0, cl.cc, cl.rc, st))
            chk.count("switch:" + op + ":" + st)
            # what the wire shows right after the switch
            ob, _ = await observe_sets(a, app, cl)
            toks.append("O")
            tr.append("%s/%s" % (c0, cl.rc))
            tr.append(ob)
            if a.done():
                dead = True
                break
        if not dead:
            await probe_all(chk, rng, cl, app, reps, dict(history=list(hist)))
        lines.append("cs run " + " ".join(toks))
        impl.append(" ".join(tr))
        descs.append(dict(history=hist, handshake=hs_cs))
        await a.finish()
    out = drive(lines)
    # model trace entries: client-at-start/results-at-end per event; the O events after each switch show the state
    want = []
    for m in out:
        want.append(m)
    chk.compare("character sets in force along the history (client at start / results at end of every command) = model", descs, want, impl)


def codec_roundtrips(chk, reps):
    """the hypothesis of text_arrives_unchanged, per codec: the implementation's codec and the reference codec agree
    on the sampled repertoire in both directions"""
    for cs, rep in reps.items():
        impl = CharacterSet[cs]
        bad = []
        for ch in rep:
            try:
                if impl.encode(ch) != ch.encode(REF[cs]) or impl.decode(ch.encode(REF[cs])) != ch:
                    bad.append(ch)
            except Exception:  # noqa
                bad.append(ch)
        chk.count("codec:%s:repertoire=%d" % (cs, len(rep)))
        chk.case(("codec", cs, len(rep)))
        if bad:
            chk.fail("the server's codec for a character set disagrees with the set's definition", dict(charset=cs), dict(chars=[hex(ord(c)) for c in bad[:10]]))
        if len(rep) < 20:
            chk.fail("repertoire too small to mean anything", dict(charset=cs), len(rep))


def main():
    chk = Check("C15", sys.argv[1:])
    chk.rule = ("every decode site uses the client set, every encode site the results / column set (code_sites_use_negotiated_sets); accepted "
                "requests make exactly the requested set the one in force, rejected ones change nothing (names_atomic, charset_stmt_atomic, adopt_exact); "
                "both sets always usable (always_usable); the set that decodes command n depends on commands < n (switch_applies_from_next_command)")
    chk.tie(["MimicProps.C15"])
    chk.run_replays(["D15"])
    rng = random.Random(chk.seed * 32452843 + 15)
    reps = {cs: repertoire(cs, rng, 120 if chk.thorough else 40) for cs in REF}
    codec_roundtrips(chk, reps)

    async def go():
        await handshake_cases(chk, rng, reps, chk.thorough)
        await history_cases(chk, rng, reps, 400 if chk.thorough else 60)
    asyncio.run(go())
    chk.assumptions = [
        "codecs are Python's; the reference client uses codecs chosen from MySQL's definition of each set (REF table in this file); for latin1 the "
        "repertoire excludes 0x80-0x9F, where MySQL's latin1 (cp1252) and ISO 8859-1 differ",
        "ucs2/utf16/utf16le/utf32 are exercised as results / column sets and, as client sets, only for fields that are not NUL-terminated "
        "(MySQL does not allow them as client character sets)",
        "probe strings avoid characters with a meaning of their own in the SQL they are embedded in (quotes, backslash, wildcard characters)",
    ]
    chk.finish()


if __name__ == "__main__":
    guarded("C15", main)
