"""Driving one real connection with the event alphabet of the L4 machine (Mimic.Conn) and reporting, after every
event, what the model reports: packets handed to the transport, whether the connection ended, session.close count,
init completion, registry membership, transport closed, how the server task ended."""
from __future__ import annotations

import asyncio
import struct

from lib import (BASE, C, Peer, RawSession, mkserver, pkt, hs_response, com_stmt_execute, parse_err, parse_ok, parse_eof,
                 rd_lenenc, decode_binary_row, decode_text_row, settle, Bad)
from mysql_mimic import ResultColumn, ColumnType, ResultSet
from mysql_mimic.control import LocalControl
from mysql_mimic.constants import KillKind
from mysql_mimic.errors import MysqlError, ErrorCode
import mysql_mimic.connection as _mc
AuthenticationFailed = getattr(_mc, "AuthenticationFailed", type("AuthenticationFailed", (Exception,), {}))
from mysql_mimic import IdentityProvider, NativePasswordAuthPlugin, User


class PlanSession(RawSession):
    """application whose behaviour for the next call is prescribed by the harness"""

    def __init__(self):
        super().__init__()
        self.plan = None
        self.pending = []          # futures the application is awaiting (oldest first)
        self.init_susp = self.init_fails = False
        self.use_fails = False
        self.close_fails = False
        self.init_completed = False
        self.close_calls = 0

    async def wait(self):
        f = asyncio.get_running_loop().create_future()
        self.pending.append(f)
        try:
            await f
        finally:
            if f in self.pending:
                self.pending.remove(f)

    async def init(self, connection):
        await super().init(connection)
        if self.init_susp:
            await self.wait()
        if self.init_fails:
            raise RuntimeError("init failed")
        self.init_completed = True

    async def close(self):
        self.close_calls += 1
        await super().close()
        if self.close_fails:
            raise RuntimeError("close failed")

    async def use(self, database):
        if self.use_fails:
            raise RuntimeError("use failed")
        await super().use(database)

    async def handle_query(self, sql, attrs):
        self.log.append(("hq", sql, dict(attrs), self.username, self.database))
        p = self.plan
        if p["callSusp"]:
            await self.wait()
        if p.get("selfKill"):
            await self.connection.control.kill(self.connection.connection_id, KillKind.QUERY if p["selfKill"] == "q" else KillKind.CONNECTION)
        if p["fail"] == "generic":
            raise RuntimeError("application failure")
        if p["fail"] == "mysql":
            raise MysqlError("application says no", ErrorCode.PARSE_ERROR)
        nc = p["ncols"]
        if nc == 0:
            return None
        cols = [ResultColumn("c%d" % i, ColumnType.LONGLONG) for i in range(nc)]
        steps = p["rows"]
        width = max(nc, 5) if p.get("fieldlist") else nc
        if p.get("fieldlist"):
            # COM_FIELD_LIST reads row[0] (name) and row[4] (default)
            return ResultSet(rows=[("f%d" % st[1], "INT", "YES", None, None, None) for st in steps], columns=[ResultColumn("x%d" % i, ColumnType.VARCHAR) for i in range(6)])
        if all(st[0] == "row" and not st[2] for st in steps) and p.get("sync"):
            return ResultSet(rows=[(st[1],) * nc for st in steps], columns=cols)
        sess = self

        async def gen():
            for st in steps:
                if st[-1]:
                    await sess.wait()
                if st[0] == "boom":
                    raise RuntimeError("row source failure")
                yield (st[1],) * nc
        return ResultSet(rows=gen(), columns=cols)


def rows_token(steps):
    if not steps:
        return "-"
    out = []
    for st in steps:
        if st[0] == "row":
            out.append(("R" if st[2] else "r") + str(st[1]))
        else:
            out.append("B" if st[1] else "b")
    return ",".join(out)


def plan_token(p):
    t = "%d %s %d %s" % (1 if p["callSusp"] else 0, p["fail"], p["ncols"], rows_token(p["rows"]))
    if p.get("selfKill"):
        t += " " + p["selfKill"]
    return t


def err_class(p):
    # before the capabilities are negotiated the server uses the pre-4.1 form (no SQL state marker)
    code, _, msg = parse_err(p, proto41=(p[3:4] == b"#"))
    if code == 3169:
        return "qkilled" if msg.startswith(b"Query") else "skilled"
    return {1043: "handshake", 1045: "denied", 3162: "unknown", 1105: "generic"}.get(code, "mysql")


def classify(kind, dep, ncols, pkts):
    """server packets of one command (possibly partial) → model tokens"""
    out = []
    i = 0
    n = len(pkts)
    if kind == "prepare":
        if n and pkts[0][:1] == b"\x00" and len(pkts[0]) == 12:
            np_ = struct.unpack_from("<H", pkts[0], 7)[0]
            # COM_STMT_PREPARE_OK: status 0, stmt id, columns, params, one reserved byte that is 0, warnings
            out.append("p%d" % np_ if pkts[0][9:10] == b"\x00" else "p?filler")
            i = 1
    elif kind in ("query", "execute"):
        if n and pkts[0][:1] not in (b"\xff", b"\x00", b"\xfe"):
            out.append("cc%d" % rd_lenenc(pkts[0], 0)[0])
            i = 1
    state = "meta" if kind in ("query", "execute", "prepare", "fieldlist") else "rows" if kind == "fetch" else "simple"
    seen_cd = 0
    while i < n:
        p = pkts[i]
        i += 1
        b = p[:1]
        if b == b"\xff":
            out.append("err:" + err_class(p))
        elif state == "simple":
            if b == b"\x00":
                try:
                    d0 = parse_ok(p)
                    out.append("ok" if (d0["status"], d0["warnings"], d0["affected"], d0["last_id"]) == (0, 0, 0, 0) else "ok?%r" % (d0,))
                except Exception:  # noqa
                    out.append("ok?malformed")
            else:
                out.append("?" + p[:4].hex())
        elif state == "meta":
            if b == b"\x03" and p[:4] == b"\x03def":
                out.append("cd")
                seen_cd += 1
            elif b == b"\xfe" and (dep or len(p) < 9):
                st = (parse_ok(p) if dep else parse_eof(p))["status"]
                fl = st & 0xC0
                if not dep and fl == 0 and kind != "fieldlist" and not (kind == "prepare" and False):
                    out.append("eofm")
                    state = "rows" if kind != "prepare" else "done"
                else:
                    out.append("t%d" % fl if st & ~0xC0 == 0 else "t?status%x" % st)
                    state = "done"
            elif b == b"\x00" and len(p) >= 7 and kind in ("query", "execute") and seen_cd == 0 and not out:
                out.append("ok")
            else:
                # first row under DEPRECATE_EOF (no metadata EOF)
                state = "rows"
                i -= 1
        elif state == "rows":
            # OK-as-EOF carries the affected-row count as a length-encoded integer: 9 bytes and more from 251 rows on
            if b == b"\xfe" and (dep or len(p) < 9):
                st = (parse_ok(p) if dep else parse_eof(p))["status"]
                out.append("t%d" % (st & 0xC0) if st & ~0xC0 == 0 else "t?status%x" % st)
                state = "done"
            else:
                try:
                    if kind == "query":
                        v = int(decode_text_row(p, ncols)[0])
                    elif p[:1] == b"\xff":
                        raise ValueError
                    else:
                        v = decode_binary_row(p, [8] * ncols)[0]
                    out.append("r%d" % v)
                except Exception:  # noqa
                    out.append("?row" + p[:6].hex())
        else:
            out.append("?extra" + p[:4].hex())
    return out


def exc_class(task):
    if not task.done():
        return "-"
    if task.cancelled():
        return "cancelled"
    e = task.exception()
    if e is None:
        return "-"
    if isinstance(e, (ConnectionResetError, BrokenPipeError)):
        return "lost"
    if isinstance(e, MysqlError):
        return "mysql"
    if isinstance(e, AuthenticationFailed):
        return "authfailed"
    return "generic"


class IDP(IdentityProvider):
    def __init__(self):
        self.np = NativePasswordAuthPlugin()

    def get_plugins(self):
        return [self.np]

    async def get_user(self, n):
        if n == "ghost":
            return None
        return User(n, None if n != "locked" else NativePasswordAuthPlugin.create_auth_string("pw"), "mysql_native_password")


class Driven:
    """one real connection + the bookkeeping needed to report like the model"""

    # server ids rotate over the interesting values: 0 (the first connection id is 0, a falsy but valid id), a multiple
    # of 2^16, the largest prefix, ordinary ones
    SERVER_IDS = [5, 0, 65535, 1, 65536, 513]
    _n = 0

    def __init__(self, dep: bool):
        self.sess = PlanSession()
        Driven._n += 1
        self.ctl = LocalControl(server_id=Driven.SERVER_IDS[Driven._n % len(Driven.SERVER_IDS)])
        self.srv = mkserver([self.sess], control=self.ctl, identity_provider=IDP())
        self.dep = dep
        self.caps = BASE | (C.CLIENT_DEPRECATE_EOF if dep else 0)
        if Driven._n % 3 == 0:
            # every third client offers CLIENT_OPTIONAL_RESULTSET_METADATA; what is negotiated (peer.caps) is what the
            # strict decoders go by
            self.caps = self.caps | C.CLIENT_OPTIONAL_RESULTSET_METADATA
        self.peer = None
        self.cur = None            # (kind, ncols) of the command in flight, for classification
        self.cur_pkts = []
        self.stmt = 0
        self.seq_errors = []

    async def start(self):
        self.peer = Peer(self.srv)
        g = await self.peer.greet()
        return self.report(["greet"] if g and g[0][1][:1] == b"\x0a" else ["?"])

    def report(self, toks):
        p = self.peer
        closed = p.task.done()
        cid = p.greeting["cid"] if p.greeting else None
        return "%s %s close=%d init=%d reg=%d tclosed=%d exc=%s" % (
            ",".join(toks) or "-", "closed" if closed else "open", self.sess.close_calls, 1 if self.sess.init_completed else 0,
            1 if cid in self.ctl._connections else 0, 1 if (p.t.closed and closed) else 0, exc_class(p.task))

    def take_tokens(self):
        new = self.peer.take()
        if not new:
            return []
        if self.cur is None:
            # nothing in flight: anything here is unsolicited or a termination notice
            return [("err:" + err_class(p)) if p[:1] == b"\xff" else ("ok" if p[:1] == b"\x00" else "?" + p[:4].hex()) for _, p in new]
        kind, ncols, first_seq = self.cur
        before = len(classify(kind, self.dep, ncols, [p for _, p in self.cur_pkts]))
        for q, p in new:
            exp = (first_seq + len(self.cur_pkts)) % 256
            if q != exp:
                self.seq_errors.append((kind, q, exp))
            self.cur_pkts.append((q, p))
        return classify(kind, self.dep, ncols, [p for _, p in self.cur_pkts])[before:]

    async def login(self, mode, init_susp=False, init_fails=False):
        self.sess.init_susp, self.sess.init_fails = init_susp, init_fails
        self.cur = ("simple", 0, 2)
        self.cur_pkts = []
        if mode == "ok":
            payload = hs_response("u", caps=self.caps)
        elif mode == "denied":
            payload = hs_response("locked", auth=b"x" * 20, caps=self.caps)
        elif mode == "unknown":
            payload = hs_response("ghost", caps=self.caps)
        else:
            payload = struct.pack("<IH", int(self.caps), 7)  # truncated inside the fixed part: the parser raises
        await self.peer.send(pkt(1, payload))
        toks = self.take_tokens()
        self.peer.caps = int(self.caps) & self.peer.greeting["caps"]
        return self.report(toks)

    async def command(self, kind, payload, ncols=1, plan=None):
        self.sess.plan = plan
        self.cur = (kind, ncols, 1)
        self.cur_pkts = []
        await self.peer.send(pkt(0, payload))
        return self.report(self.take_tokens())

    async def event(self, ev):
        p = self.peer
        if ev == "resume":
            if self.sess.pending and not self.sess.pending[0].done():
                self.sess.pending[0].set_result(None)
        elif ev == "block":
            p.t.block()
        elif ev == "unblock":
            p.t.unblock()
        elif ev in ("killq", "killc"):
            # request only: the target task has not run yet when this returns (no settling)
            await self.ctl.kill(p.greeting["cid"], KillKind.QUERY if ev == "killq" else KillKind.CONNECTION)
            return self.report([])
        elif ev == "deliver":
            pass
        elif ev == "eof":
            if not p.t.closed:
                p.t.feed_eof()
        elif ev == "lose":
            p.t.reset_by_peer()
        await settle()
        return self.report(self.take_tokens())

    async def finish(self):
        for f in list(self.sess.pending):
            if not f.done():
                f.cancel()
        await self.peer.finish()
