import Mimic.Auth
namespace Mimic.Auth
open Mimic.Wire

theorem xorb_length (a b : Bytes) : (xorb a b).length = min a.length b.length := by simp [xorb]

theorem xorb_cancel : ∀ (a b : Bytes), a.length ≤ b.length → xorb (xorb a b) b = a
  | [], _, _ => by simp [xorb]
  | x :: a, [], h => by simp at h
  | x :: a, y :: b, h => by
    have ih := xorb_cancel a b (by simpa using h)
    simp only [xorb, List.zipWith_cons_cons] at ih ⊢
    rw [ih]
    congr 1
    rw [UInt8.xor_assoc, UInt8.xor_self, UInt8.xor_zero]

theorem xorb_append_junk : ∀ (a b j : Bytes), a.length = b.length → xorb (a ++ j) b = xorb a b
  | [], [], j, _ => by simp [xorb]
  | [], _ :: _, _, h => by simp at h
  | _ :: _, [], _, h => by simp at h
  | x :: a, y :: b, j, h => by
    have ih := xorb_append_junk a b j (by simpa using h)
    simp only [xorb, List.cons_append, List.zipWith_cons_cons] at ih ⊢
    rw [ih]

theorem xorb_take (a b : Bytes) : xorb a b = xorb (a.take b.length) b := by
  induction a generalizing b with
  | nil => simp [xorb]
  | cons x a ih =>
    cases b with
    | nil => simp [xorb]
    | cons y b => simp only [xorb, List.length_cons, List.take_succ_cons, List.zipWith_cons_cons] at ih ⊢; rw [ih]

theorem nonceOf_length (α : Bytes) (draws : List Nat) : (nonceOf α draws).length = draws.length := by
  simp [nonceOf]

theorem nonceOf_mem (α : Bytes) (hα : α ≠ []) (draws : List Nat) : ∀ b ∈ nonceOf α draws, b ∈ α := by
  intro b hb
  simp only [nonceOf, List.mem_map] at hb
  obtain ⟨d, _, rfl⟩ := hb
  have hl : d % α.length < α.length := Nat.mod_lt _ (List.length_pos_iff.mpr hα)
  rw [List.getD_eq_getElem?_getD, List.getElem?_eq_getElem hl]
  simp

theorem rstrip0_snoc (n : Bytes) (h : ∀ b ∈ n, b ≠ 0) : rstrip0 (n ++ [0]) = n := by
  unfold rstrip0
  simp only [List.reverse_append, List.reverse_cons, List.reverse_nil, List.nil_append, List.singleton_append]
  rw [List.dropWhile_cons]
  simp only [decide_true, if_true]
  cases hn : n.reverse with
  | nil => simp [List.reverse_eq_nil_iff.mp hn]
  | cons x xs =>
    have hx : x ≠ 0 := h x (by rw [← List.mem_reverse, hn]; simp)
    rw [List.dropWhile_cons]
    simp only [hx, decide_false, Bool.false_eq_true, if_false]
    rw [← hn, List.reverse_reverse]

/-- the more-data loop reports success only with the name a plugin decision vouched for -/
theorem moreLoop_authenticated (H : Bytes → Bytes) (p : Plugin) (info : Info) (fuel : Nat) :
    ∀ (d : Decision) (st : PState) (replies : List Bytes) (outs : List AOut) (n : String),
      moreLoop H p info fuel d st replies = (outs, .authenticated n) →
      outs.getLast? = some .ok ∧ (∀ o ∈ outs.dropLast, ∃ data, o = .more data) := by
  induction fuel with
  | zero => intro d st replies outs n h; simp [moreLoop] at h
  | succ fuel ih =>
    intro d st replies outs n h
    cases d with
    | success m => simp [moreLoop] at h; obtain ⟨rfl, _⟩ := h; simp
    | forbidden => simp [moreLoop] at h
    | raised => simp [moreLoop] at h
    | more data =>
      cases replies with
      | nil => simp [moreLoop] at h
      | cons r rs =>
        simp only [moreLoop] at h
        cases ht : moreLoop H p info fuel (send H p st { info with data := r }).1 (send H p st { info with data := r }).2 rs with
        | mk o res =>
          rw [ht] at h
          simp only [Prod.mk.injEq] at h
          obtain ⟨rfl, rfl⟩ := h
          obtain ⟨h1, h2⟩ := ih _ _ _ _ _ ht
          have hne : o ≠ [] := by intro c; subst c; simp at h1
          refine ⟨by rw [List.getLast?_cons_of_ne_nil hne]; exact h1, ?_⟩
          intro x hx
          rw [List.dropLast_cons_of_ne_nil hne] at hx
          rcases List.mem_cons.mp hx with rfl | hx
          · exact ⟨data, rfl⟩
          · exact h2 x hx

/-- dually: whenever the loop does not end in success, no OK packet is written -/
theorem moreLoop_no_ok (H : Bytes → Bytes) (p : Plugin) (info : Info) (fuel : Nat) :
    ∀ (d : Decision) (st : PState) (replies : List Bytes) (outs : List AOut) (res : ARes),
      moreLoop H p info fuel d st replies = (outs, res) → (∀ n, res ≠ .authenticated n) → AOut.ok ∉ outs := by
  induction fuel with
  | zero => intro d st replies outs res h _; simp [moreLoop] at h; obtain ⟨rfl, _⟩ := h; simp
  | succ fuel ih =>
    intro d st replies outs res h hres
    cases d with
    | success m => simp [moreLoop] at h; exact absurd h.2.symm (hres m)
    | forbidden => simp [moreLoop] at h; obtain ⟨rfl, _⟩ := h; simp
    | raised => simp [moreLoop] at h; obtain ⟨rfl, _⟩ := h; simp
    | more data =>
      cases replies with
      | nil => simp [moreLoop] at h; obtain ⟨rfl, _⟩ := h; simp
      | cons r rs =>
        simp only [moreLoop] at h
        cases ht : moreLoop H p info fuel (send H p st { info with data := r }).1 (send H p st { info with data := r }).2 rs with
        | mk o res' =>
          rw [ht] at h
          simp only [Prod.mk.injEq] at h
          obtain ⟨rfl, rfl⟩ := h
          have := ih _ _ _ _ _ ht hres
          simp [this]

end Mimic.Auth
