import Mimic.Results
import MimicProofs.Wire
namespace Mimic.Results
open Mimic.Wire

/-! ### peeking preserves the row sequence -/

theorem peek_chain (n : Nat) : ∀ (todo : List Nat) (acc rows : List (List Val)), rows.length = n →
    (peek todo acc rows).1 ++ (peek todo acc rows).2.1 = acc.reverse ++ rows := by
  induction n with
  | zero =>
    intro todo acc rows h
    have : rows = [] := List.length_eq_zero_iff.mp h
    subst this; simp [peek]
  | succ n ih =>
    intro todo acc rows h
    match rows, h with
    | r :: rs, h =>
      rw [peek]
      split
      · simp
      · split
        · simp
        · rw [ih _ _ rs (by simpa using h)]; simp

/-! ### NULL bitmap -/

theorem pack8_bit : ∀ (b0 b1 b2 b3 b4 b5 b6 b7 : Bool) (k : Fin 8),
    ((pack8 b0 b1 b2 b3 b4 b5 b6 b7).toNat / 2 ^ k.val) % 2 =
      (match k.val with | 0 => b0 | 1 => b1 | 2 => b2 | 3 => b3 | 4 => b4 | 5 => b5 | 6 => b6 | _ => b7).toNat := by
  decide

@[simp] theorem bitmap_length (off : Nat) (nulls : List Bool) :
    (bitmap off nulls).length = (nulls.length + 7 + off) / 8 := by simp [bitmap]

theorem bitmap_testBit (off : Nat) (nulls : List Bool) (pos : Nat) (h : pos / 8 < (nulls.length + 7 + off) / 8) :
    (((bitmap off nulls).getD (pos / 8) 0).toNat / 2 ^ (pos % 8)) % 2 = (bitmapGet off nulls pos).toNat := by
  have hget : (bitmap off nulls).getD (pos / 8) 0 =
      pack8 (bitmapGet off nulls (8 * (pos / 8))) (bitmapGet off nulls (8 * (pos / 8) + 1))
        (bitmapGet off nulls (8 * (pos / 8) + 2)) (bitmapGet off nulls (8 * (pos / 8) + 3))
        (bitmapGet off nulls (8 * (pos / 8) + 4)) (bitmapGet off nulls (8 * (pos / 8) + 5))
        (bitmapGet off nulls (8 * (pos / 8) + 6)) (bitmapGet off nulls (8 * (pos / 8) + 7)) := by
    simp [bitmap, List.getD_eq_getElem?_getD, h]
  rw [hget]
  have hk : pos % 8 < 8 := Nat.mod_lt _ (by decide)
  have := pack8_bit (bitmapGet off nulls (8 * (pos / 8))) (bitmapGet off nulls (8 * (pos / 8) + 1))
        (bitmapGet off nulls (8 * (pos / 8) + 2)) (bitmapGet off nulls (8 * (pos / 8) + 3))
        (bitmapGet off nulls (8 * (pos / 8) + 4)) (bitmapGet off nulls (8 * (pos / 8) + 5))
        (bitmapGet off nulls (8 * (pos / 8) + 6)) (bitmapGet off nulls (8 * (pos / 8) + 7)) ⟨pos % 8, hk⟩
  simp only at this
  rw [this]
  have hp : pos = 8 * (pos / 8) + pos % 8 := (Nat.div_add_mod pos 8).symm
  generalize hq : pos / 8 = q at *
  generalize hr : pos % 8 = r at *
  have : r = 0 ∨ r = 1 ∨ r = 2 ∨ r = 3 ∨ r = 4 ∨ r = 5 ∨ r = 6 ∨ r = 7 := by omega
  rcases this with rfl | rfl | rfl | rfl | rfl | rfl | rfl | rfl <;> simp [hp]

/-- **`is_flipped(i)` returns exactly the NULL flag of cell `i`**, for every number of cells, both offsets used
    by the protocol (and any other), and every NULL pattern. -/
theorem isFlipped_bitmap (off : Nat) (nulls : List Bool) (i : Nat) (hi : i < nulls.length) :
    isFlipped off (bitmap off nulls) i = nulls.getD i false := by
  unfold isFlipped
  have h : (i + off) / 8 < (nulls.length + 7 + off) / 8 := by
    apply Nat.div_lt_of_lt_mul
    have := Nat.div_add_mod (nulls.length + 7 + off) 8
    have := Nat.mod_lt (nulls.length + 7 + off) (show 0 < 8 by decide)
    omega
  rw [bitmap_testBit off nulls (i + off) h]
  have : bitmapGet off nulls (i + off) = nulls.getD i false := by
    simp [bitmapGet]
  rw [this]
  cases nulls.getD i false <;> simp

/-! ### text rows -/

/-- the first byte of a length-encoded string is never the NULL marker `0xFB` -/
theorem encStr_head (b : Bytes) : ∃ x xs, encStr b = x :: xs ∧ x ≠ 0xFB := by
  unfold encStr encLen
  split
  · rename_i h1
    refine ⟨UInt8.ofNat b.length, b, by simp, ?_⟩
    intro c; have := congrArg UInt8.toNat c; rw [UInt8.toNat_ofNat'] at this; simp at this; omega
  · split
    · exact ⟨0xFC, leN 2 b.length ++ b, by simp, by decide⟩
    · split
      · exact ⟨0xFD, leN 3 b.length ++ b, by simp, by decide⟩
      · exact ⟨0xFE, leN 8 b.length ++ b, by simp, by decide⟩

theorem textRowDec_cells (cells : List (Option Bytes)) (h : ∀ c ∈ cells, ∀ b, c = some b → b.length < 2 ^ 63) :
    textRowDec cells.length
      ((cells.map (fun c => match c with | none => [0xFB] | some b => encStr b)).flatten) = some cells := by
  induction cells with
  | nil => simp [textRowDec]
  | cons c cs ih =>
    have ih' := ih (fun c' hc' => h c' (by simp [hc']))
    cases c with
    | none =>
      simp only [List.length_cons, List.map_cons, List.flatten_cons, List.cons_append, List.nil_append]
      rw [textRowDec]; simp [ih']
    | some b =>
      have hb := h (some b) (by simp) b rfl
      simp only [List.length_cons, List.map_cons, List.flatten_cons]
      obtain ⟨x, xs, hx, hxne⟩ := encStr_head b
      have hx' : encStr b ++ (cs.map (fun c => match c with | none => [0xFB] | some b => encStr b)).flatten =
          x :: (xs ++ (cs.map (fun c => match c with | none => [0xFB] | some b => encStr b)).flatten) := by
        rw [hx]; rfl
      rw [hx', textRowDec]
      · rw [← hx', (decStr_encStr b hb _).2]; simp [ih']
      · intro rest hh; exact hxne (by injection hh)

end Mimic.Results

namespace Mimic.Results
open Mimic.Wire

/-! ### binary cells -/

theorem leN1 (n : Nat) : leN 1 n = [UInt8.ofNat (n % 256)] := by simp [leN]
theorem leN2 (n : Nat) : leN 2 n = [UInt8.ofNat (n % 256), UInt8.ofNat (n / 256 % 256)] := by simp [leN]
theorem leN4 (n : Nat) : leN 4 n = [UInt8.ofNat (n % 256), UInt8.ofNat (n / 256 % 256),
    UInt8.ofNat (n / 256 / 256 % 256), UInt8.ofNat (n / 256 / 256 / 256 % 256)] := by simp [leN]

/-- arithmetic core of the TIME round trip: the six fields determine the duration -/
theorem durFields_mag (us : Int) :
    let f := durFields us
    ((((f.2.1 * 24 + f.2.2.1) * 60 + f.2.2.2.1) * 60 + f.2.2.2.2.1) * 1000000 + f.2.2.2.2.2 = us.natAbs) ∧
    f.2.2.1 < 24 ∧ f.2.2.2.1 < 60 ∧ f.2.2.2.2.1 < 60 ∧ f.2.2.2.2.2 < 1000000 ∧ (f.1 = 1 ↔ us < 0) ∧ f.1 ≤ 1 := by
  simp only [durFields]
  generalize us.natAbs = a
  refine ⟨by omega, by omega, by omega, by omega, by omega, ?_, ?_⟩
  · by_cases h : us < 0 <;> simp [h]
  · by_cases h : us < 0 <;> simp [h]

theorem signed_mag (us : Int) (b : Nat) (hb : b = 1 ↔ us < 0) :
    (if b = 1 then -((us.natAbs : Nat) : Int) else ((us.natAbs : Nat) : Int)) = us := by
  by_cases h : us < 0
  · have : b = 1 := hb.mpr h
    simp [this]; omega
  · have : ¬ b = 1 := fun c => h (hb.mp c)
    simp [this]; omega

/-- well-formedness of a cell for a binary encoder class: exactly the values the protocol can carry -/
def WF : BinEnc → Val → Prop
  | .str, v => ∃ b, strOf v = some b ∧ b.length < 2 ^ 63
  | .float, .flt p4 _ _ => p4.length = 4
  | .double, .flt _ p8 _ => p8.length = 8
  | .date, .date y m d => y < 65536 ∧ m < 256 ∧ d < 256
  | .date, .datetime y mo d h mi s us => y < 65536 ∧ mo < 256 ∧ d < 256 ∧ h < 256 ∧ mi < 256 ∧ s < 256 ∧ us < 2 ^ 32
  | .time, .dur us => us.natAbs / 1000000 / 86400 < 2 ^ 32
  | _, _ => True

theorem binCell_int_roundtrip (k : Nat) (hk : 0 < k) (z : Int) (enc rest : Bytes) (h : sInt k z = some enc) :
    readSInt k (enc ++ rest) = some (z, rest) := by
  unfold sInt at h
  split at h
  · rename_i hin
    simp at h; subst h
    exact readSInt_roundtrip k hk z hin rest
  · simp at h

theorem ofNat_toNat_lt (n : Nat) (h : n < 256) : (UInt8.ofNat n).toNat = n := by
  rw [UInt8.toNat_ofNat']; omega

theorem binDate_roundtrip (y mo d h mi s us : Nat) (rest : Bytes)
    (hy : y < 65536) (hmo : mo < 256) (hd : d < 256) (hh : h < 256) (hmi : mi < 256) (hs : s < 256) (hus : us < 2 ^ 32) :
    binCellDec .date (binDate y mo d h mi s us ++ rest) = some (.temporal y mo d h mi s us, rest) := by
  unfold binDate
  split
  · rename_i hus0
    split
    · rename_i hz
      obtain ⟨rfl, rfl, rfl⟩ := hz
      split
      · rename_i hz2
        obtain ⟨rfl, rfl, rfl⟩ := hz2
        subst hus0
        simp [binCellDec]
      · subst hus0
        simp only [leN2, List.cons_append, List.nil_append, binCellDec]
        simp [takeN, byteAt, leVal, ofNat_toNat_lt _ hmo, ofNat_toNat_lt _ hd]
        omega
    · subst hus0
      simp only [leN2, List.cons_append, List.nil_append, binCellDec]
      simp [takeN, byteAt, leVal, ofNat_toNat_lt _ hmo, ofNat_toNat_lt _ hd, ofNat_toNat_lt _ hh,
        ofNat_toNat_lt _ hmi, ofNat_toNat_lt _ hs]
      omega
  · simp only [leN2, leN4, List.cons_append, List.nil_append, binCellDec]
    simp [takeN, byteAt, leVal, ofNat_toNat_lt _ hmo, ofNat_toNat_lt _ hd, ofNat_toNat_lt _ hh,
      ofNat_toNat_lt _ hmi, ofNat_toNat_lt _ hs]
    omega

end Mimic.Results

namespace Mimic.Results
open Mimic.Wire

theorem binDur_roundtrip (us : Int) (rest : Bytes) (hdays : us.natAbs / 1000000 / 86400 < 2 ^ 32) :
    binCellDec .time (binDur us ++ rest) = some (.dur us, rest) := by
  have hf := durFields_mag us
  unfold binDur
  generalize hfe : durFields us = f at hf
  obtain ⟨neg, days, hh, mi, s, u⟩ := f
  simp only at hf ⊢
  obtain ⟨hmag, h1, h2, h3, h4, hsign, hneg⟩ := hf
  have hd : days < 2 ^ 32 := by
    have : days = us.natAbs / 1000000 / 86400 := by
      have := congrArg (fun f => f.2.1) hfe; simpa [durFields] using this.symm
    omega
  have hnegb : (UInt8.ofNat neg).toNat = neg := ofNat_toNat_lt _ (by omega)
  split
  · rename_i hu0
    split
    · rename_i hz
      obtain ⟨rfl, rfl, rfl, rfl⟩ := hz
      subst hu0
      have h0 : us.natAbs = 0 := by simpa using hmag.symm
      have : us = 0 := Int.natAbs_eq_zero.mp h0
      subst this
      simp [binCellDec]
    · subst hu0
      simp only [leN4, List.cons_append, List.nil_append, binCellDec]
      simp [takeN, byteAt, leVal, hnegb, ofNat_toNat_lt _ (show hh < 256 by omega),
        ofNat_toNat_lt _ (show mi < 256 by omega), ofNat_toNat_lt _ (show s < 256 by omega)]
      by_cases hn : neg = 1
      · have : us < 0 := hsign.mp hn
        simp only [hn, if_true]; omega
      · have : ¬ us < 0 := fun c => hn (hsign.mpr c)
        simp only [hn, if_false]; omega
  · simp only [leN4, List.cons_append, List.nil_append, List.append_assoc, binCellDec]
    simp [takeN, byteAt, leVal, hnegb, ofNat_toNat_lt _ (show hh < 256 by omega),
      ofNat_toNat_lt _ (show mi < 256 by omega), ofNat_toNat_lt _ (show s < 256 by omega)]
    by_cases hn : neg = 1
    · have : us < 0 := hsign.mp hn
      simp only [hn, if_true]; omega
    · have : ¬ us < 0 := fun c => hn (hsign.mpr c)
      simp only [hn, if_false]; omega

/-- **One binary cell round-trips**: whatever follows it in the packet, a client decoding a cell of encoder class
    `t` obtains the application's value and is positioned exactly behind it. -/
theorem binCell_roundtrip (t : BinEnc) (v : Val) (enc rest : Bytes) (hv : v ≠ .null)
    (h : binCell t v = some enc) (hwf : WF t v) :
    binCellDec t (enc ++ rest) = some (view t v, rest) := by
  cases t <;> cases v <;> simp only [binCell, reduceCtorEq] at h <;> try contradiction
  all_goals first
    | (simp only [binCellDec, view]; rw [binCell_int_roundtrip _ (by decide) _ _ _ h]; rfl)
    | skip
  -- float
  · simp only [Option.some.injEq] at h; subst h
    simp only [WF] at hwf
    simp [binCellDec, view, takeN_append 4 _ _ hwf]
  -- double
  · simp only [Option.some.injEq] at h; subst h
    simp only [WF] at hwf
    simp [binCellDec, view, takeN_append 8 _ _ hwf]
  -- str (5 value kinds; null excluded)
  all_goals first
    | (obtain ⟨b, hb, hlen⟩ := hwf
       simp only [hb, Option.map_some, Option.some.injEq] at h; subst h
       simp [binCellDec, view, hb, (decStr_encStr b hlen rest).2])
    | skip
  -- date, datetime
  · simp only [Option.some.injEq] at h; subst h
    obtain ⟨hy, hm, hd⟩ := hwf
    simpa [view] using binDate_roundtrip _ _ _ 0 0 0 0 rest hy hm hd (by decide) (by decide) (by decide) (by decide)
  · simp only [Option.some.injEq] at h; subst h
    obtain ⟨hy, hm, hd, hh, hmi, hs, hus⟩ := hwf
    simpa [view] using binDate_roundtrip _ _ _ _ _ _ _ rest hy hm hd hh hmi hs hus
  -- time
  · simp only [Option.some.injEq] at h; subst h
    simpa [view] using binDur_roundtrip _ rest hwf

end Mimic.Results

namespace Mimic.Results
open Mimic.Wire

theorem view_null (t : BinEnc) : view t .null = .null := by cases t <;> rfl

theorem isNull_iff (v : Val) : isNull v = true ↔ v = .null := by cases v <;> simp [isNull]

theorem binCells_roundtrip : ∀ (row : List Val) (cols : List BinEnc) (encs : List Bytes),
    row.length = cols.length →
    (∀ vc ∈ row.zip cols, WF vc.2 vc.1) →
    optAll (((row.zip cols).filter (fun vc => !isNull vc.1)).map (fun vc => binCell vc.2 vc.1)) = some encs →
    binCellsDec (cols.zip (row.map isNull)) encs.flatten = some ((row.zip cols).map (fun vc => view vc.2 vc.1)) := by
  intro row
  induction row with
  | nil =>
    intro cols encs hl _ h
    have : cols = [] := by cases cols <;> simp_all
    subst this
    simp [optAll] at h; subst h
    simp [binCellsDec]
  | cons v vs ih =>
    intro cols encs hl hwf h
    cases cols with
    | nil => simp at hl
    | cons t ts =>
      have hl' : vs.length = ts.length := by simpa using hl
      have hwf' : ∀ vc ∈ vs.zip ts, WF vc.2 vc.1 := fun vc hvc => hwf vc (by simp [hvc])
      by_cases hn : isNull v = true
      · have hv : v = .null := (isNull_iff v).mp hn
        subst hv
        simp only [List.zip_cons_cons, List.filter_cons, isNull, Bool.not_true, Bool.false_eq_true, if_false] at h
        have := ih ts encs hl' hwf' h
        simp [binCellsDec, isNull, this, view_null]
      · have hnf : isNull v = false := by simpa using hn
        have hv : v ≠ .null := fun c => hn ((isNull_iff v).mpr c)
        simp only [List.zip_cons_cons, List.filter_cons, hnf, Bool.not_false, if_true, List.map_cons, optAll] at h
        cases he : binCell t v with
        | none => simp [he, optAll] at h
        | some enc =>
          simp only [he, optAll] at h
          cases hr : optAll (((vs.zip ts).filter (fun vc => !isNull vc.1)).map (fun vc => binCell vc.2 vc.1)) with
          | none => simp [hr] at h
          | some encs' =>
            simp only [hr, Option.map_some, Option.some.injEq] at h
            subst h
            have hc := binCell_roundtrip t v enc encs'.flatten hv he (hwf (v, t) (by simp))
            have := ih ts encs' hl' hwf' hr
            simp [binCellsDec, hnf, hc, this]

theorem range_map_getD (l : List Bool) : (List.range l.length).map (fun i => l.getD i false) = l := by
  apply List.ext_getElem
  · simp
  · intro i h1 h2
    simp at h1
    simp [List.getD_eq_getElem?_getD, h1]

/-- **Binary rows round-trip**: for every shape (any number of columns, hence every bitmap size), every NULL
    pattern and every well-formed value of every supported encoder class, a standard client decoding the
    packet built by `make_binary_resultrow` obtains the application's values, column by column. -/
theorem binRow_roundtrip (cols : List BinEnc) (row : List Val) (pkt : Bytes)
    (hl : row.length = cols.length) (hwf : ∀ vc ∈ row.zip cols, WF vc.2 vc.1)
    (h : binRow cols row = some pkt) :
    binRowDec cols pkt = some ((row.zip cols).map (fun vc => view vc.2 vc.1)) := by
  unfold binRow at h
  cases hr : optAll (((row.zip cols).filter (fun vc => !isNull vc.1)).map (fun vc => binCell vc.2 vc.1)) with
  | none => simp [hr] at h
  | some encs =>
    simp only [hr, Option.map_some, Option.some.injEq] at h
    subst h
    simp only [binRowDec]
    have hbl : (bitmap 2 (row.map isNull)).length = (cols.length + 7 + 2) / 8 := by simp [hl]
    have hle : (cols.length + 7 + 2) / 8 ≤ (bitmap 2 (row.map isNull) ++ encs.flatten).length := by
      simp [hl]
    simp only [hle, if_true]
    rw [← hbl, List.take_left, List.drop_left]
    have hflags : (List.range cols.length).map (isFlipped 2 (bitmap 2 (row.map isNull))) = row.map isNull := by
      have : (List.range cols.length).map (isFlipped 2 (bitmap 2 (row.map isNull))) =
             (List.range (row.map isNull).length).map (fun i => (row.map isNull).getD i false) := by
        simp only [List.length_map, hl]
        apply List.map_congr_left
        intro i hi
        simp at hi
        exact isFlipped_bitmap 2 (row.map isNull) i (by simpa [hl] using hi)
      rw [this, range_map_getD]
    rw [hflags]
    exact binCells_roundtrip row cols encs hl hwf hr

end Mimic.Results

namespace Mimic.Results
open Mimic.Wire

/-! ### decimal text -/

def decStep (acc : Option Nat) (b : UInt8) : Option Nat :=
  match acc with
  | none => none
  | some a => if 48 ≤ b.toNat ∧ b.toNat ≤ 57 then some (10 * a + (b.toNat - 48)) else none

theorem decToNat_eq (bs : Bytes) (h : bs ≠ []) : decToNat bs = bs.foldl decStep (some 0) := by
  cases bs with
  | nil => contradiction
  | cons b bs => rfl

def numDigits : Nat → Nat → Nat
  | 0, _ => 1
  | fuel + 1, n => if n < 10 then 1 else 1 + numDigits fuel (n / 10)

theorem decStep_digit (a k : Nat) (hk : k < 10) : decStep (some a) (UInt8.ofNat (48 + k)) = some (10 * a + k) := by
  have : (UInt8.ofNat (48 + k)).toNat = 48 + k := by rw [UInt8.toNat_ofNat']; omega
  simp only [decStep, this]
  have h1 : 48 ≤ 48 + k ∧ 48 + k ≤ 57 := by omega
  simp only [h1, and_self, if_true]
  congr 2; omega

theorem natToDecAux_fold (fuel : Nat) : ∀ (n : Nat) (acc : Bytes) (x : Nat), n < fuel →
    (natToDecAux fuel n acc).foldl decStep (some x) =
      acc.foldl decStep (some (x * 10 ^ (numDigits fuel n) + n)) := by
  induction fuel with
  | zero => intro n acc x h; omega
  | succ fuel ih =>
    intro n acc x h
    simp only [natToDecAux, numDigits]
    split
    · rename_i h10
      simp only [List.foldl_cons, decStep_digit x n h10]
      congr 2; omega
    · rename_i h10
      have hlt : n / 10 < fuel := by omega
      rw [ih (n / 10) _ x hlt]
      simp only [List.foldl_cons]
      rw [decStep_digit _ (n % 10) (Nat.mod_lt _ (by decide))]
      congr 2
      rw [Nat.add_comm 1, Nat.pow_succ, ← Nat.mul_assoc]
      generalize x * 10 ^ numDigits fuel (n / 10) = t
      omega

theorem natToDecAux_ne_nil (fuel n : Nat) (acc : Bytes) (h : n < fuel) : natToDecAux fuel n acc ≠ [] := by
  induction fuel generalizing n acc with
  | zero => omega
  | succ fuel ih =>
    simp only [natToDecAux]
    split
    · simp
    · exact ih _ _ (by omega)

/-- `int(str(n)) = n`: the decimal text of a natural number parses back -/
theorem decToNat_natToDec (n : Nat) : decToNat (natToDec n) = some n := by
  unfold natToDec
  rw [decToNat_eq _ (natToDecAux_ne_nil _ _ _ (by omega)), natToDecAux_fold _ _ _ _ (by omega)]
  simp

theorem natToDecAux_head (fuel : Nat) : ∀ (n : Nat) (acc : Bytes), n < fuel →
    ∃ k rest, k < 10 ∧ natToDecAux fuel n acc = UInt8.ofNat (48 + k) :: rest := by
  induction fuel with
  | zero => intro n acc h; omega
  | succ fuel ih =>
    intro n acc h
    simp only [natToDecAux]
    split
    · rename_i h10; exact ⟨n, acc, h10, rfl⟩
    · exact ih _ _ (by omega)

/-- the decimal text of an integer (with `-` for negatives) parses back -/
theorem decToInt_intToDec (z : Int) : decToInt (intToDec z) = some z := by
  unfold intToDec
  split
  · rename_i hneg
    simp only [decToInt, decToNat_natToDec]
    have : -((z.natAbs : Nat) : Int) = z := by omega
    rw [this]
  · rename_i hneg
    obtain ⟨k, rest, hk, he⟩ := natToDecAux_head (z.natAbs + 1) z.natAbs [] (by omega)
    have hne : UInt8.ofNat (48 + k) ≠ 45 := by
      intro c; have := congrArg UInt8.toNat c; rw [UInt8.toNat_ofNat'] at this; simp at this; omega
    have hd : decToNat (natToDec z.natAbs) = some z.natAbs := decToNat_natToDec _
    unfold natToDec at hd ⊢
    rw [he] at hd ⊢
    rw [decToInt]
    · simp only [hd]
      have : ((z.natAbs : Nat) : Int) = z := by omega
      rw [this]
    · intro rest' hh; exact hne (by injection hh)

/-- zero padding does not change the value -/
theorem decToNat_pad (w n : Nat) : decToNat (pad w n) = some n := by
  unfold pad
  have hne : List.replicate (w - (natToDec n).length) (48 : UInt8) ++ natToDec n ≠ [] := by
    intro c
    have := (List.append_eq_nil_iff.mp c).2
    exact natToDecAux_ne_nil _ _ _ (by omega) this
  rw [decToNat_eq _ hne, List.foldl_append]
  have hz : ∀ k, (List.replicate k (48 : UInt8)).foldl decStep (some 0) = some 0 := by
    intro k; induction k with
    | zero => rfl
    | succ k ih => simp [List.replicate_succ, decStep, ih]
  rw [hz]
  have := decToNat_natToDec n
  rwa [decToNat_eq _ (by unfold natToDec; exact natToDecAux_ne_nil _ _ _ (by omega))] at this

end Mimic.Results
