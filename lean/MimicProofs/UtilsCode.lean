import Mimic.Auth
import Mimic.Extracted.UtilsCode
/-!
`utils.xor` as translated by `harness/pytrans2.py` (`Mimic.Extracted.UtilsCode`): the "fast XOR" through Python integers
(`int.from_bytes`, `^`, `to_bytes`) is the byte-wise XOR of the model (`Mimic.Auth.xorb`), for all operands — both cut to
the shorter length — and `to_bytes` never overflows.
-/
set_option linter.unusedSimpArgs false
namespace MimicProofs.UtilsCode
open Mimic.Py Mimic.Extracted.UtilsCode

theorem leVal_lt (b : Bytes) : Mimic.Py.leVal b < 256 ^ b.length := by
  induction b with
  | nil => simp [Mimic.Py.leVal]
  | cons x xs ih =>
    simp only [Mimic.Py.leVal, List.length_cons, Nat.pow_succ]
    have := x.toNat_lt
    omega

theorem xor_mod_256 (a b : Nat) : (a ^^^ b) % 256 = a % 256 ^^^ b % 256 := by
  have := @Nat.xor_mod_two_pow a b 8
  simpa using this

theorem xor_div_256 (a b : Nat) : (a ^^^ b) / 256 = a / 256 ^^^ b / 256 := by
  have := @Nat.xor_div_two_pow a b 8
  simpa using this

theorem uint8_xor_toNat (x y : UInt8) : UInt8.ofNat (x.toNat ^^^ y.toNat) = x ^^^ y := by
  apply UInt8.toNat_inj.mp
  rw [UInt8.toNat_xor]
  have h : x.toNat ^^^ y.toNat < 2 ^ 8 := Nat.xor_lt_two_pow x.toNat_lt y.toNat_lt
  simp [UInt8.toNat_ofNat']
  try omega

/-- little-endian digits of the XOR of two little-endian numbers of the same length are the XORs of the digits -/
theorem le_xor : ∀ (a b : Bytes), a.length = b.length →
    Mimic.Py.le b.length (Mimic.Py.leVal b ^^^ Mimic.Py.leVal a) = List.zipWith (· ^^^ ·) a b := by
  intro a
  induction a with
  | nil => intro b h; cases b with | nil => rfl | cons _ _ => simp at h
  | cons x xs ih =>
    intro b h
    cases b with
    | nil => simp at h
    | cons y ys =>
      simp only [List.length_cons, Nat.add_right_cancel_iff] at h
      simp only [Mimic.Py.leVal, List.length_cons, Mimic.Py.le, List.zipWith_cons_cons]
      have hx := x.toNat_lt
      have hy := y.toNat_lt
      have hm : (y.toNat + 256 * Mimic.Py.leVal ys ^^^ x.toNat + 256 * Mimic.Py.leVal xs) % 256 = y.toNat ^^^ x.toNat := by
        rw [xor_mod_256]
        have h1 : (y.toNat + 256 * Mimic.Py.leVal ys) % 256 = y.toNat := by omega
        have h2 : (x.toNat + 256 * Mimic.Py.leVal xs) % 256 = x.toNat := by omega
        rw [h1, h2]
      have hd : (y.toNat + 256 * Mimic.Py.leVal ys ^^^ x.toNat + 256 * Mimic.Py.leVal xs) / 256 = Mimic.Py.leVal ys ^^^ Mimic.Py.leVal xs := by
        rw [xor_div_256]
        have h1 : (y.toNat + 256 * Mimic.Py.leVal ys) / 256 = Mimic.Py.leVal ys := by omega
        have h2 : (x.toNat + 256 * Mimic.Py.leVal xs) / 256 = Mimic.Py.leVal xs := by omega
        rw [h1, h2]
      rw [hm, hd, ih ys h, uint8_xor_toNat, UInt8.xor_comm]

/-- **`utils.xor` is the model's byte-wise XOR of the two operands cut to the shorter length** and never raises -/
theorem xor_eq (a b : Bytes) : Mimic.Extracted.UtilsCode.xor a b = some (Mimic.Auth.xorb a b) := by
  unfold Mimic.Extracted.UtilsCode.xor Mimic.Auth.xorb
  simp only
  have hlen : (a.take b.length).length = (b.take a.length).length := by simp [List.length_take]; omega
  have hlt : Mimic.Py.leVal (b.take a.length) ^^^ Mimic.Py.leVal (a.take b.length) < 256 ^ (b.take a.length).length := by
    have h1 := leVal_lt (b.take a.length)
    have h2 := leVal_lt (a.take b.length)
    rw [hlen] at h2
    have e : (256 : Nat) ^ (b.take a.length).length = 2 ^ (8 * (b.take a.length).length) := by
      rw [Nat.pow_mul]
    rw [e] at h1 h2 ⊢
    exact Nat.xor_lt_two_pow h1 h2
  simp only [hlt, if_true]
  rw [le_xor _ _ hlen]
  congr 1
  -- zipWith stops at the shorter list
  have hz : ∀ (a b : Bytes), List.zipWith (fun x1 x2 : UInt8 => x1 ^^^ x2) (a.take b.length) (b.take a.length)
      = List.zipWith (fun x1 x2 => x1 ^^^ x2) a b := by
    intro a
    induction a with
    | nil => intro b; simp
    | cons x xs ih =>
      intro b
      cases b with
      | nil => simp
      | cons y ys => simp [ih ys]
  exact hz a b

end MimicProofs.UtilsCode
