import MimicProofs.Frame
/-!
**A statement command touches only the statement it names.**  COM_STMT_FETCH, COM_STMT_RESET, COM_STMT_CLOSE,
COM_STMT_SEND_LONG_DATA and COM_STMT_EXECUTE on statement `k` leave every other entry of the registry — its cursor position, its
long-data buffers, its text — exactly as it was, in every outcome (returned or raised, rows exhausted or the source failing
half-way); COM_STMT_PREPARE adds one entry under the id it announces and changes no other.
-/
namespace MimicProofs.Indep
open Mimic.Py Mimic.Extracted.HandlersCode MimicProofs.HandlersCode
open Mimic.Extracted.ParsersCode (ComStmtFetch ComStmtReset ComStmtClose ComStmtSendLongData parse_handle_stmt_fetch parse_com_stmt_reset parse_com_stmt_close parse_com_stmt_send_long_data)

variable {S : Type} [DecidableEq S]

/-- every registry entry other than `k` is the same in the result (returned or raised) as in `c` -/
def Others (c : Connection S) (k : Nat) : Except (Connection S) (Connection S) → Prop
  | .ok s => ∀ j, j ≠ k → dictGet s.prepared_stmts j = dictGet c.prepared_stmts j
  | .error s => ∀ j, j ≠ k → dictGet s.prepared_stmts j = dictGet c.prepared_stmts j

theorem fetch_others (c : Connection S) (data : Bytes) (f : ComStmtFetch S) (hp : parse_handle_stmt_fetch (S := S) data = some f) :
    Others c f.stmt_id (handle_stmt_fetch c data) := by
  unfold handle_stmt_fetch
  simp only [hp, get_stmt_eq]
  cases hget : dictGet c.prepared_stmts f.stmt_id with
  | none => intro j _; rfl
  | some stmt =>
    cases hcur : stmt.cursor with
    | none => simp only [hcur, Option.isNone_none, if_true]; intro j _; rfl
    | some g =>
      simp only [hcur, Option.isNone_some, Bool.false_eq_true, if_false]
      by_cases hn : f.num_rows > 0
      · simp only [hn, decide_true, if_true, iter_exact f f.stmt_id g.rows g.boom c stmt 0 hn, Nat.sub_zero, Nat.zero_add]
        by_cases h1 : f.num_rows ≤ g.rows.length
        · simp only [h1, if_true]
          intro j hj; simp [after, dictGet_dictSet, hj]
        · simp only [h1, if_false]
          cases hb : g.boom with
          | true => simp only [if_true]; intro j hj; simp [after, dictGet_dictSet, hj]
          | false => simp only [Bool.false_eq_true, if_false]; intro j hj; simp [after, dictGet_dictSet, hj]
      · simp only [hn, decide_false, Bool.false_eq_true, if_false]
        intro j _; rfl

theorem reset_others (c : Connection S) (data : Bytes) (f : ComStmtReset S) (hp : parse_com_stmt_reset (S := S) data = some f) :
    Others c f.stmt_id (handle_stmt_reset c data) := by
  unfold handle_stmt_reset
  simp only [hp, get_stmt_eq]
  cases hget : dictGet c.prepared_stmts f.stmt_id with
  | none => intro j _; rfl
  | some stmt => intro j hj; simp [dictGet_dictSet, hj]

omit [DecidableEq S] in
theorem close_others (c : Connection S) (data : Bytes) (f : ComStmtClose S) (hp : parse_com_stmt_close (S := S) data = some f) :
    Others c f.stmt_id (handle_stmt_close c data) := by
  unfold handle_stmt_close
  simp only [hp]
  intro j hj; simp [dictGet_dictErase, hj]

theorem send_long_data_others (c : Connection S) (data : Bytes) (f : ComStmtSendLongData S)
    (hp : parse_com_stmt_send_long_data (S := S) data = some f) : Others c f.stmt_id (handle_stmt_send_long_data c data) := by
  have h := handle_stmt_send_long_data_spec c data f hp
  cases hg : dictGet c.prepared_stmts f.stmt_id with
  | none => rw [hg] at h; dsimp only at h; rw [h]; intro j _; rfl
  | some stmt =>
    rw [hg] at h; dsimp only at h
    obtain ⟨c', _, hr, _, _, _, ho, _⟩ := h
    rw [hr]; exact ho

theorem execute_others (coldef : Nat → Nat → Bytes) (parse : Connection S → Bytes → Option (ComStmtExecute S))
    (app : S → Option (ResultSet S)) (c : Connection S) (data : Bytes) (x : ComStmtExecute S) (hp : parse c data = some x) :
    Others c x.stmt.stmt_id (handle_stmt_execute coldef parse app c data) := by
  have h := handle_stmt_execute_spec coldef parse app c data
  rw [hp] at h; dsimp only at h
  cases ha : app x.sql with
  | none => rw [ha] at h; dsimp only at h; rw [h]; intro j hj; simp [dictGet_dictSet, hj]
  | some rs =>
    rw [ha] at h; dsimp only at h
    by_cases he : rs.columns.isEmpty = true
    · rw [if_pos he] at h; obtain ⟨_, _, _, _, _, h⟩ := h; rw [h]; intro j hj; simp [dictGet_dictSet, hj]
    · rw [if_neg he] at h
      by_cases hc : x.use_cursor = true
      · rw [if_pos hc] at h; obtain ⟨_, _, _, h⟩ := h; rw [h]; intro j hj; simp [dictGet_dictSet, hj]
      · rw [if_neg hc] at h; obtain ⟨_, _, _, _, _, _, h⟩ := h
        rw [h]
        by_cases hb : rs.rows.boom = true
        · rw [if_pos hb]; intro j hj; simp [dictGet_dictSet, hj]
        · rw [if_neg hb]; intro j hj; simp [dictGet_dictSet, hj]

theorem prepare_others (E : Env S) (cp : S → Nat) (pc : Nat → Bytes) (c : Connection S) (data : Bytes) :
    Others c c.prepared_stmt_seq.value (handle_stmt_prepare E cp pc c data) := by
  have h := handle_stmt_prepare_spec E cp pc c data
  cases hd : E.decode c.client_charset data with
  | none => rw [hd] at h; dsimp only at h; rw [h]; intro j _; rfl
  | some sql =>
    rw [hd] at h; dsimp only at h
    obtain ⟨c', w, f, hr, hs, _⟩ := h
    rw [hr]; intro j hj; rw [hs]; simp [dictGet_dictSet, hj]

end MimicProofs.Indep
