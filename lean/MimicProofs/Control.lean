import Mimic.Control
/-! Helper lemmas for the `LocalControl` model (C18), for an arbitrary sequence-space size `n > 0`. -/
namespace Mimic.Control
open Mimic.Extracted.Control

theorem N_eq : N = 65536 := by decide
theorem bits_eq : (2 : Nat) ^ connectionIdBits = 65536 := by decide
theorem maxServerId_eq : maxServerId = 65536 := by decide

theorem probe_none (n : Nat) (hn : 0 < n) (p : Nat) (live : List Nat) :
    ∀ f s, s < n → probe n p live f s = none → ∀ k, k < f → (p + (s + k) % n) ∈ live := by
  intro f
  induction f with
  | zero => intro s _ _ k hk; omega
  | succ f ih =>
    intro s hs h k hk
    unfold probe at h
    split at h
    · rename_i hmem
      cases k with
      | zero =>
        have : (s + 0) % n = s := by simp [Nat.mod_eq_of_lt hs]
        rw [this]; exact hmem
      | succ k =>
        have hlt : (s + 1) % n < n := Nat.mod_lt _ hn
        have := ih ((s + 1) % n) hlt h k (by omega)
        have e : ((s + 1) % n + k) % n = (s + (k + 1)) % n := by
          rw [Nat.mod_add_mod]; congr 1; omega
        rw [e] at this; exact this
    · simp at h

theorem probe_some (n : Nat) (hn : 0 < n) (p : Nat) (live : List Nat) :
    ∀ f s id s', s < n → probe n p live f s = some (id, s') →
      id ∉ live ∧ s' < n ∧ ∃ r, r < n ∧ id = p + r := by
  intro f
  induction f with
  | zero => intro s id s' _ h; simp [probe] at h
  | succ f ih =>
    intro s id s' hs h
    unfold probe at h
    split at h
    · exact ih _ _ _ (Nat.mod_lt _ hn) h
    · rename_i hnm
      simp at h
      obtain ⟨rfl, rfl⟩ := h
      exact ⟨hnm, Nat.mod_lt _ hn, s, hs, rfl⟩

/-- pigeonhole: if every one of the n ids with this prefix is live, there are at least n live ids -/
theorem full_of_all_live (n p : Nat) (live : List Nat)
    (h : ∀ r, r < n → p + r ∈ live) : n ≤ live.length := by
  have hnd : ((List.range n).map (p + ·)).Nodup := by
    refine List.Pairwise.map _ ?_ List.nodup_range
    intro a b hab; omega
  have hsub : ((List.range n).map (p + ·)) ⊆ live := by
    intro x hx
    simp at hx
    obtain ⟨r, hr, rfl⟩ := hx
    exact h r hr
  have := hnd.length_le_of_subset hsub
  simpa using this

/-- invariant: live ids are distinct, all carry the prefix, seq in range -/
def Inv (c : Ctl) : Prop :=
  0 < c.n ∧ c.live.Nodup ∧ c.seq < c.n ∧ ∀ id ∈ c.live, ∃ r, r < c.n ∧ id = c.prefix_ + r

theorem mkN_inv (n bits ms sid : Nat) (hn : 0 < n) : Inv (mkN n bits ms sid) := by
  refine ⟨hn, by simp [mkN], by simpa [mkN] using hn, ?_⟩
  intro id h; simp [mkN] at h

theorem mk_inv (sid : Nat) : Inv (mk sid) := mkN_inv _ _ _ _ (by decide)

theorem add_spec (c : Ctl) (h : Inv c) (id : Nat) (c' : Ctl) (ha : add c = some (id, c')) :
    Inv c' ∧ id ∉ c.live ∧ c'.live = id :: c.live ∧ c'.prefix_ = c.prefix_ ∧ c'.n = c.n := by
  obtain ⟨hn, hnd, hs, hp⟩ := h
  unfold add at ha
  split at ha
  · simp at ha
  · split at ha
    · simp at ha
    · rename_i id0 s0 hprobe
      simp at ha
      obtain ⟨rfl, rfl⟩ := ha
      obtain ⟨hnot, hs', r, hr, hid⟩ := probe_some _ hn _ _ _ _ _ _ hs hprobe
      refine ⟨⟨hn, ?_, hs', ?_⟩, hnot, rfl, rfl, rfl⟩
      · exact List.nodup_cons.mpr ⟨hnot, hnd⟩
      · intro x hx
        simp at hx
        rcases hx with rfl | hx
        · exact ⟨r, hr, hid⟩
        · exact hp x hx

/-- the skip loop never runs out of fuel: `add` fails only when the registry is full -/
theorem add_isSome_iff (c : Ctl) (h : Inv c) : (add c).isSome ↔ c.live.length < c.n := by
  obtain ⟨hn, _, hs, _⟩ := h
  unfold add
  by_cases hfull : c.live.length ≥ c.n
  · simp only [hfull, if_true]; simp; omega
  · simp only [hfull, if_false]
    have hlt : c.live.length < c.n := by omega
    simp only [hlt, iff_true]
    cases hp : probe c.n c.prefix_ c.live c.n c.seq with
    | some r => simp
    | none =>
      exfalso
      have hall := probe_none c.n hn c.prefix_ c.live c.n c.seq hs hp
      have : ∀ r, r < c.n → c.prefix_ + r ∈ c.live := by
        intro r hr
        have := hall ((r + c.n - c.seq) % c.n) (Nat.mod_lt _ hn)
        have e : (c.seq + (r + c.n - c.seq) % c.n) % c.n = r := by
          rw [Nat.add_mod_mod]
          have : c.seq + (r + c.n - c.seq) = r + c.n := by omega
          rw [this, Nat.add_mod_right, Nat.mod_eq_of_lt hr]
        rw [e] at this; exact this
      have := full_of_all_live _ _ _ this
      omega

theorem remove_inv (c : Ctl) (h : Inv c) (id : Nat) : Inv (remove c id) := by
  obtain ⟨hn, hnd, hs, hp⟩ := h
  refine ⟨hn, hnd.erase _, hs, ?_⟩
  intro x hx
  exact hp x (List.mem_of_mem_erase hx)

theorem step_inv (c : Ctl) (h : Inv c) (op : Op) : Inv (step c op) := by
  cases op with
  | add =>
    simp only [step]
    cases ha : add c with
    | none => exact h
    | some r => obtain ⟨id, c'⟩ := r; exact (add_spec c h id c' ha).1
  | remove id => exact remove_inv c h id

theorem step_frame (c : Ctl) (op : Op) : (step c op).prefix_ = c.prefix_ ∧ (step c op).n = c.n := by
  cases op with
  | add =>
    simp only [step]
    cases ha : add c with
    | none => exact ⟨rfl, rfl⟩
    | some r =>
      obtain ⟨id, c'⟩ := r
      unfold add at ha
      split at ha
      · simp at ha
      · split at ha
        · simp at ha
        · simp at ha; obtain ⟨_, rfl⟩ := ha; exact ⟨rfl, rfl⟩
  | remove id => exact ⟨rfl, rfl⟩

theorem run_inv (ops : List Op) : ∀ c, Inv c → Inv (run c ops) := by
  induction ops with
  | nil => intro c h; exact h
  | cons op ops ih => intro c h; exact ih _ (step_inv c h op)

theorem run_frame (ops : List Op) : ∀ c, (run c ops).prefix_ = c.prefix_ ∧ (run c ops).n = c.n := by
  induction ops with
  | nil => intro c; exact ⟨rfl, rfl⟩
  | cons op ops ih =>
    intro c
    simp only [run, List.foldl] at *
    obtain ⟨h1, h2⟩ := ih (step c op)
    obtain ⟨h3, h4⟩ := step_frame c op
    exact ⟨h1.trans h3, h2.trans h4⟩

/-- a state satisfying the invariant never holds more than `n` ids -/
theorem inv_length_le (c : Ctl) (h : Inv c) : c.live.length ≤ c.n := by
  have hsub : c.live ⊆ (List.range c.n).map (c.prefix_ + ·) := by
    intro x hx
    obtain ⟨r, hr, he⟩ := h.2.2.2 x hx
    simp; exact ⟨r, hr, he.symm⟩
  have := h.2.1.length_le_of_subset hsub
  simpa using this

end Mimic.Control
