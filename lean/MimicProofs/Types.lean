import Mimic.Py
import Mimic.Wire
import Mimic.Extracted.Types
import MimicProofs.Wire
/-!
The translated wire primitives of `types.py` (`Mimic.Extracted.Types`, regenerated from the source on every run) are
the hand-written model functions of `Mimic.Wire` — for every input.
-/
namespace MimicProofs.Types
open Mimic.Py Mimic.Extracted.Types

theorem le_eq (k n : Nat) : Mimic.Py.le k n = Mimic.Wire.leN k n := by
  induction k generalizing n with
  | zero => rfl
  | succ k ih => simp [Mimic.Py.le, Mimic.Wire.leN, ih]

theorem leVal_eq (b : Bytes) : Mimic.Py.leVal b = Mimic.Wire.leVal b := by
  induction b with
  | nil => rfl
  | cons x xs ih => simp [Mimic.Py.leVal, Mimic.Wire.leVal, ih]

theorem ofNat_mod (n : Nat) : UInt8.ofNat (n % 256) = UInt8.ofNat n := by
  apply UInt8.toNat_inj.mp
  simp [UInt8.toNat_ofNat']

theorem le_dropLast (k n : Nat) : (Mimic.Py.le (k + 1) n).dropLast = Mimic.Py.le k n := by
  induction k generalizing n with
  | zero => simp [Mimic.Py.le]
  | succ k ih =>
    have := ih (n / 256)
    simp only [Mimic.Py.le] at this ⊢
    rw [List.dropLast_cons_of_ne_nil (by simp)]
    rw [this]

theorem pack_int (f : Fmt) (v : Nat) (h : ∀ n, f ≠ .s n) : packOne (f, .int v) = Mimic.Py.le f.size v := by
  cases f <;> first | rfl | exact absurd rfl (h _)

/-- **`uint_len` is the model's length-encoded integer**, for every argument -/
theorem uint_len_eq (i : Nat) : uint_len i = Mimic.Wire.encLen i := by
  unfold uint_len Mimic.Wire.encLen
  split
  · simp [pack, packOne, Fmt.size, Mimic.Py.le, ofNat_mod]
  · split
    · simp [pack, packOne, Fmt.size, le_eq]
      rfl
    · split
      · have h := le_dropLast 3 i
        simp only [pack, List.map_cons, List.map_nil, List.flatten_cons, List.flatten_nil, List.append_nil, packOne, Fmt.size]
        rw [show Mimic.Py.le 1 253 = [253] from rfl]
        rw [List.singleton_append, List.dropLast_cons_of_ne_nil (by simp [Mimic.Py.le])]
        rw [h, le_eq]
      · simp [pack, packOne, Fmt.size, le_eq]
        rfl

theorem uint_1_eq (i : Nat) : uint_1 i = Mimic.Wire.leN 1 i := by simp [uint_1, pack, packOne, Fmt.size, le_eq]
theorem uint_2_eq (i : Nat) : uint_2 i = Mimic.Wire.leN 2 i := by simp [uint_2, pack, packOne, Fmt.size, le_eq]
theorem uint_4_eq (i : Nat) : uint_4 i = Mimic.Wire.leN 4 i := by simp [uint_4, pack, packOne, Fmt.size, le_eq]
theorem uint_8_eq (i : Nat) : uint_8 i = Mimic.Wire.leN 8 i := by simp [uint_8, pack, packOne, Fmt.size, le_eq]

theorem ofNat_congr (a b : Nat) (h : a % 256 = b % 256) : UInt8.ofNat a = UInt8.ofNat b := by
  rw [← ofNat_mod a, ← ofNat_mod b, h]

/-- `uint_3` (the packet header's length field) is three little-endian bytes -/
theorem uint_3_eq (i : Nat) : uint_3 i = Mimic.Wire.leN 3 i := by
  simp only [uint_3, pack, List.map_cons, List.map_nil, List.flatten_cons, List.flatten_nil, List.append_nil, packOne, Fmt.size,
    Mimic.Py.le, Mimic.Wire.leN, List.cons_append, List.nil_append]
  congr 1
  · apply ofNat_congr; omega
  · congr 1
    · apply ofNat_congr; omega
    · congr 1
      apply ofNat_congr; omega

/-- a byte string of its own length is packed unchanged -/
theorem packS_self (s : Bytes) : packOne (.s s.length, .bytes s) = s := by
  simp [packOne]

theorem str_fixed_self (s : Bytes) : str_fixed s.length s = s := by
  simp [str_fixed, pack, packS_self]

/-- **`str_len` is the model's length-encoded string** -/
theorem str_len_eq (s : Bytes) : str_len s = Mimic.Wire.encStr s := by
  unfold str_len Mimic.Wire.encStr
  simp only [uint_len_eq, str_fixed_self]

theorem str_rest_eq (s : Bytes) : str_rest s = s := by simp [str_rest, str_fixed_self]

theorem str_null_eq (s : Bytes) : str_null s = s ++ [0] := by
  simp [str_null, pack, packS_self, packOne, Fmt.size, Mimic.Py.le]

/-! ### readers -/

theorem unpack_one_unsigned (f : Fmt) (hf : f = .B ∨ f = .H ∨ f = .I ∨ f = .L ∨ f = .Q) (data : Bytes) :
    Mimic.Py.unpack [f] data = if data.length = f.size then some [(Mimic.Wire.leVal data : Int)] else none := by
  unfold Mimic.Py.unpack
  by_cases hlt : data.length < f.size
  · rw [if_pos hlt, if_neg (by omega)]
  · simp only [hlt, if_false]
    by_cases heq : data.length = f.size
    · have hd : data.drop f.size = [] := List.drop_of_length_le (by omega)
      have ht : data.take f.size = data := List.take_of_length_le (by omega)
      rw [hd, ht]
      simp only [Mimic.Py.unpack, heq, if_true, leVal_eq]
      rcases hf with h | h | h | h | h <;> subst h <;> rfl
    · have : f.size < data.length := by omega
      have hne : data.drop f.size ≠ [] := by
        intro h; have := congrArg List.length h; simp at this; omega
      cases hd : data.drop f.size with
      | nil => exact absurd hd hne
      | cons x xs => simp [Mimic.Py.unpack, heq]

theorem take_length_eq (k : Nat) (r : Bytes) : (r.take k).length = k ↔ k ≤ r.length := by
  rw [List.length_take]; omega

/-- the fixed-width unsigned readers are the model's `readUInt` -/
theorem read_uint_1_eq (r : Bytes) : read_uint_1 r = Mimic.Wire.readUInt 1 r := by
  simp only [read_uint_1, Mimic.Py.read, unpack_one_unsigned .B (Or.inl rfl), Fmt.size, take_length_eq, Mimic.Wire.readUInt, Mimic.Wire.takeN]
  by_cases h : 1 ≤ r.length <;> simp [h]

theorem read_uint_2_eq (r : Bytes) : read_uint_2 r = Mimic.Wire.readUInt 2 r := by
  simp only [read_uint_2, Mimic.Py.read, unpack_one_unsigned .H (Or.inr (Or.inl rfl)), Fmt.size, take_length_eq, Mimic.Wire.readUInt, Mimic.Wire.takeN]
  by_cases h : 2 ≤ r.length <;> simp [h]

theorem read_uint_4_eq (r : Bytes) : read_uint_4 r = Mimic.Wire.readUInt 4 r := by
  simp only [read_uint_4, Mimic.Py.read, unpack_one_unsigned .I (Or.inr (Or.inr (Or.inl rfl))), Fmt.size, take_length_eq, Mimic.Wire.readUInt, Mimic.Wire.takeN]
  by_cases h : 4 ≤ r.length <;> simp [h]

theorem read_uint_8_eq (r : Bytes) : read_uint_8 r = Mimic.Wire.readUInt 8 r := by
  simp only [read_uint_8, Mimic.Py.read, unpack_one_unsigned .Q (Or.inr (Or.inr (Or.inr (Or.inr rfl)))), Fmt.size, take_length_eq, Mimic.Wire.readUInt, Mimic.Wire.takeN]
  by_cases h : 8 ≤ r.length <;> simp [h]

theorem leVal_append (a b : Bytes) : Mimic.Wire.leVal (a ++ b) = Mimic.Wire.leVal a + 256 ^ a.length * Mimic.Wire.leVal b := by
  induction a with
  | nil => simp [Mimic.Wire.leVal]
  | cons x xs ih =>
    simp only [List.cons_append, Mimic.Wire.leVal, ih, List.length_cons, Nat.pow_succ]
    rw [Nat.mul_add, Nat.add_assoc, Nat.mul_comm (256 ^ xs.length) 256, Nat.mul_assoc]

theorem unpack_two_unsigned (f g : Fmt) (hf : f = .B ∨ f = .H ∨ f = .I ∨ f = .L ∨ f = .Q) (hg : g = .B ∨ g = .H ∨ g = .I ∨ g = .L ∨ g = .Q)
    (data : Bytes) :
    Mimic.Py.unpack [f, g] data =
      if data.length = f.size + g.size then some [(Mimic.Wire.leVal (data.take f.size) : Int), (Mimic.Wire.leVal (data.drop f.size) : Int)] else none := by
  rw [Mimic.Py.unpack]
  by_cases hlt : data.length < f.size
  · rw [if_pos hlt, if_neg (by omega)]
  · rw [if_neg hlt, unpack_one_unsigned g hg]
    have hl : (data.drop f.size).length = data.length - f.size := by simp
    by_cases heq : data.length = f.size + g.size
    · rw [if_pos (by omega), if_pos heq]
      simp only [leVal_eq]
      rcases hf with h | h | h | h | h <;> subst h <;> rfl
    · rw [if_neg (by omega), if_neg heq]

/-- `read_uint_3` (packet header length) is the model's 3-byte little-endian reader -/
theorem read_uint_3_eq (r : Bytes) : read_uint_3 r = Mimic.Wire.readUInt 3 r := by
  simp only [read_uint_3, Mimic.Py.read, unpack_two_unsigned .H .B (Or.inr (Or.inl rfl)) (Or.inl rfl), Fmt.size,
    Mimic.Wire.readUInt, Mimic.Wire.takeN]
  by_cases h : 3 ≤ r.length
  · have hl : (r.take 3).length = 2 + 1 := by rw [List.length_take]; omega
    simp only [hl, if_true, h]
    have hsplit : r.take 3 = (r.take 3).take 2 ++ (r.take 3).drop 2 := (List.take_append_drop 2 _).symm
    have h2 : ((r.take 3).take 2).length = 2 := by rw [List.length_take, List.length_take]; omega
    have := leVal_append ((r.take 3).take 2) ((r.take 3).drop 2)
    rw [← hsplit, h2] at this
    simp only [List.getD_cons_zero, List.getD_cons_succ, Int.toNat_natCast]
    simp [this, Nat.mul_comm]
  · have hm : ¬ (min 3 r.length = 3) := by omega
    simp [hm, h]

/-- **`read_uint_len` is the model's length-encoded integer reader**, for every input -/
theorem read_uint_len_eq (r : Bytes) : read_uint_len r = Mimic.Wire.decLen r := by
  unfold read_uint_len
  rw [read_uint_1_eq]
  cases r with
  | nil => simp [Mimic.Wire.readUInt, Mimic.Wire.takeN, Mimic.Wire.decLen]
  | cons b rest =>
    have h1 : Mimic.Wire.readUInt 1 (b :: rest) = some (b.toNat, rest) := by
      simp [Mimic.Wire.readUInt, Mimic.Wire.takeN, Mimic.Wire.leVal]
    rw [h1]
    simp only [read_uint_8_eq, read_uint_3_eq, read_uint_2_eq, Mimic.Wire.decLen]
    have e1 : (b.toNat = 254) ↔ (b = 0xFE) := by
      constructor
      · intro h; apply UInt8.toNat_inj.mp; simpa using h
      · intro h; subst h; rfl
    have e2 : (b.toNat = 253) ↔ (b = 0xFD) := by
      constructor
      · intro h; apply UInt8.toNat_inj.mp; simpa using h
      · intro h; subst h; rfl
    have e3 : (b.toNat = 252) ↔ (b = 0xFC) := by
      constructor
      · intro h; apply UInt8.toNat_inj.mp; simpa using h
      · intro h; subst h; rfl
    by_cases a1 : b = 0xFE
    · simp [a1]
    · by_cases a2 : b = 0xFD
      · simp [a2]
      · by_cases a3 : b = 0xFC
        · simp [a3]
        · have n1 : ¬ b.toNat = 254 := fun h => a1 (e1.mp h)
          have n2 : ¬ b.toNat = 253 := fun h => a2 (e2.mp h)
          have n3 : ¬ b.toNat = 252 := fun h => a3 (e3.mp h)
          simp [a1, a2, a3, n1, n2, n3]

/-- `read_str_len` is the model's length-encoded string reader — unconditionally: a length that does not fit a C
    `ssize_t` makes `BytesIO.read` raise (`Mimic.Py.readN`), which the model records as `none` too -/
theorem read_str_len_eq (r : Bytes) : read_str_len r = Mimic.Wire.decStr r := by
  unfold read_str_len Mimic.Wire.decStr
  rw [read_uint_len_eq]
  cases hd : Mimic.Wire.decLen r with
  | none => rfl
  | some p =>
    obtain ⟨n, r'⟩ := p
    simp only [read_str_fixed, Mimic.Py.readN]

/-- **code-level round trip**: what the translated `uint_len` / `str_len` write, the translated readers read back -/
theorem code_lenenc_roundtrip (n : Nat) (h : n < 2 ^ 64) (rest : Bytes) : read_uint_len (uint_len n ++ rest) = some (n, rest) := by
  rw [read_uint_len_eq, uint_len_eq]; exact Mimic.Wire.decLen_encLen n h rest

theorem code_str_roundtrip (s rest : Bytes) (h : s.length < 2 ^ 63) : read_str_len (str_len s ++ rest) = some (s, rest) := by
  rw [str_len_eq]
  rw [read_str_len_eq]
  exact (Mimic.Wire.decStr_encStr s h rest).1

/-! ### signed readers -/

theorem toSigned_eq (k n : Nat) : Mimic.Py.toSigned k n = Mimic.Wire.toSigned k n := rfl

theorem unpack_one_signed (f : Fmt) (hf : f = .b ∨ f = .h ∨ f = .i ∨ f = .q) (data : Bytes) :
    Mimic.Py.unpack [f] data = if data.length = f.size then some [Mimic.Wire.toSigned f.size (Mimic.Wire.leVal data)] else none := by
  unfold Mimic.Py.unpack
  by_cases hlt : data.length < f.size
  · rw [if_pos hlt, if_neg (by omega)]
  · simp only [hlt, if_false]
    by_cases heq : data.length = f.size
    · have hd : data.drop f.size = [] := List.drop_of_length_le (by omega)
      have ht : data.take f.size = data := List.take_of_length_le (by omega)
      rw [hd, ht]
      simp only [Mimic.Py.unpack, heq, if_true, leVal_eq]
      rcases hf with h | h | h | h <;> subst h <;> rfl
    · have : f.size < data.length := by omega
      have hne : data.drop f.size ≠ [] := by
        intro h; have := congrArg List.length h; simp at this; omega
      cases hd : data.drop f.size with
      | nil => exact absurd hd hne
      | cons x xs => simp [Mimic.Py.unpack, heq]

/-- the fixed-width signed readers are the model's `readSInt` -/
theorem read_int_1_eq (r : Bytes) : read_int_1 r = Mimic.Wire.readSInt 1 r := by
  simp only [read_int_1, Mimic.Py.read, unpack_one_signed .b (Or.inl rfl), Fmt.size, take_length_eq, Mimic.Wire.readSInt, Mimic.Wire.readUInt, Mimic.Wire.takeN]
  by_cases h : 1 ≤ r.length <;> simp [h]

theorem read_int_2_eq (r : Bytes) : read_int_2 r = Mimic.Wire.readSInt 2 r := by
  simp only [read_int_2, Mimic.Py.read, unpack_one_signed .h (Or.inr (Or.inl rfl)), Fmt.size, take_length_eq, Mimic.Wire.readSInt, Mimic.Wire.readUInt, Mimic.Wire.takeN]
  by_cases h : 2 ≤ r.length <;> simp [h]

theorem read_int_4_eq (r : Bytes) : read_int_4 r = Mimic.Wire.readSInt 4 r := by
  simp only [read_int_4, Mimic.Py.read, unpack_one_signed .i (Or.inr (Or.inr (Or.inl rfl))), Fmt.size, take_length_eq, Mimic.Wire.readSInt, Mimic.Wire.readUInt, Mimic.Wire.takeN]
  by_cases h : 4 ≤ r.length <;> simp [h]

theorem read_int_8_eq (r : Bytes) : read_int_8 r = Mimic.Wire.readSInt 8 r := by
  simp only [read_int_8, Mimic.Py.read, unpack_one_signed .q (Or.inr (Or.inr (Or.inr rfl))), Fmt.size, take_length_eq, Mimic.Wire.readSInt, Mimic.Wire.readUInt, Mimic.Wire.takeN]
  by_cases h : 8 ≤ r.length <;> simp [h]

end MimicProofs.Types
