import MimicProofs.Monotone
/-!
**The negotiated capabilities and the status flags are constants of the command phase.**  No translated handler, and therefore
no iteration and no conversation, changes `capabilities` or `status_flags` of the connection — whatever the packets, the
application and the row sources do, and whether handlers return or raise.  Every response shape of C03 (EOF or OK terminator,
metadata EOF or not) is a function of these two, so a whole conversation is answered under the capabilities of the handshake.
-/
namespace MimicProofs.Frame
open Mimic.Py Mimic.Extracted.HandlersCode MimicProofs.HandlersCode MimicProofs.CommandLoop
open Mimic.Extracted.ParsersCode (ComQuery ComFieldList ComStmtFetch ComStmtReset ComStmtClose ComStmtSendLongData parse_handle_stmt_fetch parse_com_stmt_reset parse_com_stmt_close parse_com_stmt_send_long_data)

variable {S : Type} [DecidableEq S]

def Same (c s : Connection S) : Prop := s.capabilities = c.capabilities ∧ s.status_flags = c.status_flags

/-- the result of a handler started from `c` (returned or raised) has `c`'s capabilities and status flags -/
def Keeps (c : Connection S) : Except (Connection S) (Connection S) → Prop
  | .ok s => Same c s
  | .error s => Same c s

omit [DecidableEq S] in
theorem same_refl (c : Connection S) : Same c c := ⟨rfl, rfl⟩
omit [DecidableEq S] in
theorem same_trans {a b c : Connection S} (h1 : Same a b) (h2 : Same b c) : Same a c := ⟨h2.1.trans h1.1, h2.2.trans h1.2⟩

omit [DecidableEq S] in
theorem keeps_of_spec (row : Bytes → Nat) (c : Connection S) (res : Except (Connection S) (Connection S)) (m : Mimic.Cursor.Reg × Mimic.Cursor.Out)
    (h : Spec row c res m) : Keeps c res := by
  unfold Spec at h
  cases res with
  | ok c' =>
    cases hm : m.2 with
    | rows rs fl => rw [hm] at h; exact ⟨h.2.1, h.2.2.1⟩
    | ok => rw [hm] at h; exact ⟨h.2.1, h.2.2.1⟩
    | none => rw [hm] at h; exact ⟨h.2.1, h.2.2.1⟩
    | _ => rw [hm] at h; exact h.elim
  | error c' =>
    cases hm : m.2 with
    | rowsErr rs => rw [hm] at h; exact ⟨h.2.1, h.2.2.1⟩
    | err => rw [hm] at h; obtain ⟨he, _⟩ := h; subst he; exact same_refl _
    | _ => rw [hm] at h; exact h.elim

theorem fetch_keeps (c : Connection S) (data : Bytes) : Keeps c (handle_stmt_fetch c data) := by
  cases hp : parse_handle_stmt_fetch (S := S) data with
  | none => rw [(malformed_changes_nothing c data).1 hp]; exact same_refl c
  | some f => exact keeps_of_spec (fun _ => 0) c _ _ (handle_stmt_fetch_refines (fun _ => 0) c data f 0 hp)

theorem reset_keeps (c : Connection S) (data : Bytes) : Keeps c (handle_stmt_reset c data) := by
  cases hp : parse_com_stmt_reset (S := S) data with
  | none => rw [(malformed_changes_nothing c data).2.1 hp]; exact same_refl c
  | some f => exact keeps_of_spec (fun _ => 0) c _ _ (handle_stmt_reset_refines (fun _ => 0) c data f 0 hp)

theorem close_keeps (c : Connection S) (data : Bytes) : Keeps c (handle_stmt_close c data) := by
  cases hp : parse_com_stmt_close (S := S) data with
  | none => rw [(malformed_changes_nothing c data).2.2.1 hp]; exact same_refl c
  | some f => exact keeps_of_spec (fun _ => 0) c _ _ (handle_stmt_close_refines (fun _ => 0) c data f 0 hp)

theorem send_long_data_keeps (c : Connection S) (data : Bytes) : Keeps c (handle_stmt_send_long_data c data) := by
  cases hp : parse_com_stmt_send_long_data (S := S) data with
  | none => rw [(malformed_changes_nothing c data).2.2.2 hp]; exact same_refl c
  | some f =>
    have h := handle_stmt_send_long_data_spec c data f hp
    cases hg : dictGet c.prepared_stmts f.stmt_id with
    | none => rw [hg] at h; dsimp only at h; rw [h]; exact same_refl c
    | some stmt =>
      rw [hg] at h; dsimp only at h
      obtain ⟨c', _, hr, _, hc, hs, _⟩ := h
      rw [hr]; exact ⟨hc, hs⟩

theorem simple_keeps (c : Connection S) (data : Bytes) :
    Keeps c (handle_ping c data) ∧ Keeps c (handle_reset_connection c data) ∧ Keeps c (handle_debug c data) := by
  obtain ⟨⟨_, _, _, _, _, h1⟩, ⟨_, _, _, _, _, h2⟩, ⟨_, _, _, _, _, h3⟩⟩ := simple_handlers_spec c data
  refine ⟨?_, ?_, ?_⟩
  · rw [h1]; exact ⟨rfl, rfl⟩
  · rw [h2]; exact ⟨rfl, rfl⟩
  · rw [h3]; exact ⟨rfl, rfl⟩

theorem prepare_keeps (E : Env S) (cp : S → Nat) (pc : Nat → Bytes) (c : Connection S) (data : Bytes) :
    Keeps c (handle_stmt_prepare E cp pc c data) := by
  have h := handle_stmt_prepare_spec E cp pc c data
  cases hd : E.decode c.client_charset data with
  | none => rw [hd] at h; dsimp only at h; rw [h]; exact same_refl c
  | some sql =>
    rw [hd] at h; dsimp only at h
    obtain ⟨c', w, f, hr, _, _, hc, hs, _⟩ := h
    rw [hr]; exact ⟨hc, hs⟩

theorem init_db_keeps (E : Env S) (ur : S → Bool) (c : Connection S) (data : Bytes) : Keeps c (handle_init_db E ur c data) := by
  have h := handle_init_db_spec E ur c data
  cases hp : Mimic.Extracted.ParsersCode.parse_com_init_db E c.client_charset data with
  | none => rw [hp] at h; dsimp only at h; rw [h]; exact same_refl c
  | some db =>
    rw [hp] at h; dsimp only at h
    by_cases hu : ur db = true
    · rw [if_pos hu] at h; rw [h]; exact ⟨rfl, rfl⟩
    · rw [if_neg hu] at h; obtain ⟨_, _, _, _, _, h⟩ := h; rw [h]; exact ⟨rfl, rfl⟩

theorem field_list_keeps (E : Env S) (app : S → Option (ResultSet S)) (fls : ComFieldList S → S) (fcd : Nat → S → Bytes → Bytes)
    (c : Connection S) (data : Bytes) : Keeps c (handle_field_list E app fls fcd c data) := by
  have h := handle_field_list_spec E app fls fcd c data
  cases hp : Mimic.Extracted.ParsersCode.parse_com_field_list E c.client_charset data with
  | none => rw [hp] at h; dsimp only at h; rw [h]; exact same_refl c
  | some f =>
    rw [hp] at h; dsimp only at h
    cases ha : app (fls f) with
    | none => rw [ha] at h; dsimp only at h; rw [h]; exact same_refl c
    | some rs =>
      rw [ha] at h; dsimp only at h
      obtain ⟨_, _, _, _, h⟩ := h
      rw [h]
      by_cases hb : rs.rows.boom = true
      · rw [if_pos hb]; exact ⟨rfl, rfl⟩
      · rw [if_neg hb]; exact ⟨rfl, rfl⟩

theorem query_keeps (E : Env S) (coldef : Nat → Nat → Bytes) (app : S → Option (ResultSet S)) (c : Connection S) (data : Bytes) :
    Keeps c (handle_query E coldef app c data) := by
  have h := handle_query_spec E coldef app c data
  cases hp : Mimic.Extracted.ParsersCode.parse_com_query E c.capabilities c.client_charset data with
  | none => rw [hp] at h; dsimp only at h; rw [h]; exact same_refl c
  | some q =>
    rw [hp] at h; dsimp only at h
    cases ha : app q.sql with
    | none => rw [ha] at h; dsimp only at h; rw [h]; exact same_refl c
    | some rs =>
      rw [ha] at h; dsimp only at h
      by_cases he : rs.columns.isEmpty = true
      · rw [if_pos he] at h; obtain ⟨_, _, _, _, _, h⟩ := h; rw [h]; exact ⟨rfl, rfl⟩
      · rw [if_neg he] at h; obtain ⟨_, _, _, _, _, h⟩ := h
        rw [h]
        by_cases hb : rs.rows.boom = true
        · rw [if_pos hb]; exact ⟨rfl, rfl⟩
        · rw [if_neg hb]; exact ⟨rfl, rfl⟩

theorem execute_keeps (coldef : Nat → Nat → Bytes) (parse : Connection S → Bytes → Option (ComStmtExecute S))
    (app : S → Option (ResultSet S)) (c : Connection S) (data : Bytes) : Keeps c (handle_stmt_execute coldef parse app c data) := by
  have h := handle_stmt_execute_spec coldef parse app c data
  cases hp : parse c data with
  | none => rw [hp] at h; dsimp only at h; rw [h]; exact same_refl c
  | some x =>
    rw [hp] at h; dsimp only at h
    cases ha : app x.sql with
    | none => rw [ha] at h; dsimp only at h; rw [h]; exact ⟨rfl, rfl⟩
    | some rs =>
      rw [ha] at h; dsimp only at h
      by_cases he : rs.columns.isEmpty = true
      · rw [if_pos he] at h; obtain ⟨_, _, _, _, _, h⟩ := h; rw [h]; exact ⟨rfl, rfl⟩
      · rw [if_neg he] at h
        by_cases hc : x.use_cursor = true
        · rw [if_pos hc] at h; obtain ⟨_, _, _, h⟩ := h; rw [h]; exact ⟨rfl, rfl⟩
        · rw [if_neg hc] at h; obtain ⟨_, _, _, _, _, _, h⟩ := h
          rw [h]
          by_cases hb : rs.rows.boom = true
          · rw [if_pos hb]; exact ⟨rfl, rfl⟩
          · rw [if_neg hb]; exact ⟨rfl, rfl⟩

/-! ### commands that name no statement leave every statement and cursor as it was -/

/-- the prepared-statement registry of the result (returned or raised) is the one the handler started with -/
def KeepsStmts (c : Connection S) : Except (Connection S) (Connection S) → Prop
  | .ok s => s.prepared_stmts = c.prepared_stmts
  | .error s => s.prepared_stmts = c.prepared_stmts

theorem query_keeps_stmts (E : Env S) (coldef : Nat → Nat → Bytes) (app : S → Option (ResultSet S)) (c : Connection S) (data : Bytes) :
    KeepsStmts c (handle_query E coldef app c data) := by
  have h := handle_query_spec E coldef app c data
  cases hp : Mimic.Extracted.ParsersCode.parse_com_query E c.capabilities c.client_charset data with
  | none => rw [hp] at h; dsimp only at h; rw [h]; exact rfl
  | some q =>
    rw [hp] at h; dsimp only at h
    cases ha : app q.sql with
    | none => rw [ha] at h; dsimp only at h; rw [h]; exact rfl
    | some rs =>
      rw [ha] at h; dsimp only at h
      by_cases he : rs.columns.isEmpty = true
      · rw [if_pos he] at h; obtain ⟨_, _, _, _, _, h⟩ := h; rw [h]; exact rfl
      · rw [if_neg he] at h; obtain ⟨_, _, _, _, _, h⟩ := h
        rw [h]
        by_cases hb : rs.rows.boom = true
        · rw [if_pos hb]; exact rfl
        · rw [if_neg hb]; exact rfl

theorem init_db_keeps_stmts (E : Env S) (ur : S → Bool) (c : Connection S) (data : Bytes) : KeepsStmts c (handle_init_db E ur c data) := by
  have h := handle_init_db_spec E ur c data
  cases hp : Mimic.Extracted.ParsersCode.parse_com_init_db E c.client_charset data with
  | none => rw [hp] at h; dsimp only at h; rw [h]; exact rfl
  | some db =>
    rw [hp] at h; dsimp only at h
    by_cases hu : ur db = true
    · rw [if_pos hu] at h; rw [h]; exact rfl
    · rw [if_neg hu] at h; obtain ⟨_, _, _, _, _, h⟩ := h; rw [h]; exact rfl

theorem field_list_keeps_stmts (E : Env S) (app : S → Option (ResultSet S)) (fls : ComFieldList S → S) (fcd : Nat → S → Bytes → Bytes)
    (c : Connection S) (data : Bytes) : KeepsStmts c (handle_field_list E app fls fcd c data) := by
  have h := handle_field_list_spec E app fls fcd c data
  cases hp : Mimic.Extracted.ParsersCode.parse_com_field_list E c.client_charset data with
  | none => rw [hp] at h; dsimp only at h; rw [h]; exact rfl
  | some f =>
    rw [hp] at h; dsimp only at h
    cases ha : app (fls f) with
    | none => rw [ha] at h; dsimp only at h; rw [h]; exact rfl
    | some rs =>
      rw [ha] at h; dsimp only at h
      obtain ⟨_, _, _, _, h⟩ := h
      rw [h]
      by_cases hb : rs.rows.boom = true
      · rw [if_pos hb]; exact rfl
      · rw [if_neg hb]; exact rfl

theorem ping_debug_keep_stmts (c : Connection S) (data : Bytes) :
    KeepsStmts c (handle_ping c data) ∧ KeepsStmts c (handle_debug c data) := by
  obtain ⟨⟨_, _, _, _, _, h1⟩, _, ⟨_, _, _, _, _, h3⟩⟩ := simple_handlers_spec c data
  exact ⟨by rw [h1]; exact rfl, by rw [h3]; exact rfl⟩


section loop
variable (E : Env S) (cp : S → Nat) (pc : Nat → Bytes) (coldef : Nat → Nat → Bytes)
  (parse : Connection S → Bytes → Option (ComStmtExecute S)) (app : S → Option (ResultSet S))
  (ur : S → Bool) (fls : ComFieldList S → S) (fcd : Nat → S → Bytes → Bytes)
  (other : Nat → Connection S → Bytes → Except (Connection S) (Connection S)) (err : Connection S → Bytes)
  (af : Nat → Connection S → Bytes → Option (Connection S))

def DKeeps (c : Connection S) : Except (Connection S) (Option (Connection S)) → Prop
  | .ok (some s) => Same c s
  | .ok none => True
  | .error s => Same c s

omit [DecidableEq S] in
theorem dkeeps_map (c : Connection S) (r : Except (Connection S) (Connection S)) (h : Keeps c r) : DKeeps c (r.map some) := by
  cases r <;> exact h

theorem dispatch_keeps (hother : ∀ k c d, Keeps c (other k c d)) (c : Connection S) (command : Nat) (rest : Bytes) :
    DKeeps c (dispatch E cp pc coldef parse app ur fls fcd other c command rest) := by
  unfold dispatch
  by_cases c3 : (command == 3) = true
  · simp only [c3, if_true]; exact dkeeps_map c _ (query_keeps E coldef app c rest)
  simp only [c3, Bool.false_eq_true, if_false]
  by_cases c22 : (command == 22) = true
  · simp only [c22, if_true]; exact dkeeps_map c _ (prepare_keeps E cp pc c rest)
  simp only [c22, Bool.false_eq_true, if_false]
  by_cases c24 : (command == 24) = true
  · simp only [c24, if_true]; exact dkeeps_map c _ (send_long_data_keeps c rest)
  simp only [c24, Bool.false_eq_true, if_false]
  by_cases c23 : (command == 23) = true
  · simp only [c23, if_true]; exact dkeeps_map c _ (execute_keeps coldef parse app c rest)
  simp only [c23, Bool.false_eq_true, if_false]
  by_cases c28 : (command == 28) = true
  · simp only [c28, if_true]; exact dkeeps_map c _ (fetch_keeps c rest)
  simp only [c28, Bool.false_eq_true, if_false]
  by_cases c26 : (command == 26) = true
  · simp only [c26, if_true]; exact dkeeps_map c _ (reset_keeps c rest)
  simp only [c26, Bool.false_eq_true, if_false]
  by_cases c25 : (command == 25) = true
  · simp only [c25, if_true]; exact dkeeps_map c _ (close_keeps c rest)
  simp only [c25, Bool.false_eq_true, if_false]
  by_cases c14 : (command == 14) = true
  · simp only [c14, if_true]; exact dkeeps_map c _ ((simple_keeps c rest).1)
  simp only [c14, Bool.false_eq_true, if_false]
  by_cases c17 : (command == 17) = true
  · simp only [c17, if_true]; exact dkeeps_map c _ (hother 17 c rest)
  simp only [c17, Bool.false_eq_true, if_false]
  by_cases c31 : (command == 31) = true
  · simp only [c31, if_true]; exact dkeeps_map c _ ((simple_keeps c rest).2.1)
  simp only [c31, Bool.false_eq_true, if_false]
  by_cases c13 : (command == 13) = true
  · simp only [c13, if_true]; exact dkeeps_map c _ ((simple_keeps c rest).2.2)
  simp only [c13, Bool.false_eq_true, if_false]
  by_cases c1 : (command == 1) = true
  · simp only [c1, if_true]; exact True.intro
  simp only [c1, Bool.false_eq_true, if_false]
  by_cases c2 : (command == 2) = true
  · simp only [c2, if_true]; exact dkeeps_map c _ (init_db_keeps E ur c rest)
  simp only [c2, Bool.false_eq_true, if_false]
  by_cases c4 : (command == 4) = true
  · simp only [c4, if_true]; exact dkeeps_map c _ (field_list_keeps E app fls fcd c rest)
  simp only [c4, Bool.false_eq_true, if_false]
  exact same_refl _

/-- one iteration keeps capabilities and status flags -/
theorem step_keeps (hother : ∀ k c d, Keeps c (other k c d)) (haf : ∀ k c d s, af k c d = some s → Same c s) (c : Connection S) (data : Bytes) :
    Same c (command_step E cp pc coldef parse app ur fls fcd other err af c data).1 := by
  have h := command_step_spec E cp pc coldef parse app ur fls fcd other err af c data
  dsimp only at h
  cases ha : authEnded af c data with
  | some s =>
    rw [ha] at h; dsimp only at h; rw [h]
    have hs : Same ({ c with _executing := true } : Connection S) s := by
      cases data with
      | nil => simp [authEnded] at ha
      | cons command rest =>
        simp only [authEnded] at ha
        by_cases hu : untranslated.contains command.toNat = true
        · rw [if_pos hu] at ha; exact haf _ _ _ _ ha
        · rw [if_neg hu] at ha; cases ha
    exact ⟨hs.1, hs.2⟩
  | none =>
    rw [ha] at h; dsimp only at h
    cases data with
    | nil => dsimp only at h; rw [h]; exact ⟨rfl, rfl⟩
    | cons command rest =>
      dsimp only at h
      have hd := dispatch_keeps E cp pc coldef parse app ur fls fcd other hother ({ c with _executing := true } : Connection S) command.toNat rest
      cases hx : dispatch E cp pc coldef parse app ur fls fcd other ({ c with _executing := true } : Connection S) command.toNat rest with
      | error s => rw [hx] at h hd; dsimp only at h; rw [h]; exact ⟨hd.1, hd.2⟩
      | ok o =>
        cases o with
        | none => rw [hx] at h; dsimp only at h; rw [h]; exact ⟨rfl, rfl⟩
        | some s => rw [hx] at h hd; dsimp only at h; rw [h]; exact ⟨hd.1, hd.2⟩

/-- **a whole conversation keeps them**: every command of every conversation is answered under the capabilities and status
    flags the command phase started with -/
theorem loop_keeps (hother : ∀ k c d, Keeps c (other k c d)) (haf : ∀ k c d s, af k c d = some s → Same c s) (c : Connection S) (ps : List Bytes) :
    Same c (command_loop E cp pc coldef parse app ur fls fcd other err af c ps).1 := by
  induction ps generalizing c with
  | nil => exact same_refl _
  | cons p ps ih =>
    rw [loop_cons]
    have hs := step_keeps E cp pc coldef parse app ur fls fcd other err af hother haf c p
    by_cases hg : (command_step E cp pc coldef parse app ur fls fcd other err af c p).2 = true
    · simp only [hg, if_true]; exact same_trans hs (ih _)
    · simp only [hg]; exact hs

/-- in particular the terminator convention (EOF packets or OK-as-EOF) never changes during a conversation -/
theorem loop_deprecate_eof (hother : ∀ k c d, Keeps c (other k c d)) (haf : ∀ k c d s, af k c d = some s → Same c s) (c : Connection S) (ps : List Bytes) :
    deprecate_eof (command_loop E cp pc coldef parse app ur fls fcd other err af c ps).1 = deprecate_eof c := by
  unfold deprecate_eof
  rw [(loop_keeps E cp pc coldef parse app ur fls fcd other err af hother haf c ps).1]

end loop
end MimicProofs.Frame
