import Mimic.Control
import Mimic.Extracted.ControlCode
import MimicProofs.Control
/-!
`LocalControl` of `control.py` and `seq` of `utils.py` as translated by `harness/pytrans2.py`
(`Mimic.Extracted.ControlCode`, regenerated from the source on every run) refine the hand-written model `Mimic.Control`
along every history of arrivals and departures: the abstraction maps the object state to the model state (registry keys
newest first, next sequence value, id prefix).
-/
set_option linter.unusedSimpArgs false
set_option linter.unusedVariables false
namespace MimicProofs.ControlCode
open Mimic.Py Mimic.Extracted.ControlCode
open Mimic.Control (Ctl probe)

abbrev LC := LocalControl Unit

def keys (s : LC) : List Nat := s._connections.map Prod.fst

/-- the abstraction: the registry's keys (newest first), the next sequence value, the id prefix -/
def abs (s : LC) : Ctl :=
  { n := s._MAX_CONNECTION_SEQ, prefix_ := (s.server_id % s._MAX_SERVER_ID) * 2 ^ s._CONNECTION_ID_BITS,
    seq := s._connection_seq.value, live := (keys s).reverse }

def WF (s : LC) : Prop := s._connection_seq.size = some s._MAX_CONNECTION_SEQ

theorem seq_next_eq (q : seq Unit) (n : Nat) (h : q.size = some n) :
    seq_next q = (q.value, { q with value := (q.value + 1) % n }) := by
  unfold seq_next
  simp only [h]
  by_cases hn : n = 0
  · subst hn; simp
  · have : (n != 0) = true := by simpa using hn
    simp [this]

theorem dictGet_isSome {ν : Type} (d : List (Nat × ν)) (k : Nat) : (Mimic.Py.dictGet d k).isSome = decide (k ∈ d.map Prod.fst) := by
  induction d with
  | nil => simp [Mimic.Py.dictGet]
  | cons a as ih =>
    simp only [Mimic.Py.dictGet, List.find?_cons, List.map_cons, List.mem_cons] at ih ⊢
    by_cases h : a.1 = k
    · simp [h]
    · have h' : ¬ k = a.1 := fun e => h e.symm
      simp [h, h', ih]

/-- the collision-avoidance loop is the model's `probe`: candidate `p + s`, sequence already advanced to `(s+1) % n` -/
theorem loop_probe (s0 : LC) (hw : WF s0) (p : Nat) :
    ∀ (fuel sq : Nat),
      Mimic.Py.loopM fuel (({ s0 with _connection_seq := { s0._connection_seq with value := (sq + 1) % s0._MAX_CONNECTION_SEQ } } : LC), p + sq)
          (LocalControl__new_connection_id_loop1 p)
        = match probe s0._MAX_CONNECTION_SEQ p (keys s0).reverse fuel sq with
          | none => none
          | some (id, sq') => some (some (Step.brk (({ s0 with _connection_seq := { s0._connection_seq with value := sq' } } : LC), id))) := by
  intro fuel
  induction fuel with
  | zero => intro sq; simp [Mimic.Py.loopM, probe]
  | succ f ih =>
    intro sq
    simp only [Mimic.Py.loopM, LocalControl__new_connection_id_loop1, probe, dictGet_isSome, List.mem_reverse]
    by_cases hm : (p + sq) ∈ keys s0
    · have hm' : (p + sq) ∈ List.map Prod.fst s0._connections := hm
      simp only [hm, hm', decide_true, if_true]
      rw [seq_next_eq _ s0._MAX_CONNECTION_SEQ (by simpa [WF] using hw)]
      simp only
      exact ih ((sq + 1) % s0._MAX_CONNECTION_SEQ)
    · have hm' : ¬ (p + sq) ∈ List.map Prod.fst s0._connections := hm
      simp [hm, hm']

theorem dictSet_fresh {ν : Type} (d : List (Nat × ν)) (k : Nat) (v : ν) (h : k ∉ d.map Prod.fst) :
    Mimic.Py.dictSet d k v = d ++ [(k, v)] := by
  unfold Mimic.Py.dictSet
  have : (d.any fun x => decide (x.1 = k)) = false := by
    simp only [List.any_eq_false, decide_eq_true_eq]
    intro x hx e
    exact h (List.mem_map.mpr ⟨x, hx, e⟩)
  simp [this]

theorem probe_fresh (n p : Nat) (live : List Nat) : ∀ f s id s', probe n p live f s = some (id, s') → id ∉ live := by
  intro f
  induction f with
  | zero => intro s id s' h; simp [probe] at h
  | succ f ih =>
    intro s id s' h
    unfold probe at h
    split at h
    · exact ih _ _ _ h
    · rename_i hnm
      simp at h
      rw [← h.1]; exact hnm

theorem shiftLeft_mul (a b : Nat) : a <<< b = a * 2 ^ b := Nat.shiftLeft_eq a b

/-- **`LocalControl.add` (with `_new_connection_id` and its `while` loop), translated, refines the model's `add`**: same
    refusal when the registry is full, same id, same successor state -/
theorem add_refines (s : LC) (hw : WF s) (conn : Nat) :
    (add s._MAX_CONNECTION_SEQ s conn).map (fun x => (x.1, abs x.2)) = Mimic.Control.add (abs s) := by
  unfold add new_connection_id Mimic.Control.add
  simp only [abs, keys, List.length_reverse, List.length_map, shiftLeft_mul]
  by_cases hfull : s._connections.length ≥ s._MAX_CONNECTION_SEQ
  · simp [hfull]
  · simp only [hfull, decide_false, Bool.false_eq_true, if_false]
    rw [seq_next_eq _ s._MAX_CONNECTION_SEQ (by simpa [WF] using hw)]
    simp only
    have hl := loop_probe s hw ((s.server_id % s._MAX_SERVER_ID) * 2 ^ s._CONNECTION_ID_BITS) s._MAX_CONNECTION_SEQ s._connection_seq.value
    simp only [keys] at hl
    rw [hl]
    cases hp : probe s._MAX_CONNECTION_SEQ ((s.server_id % s._MAX_SERVER_ID) * 2 ^ s._CONNECTION_ID_BITS)
        (List.map Prod.fst s._connections).reverse s._MAX_CONNECTION_SEQ s._connection_seq.value with
    | none => simp
    | some q =>
      obtain ⟨id, sq'⟩ := q
      have hfresh := probe_fresh _ _ _ _ _ _ _ hp
      have hfresh' : id ∉ List.map Prod.fst s._connections := by simpa using hfresh
      simp only [Option.map_some, dictSet_fresh _ _ _ hfresh', List.map_append, List.map_cons, List.map_nil, List.reverse_append,
        List.reverse_cons, List.reverse_nil, List.nil_append, List.singleton_append]

theorem erase_eq_filter_of_nodup (l : List Nat) (a : Nat) (h : l.Nodup) : l.erase a = l.filter (fun x => decide (x ≠ a)) := by
  induction l with
  | nil => rfl
  | cons b bs ih =>
    have hb := List.nodup_cons.mp h
    by_cases e : b = a
    · subst e
      have hf : bs.filter (fun x => decide (x ≠ b)) = bs := by
        apply List.filter_eq_self.mpr
        intro x hx
        have : x ≠ b := fun e => hb.1 (e ▸ hx)
        simpa using this
      rw [List.erase_cons_head, List.filter_cons]
      simp only [ne_eq, not_true_eq_false, decide_false, Bool.false_eq_true, if_false]
      exact hf.symm
    · have e' : (b == a) = false := by simpa using e
      rw [List.erase_cons, List.filter_cons]
      simp only [e', Bool.false_eq_true, if_false, ne_eq, e, not_false_eq_true, decide_true, if_true]
      rw [ih hb.2]

/-- **`LocalControl.remove`, translated, refines the model's `remove`** on registries whose keys are distinct -/
theorem remove_refines (s : LC) (id : Nat) (hn : (abs s).live.Nodup) :
    abs (remove s id) = Mimic.Control.remove (abs s) id := by
  unfold remove Mimic.Control.remove abs keys at *
  simp only [Mimic.Py.dictErase]
  rw [erase_eq_filter_of_nodup _ _ hn]
  simp only [List.filter_reverse, List.filter_map]
  congr 2

/-- what `add` computes, in one piece -/
theorem add_shape (s : LC) (hw : WF s) (conn : Nat) :
    add s._MAX_CONNECTION_SEQ s conn =
      if s._connections.length ≥ s._MAX_CONNECTION_SEQ then none
      else match probe s._MAX_CONNECTION_SEQ ((s.server_id % s._MAX_SERVER_ID) * 2 ^ s._CONNECTION_ID_BITS) (keys s).reverse
                s._MAX_CONNECTION_SEQ s._connection_seq.value with
        | none => none
        | some (id, sq') => some (id, ({ ({ s with _connection_seq := { s._connection_seq with value := sq' } } : LC) with
                                              _connections := Mimic.Py.dictSet s._connections id conn } : LC)) := by
  unfold add new_connection_id
  simp only [Nat.shiftLeft_eq]
  by_cases hfull : s._connections.length ≥ s._MAX_CONNECTION_SEQ
  · simp [hfull]
  · simp only [hfull, decide_false, Bool.false_eq_true, if_false]
    rw [seq_next_eq _ s._MAX_CONNECTION_SEQ (by simpa [WF] using hw)]
    simp only
    rw [loop_probe s hw ((s.server_id % s._MAX_SERVER_ID) * 2 ^ s._CONNECTION_ID_BITS) s._MAX_CONNECTION_SEQ s._connection_seq.value]
    cases probe s._MAX_CONNECTION_SEQ ((s.server_id % s._MAX_SERVER_ID) * 2 ^ s._CONNECTION_ID_BITS) (keys s).reverse
        s._MAX_CONNECTION_SEQ s._connection_seq.value with
    | none => rfl
    | some q => rfl

theorem add_wf (s : LC) (hw : WF s) (conn id : Nat) (s' : LC) (h : add s._MAX_CONNECTION_SEQ s conn = some (id, s')) :
    WF s' ∧ s'._MAX_CONNECTION_SEQ = s._MAX_CONNECTION_SEQ := by
  rw [add_shape s hw conn] at h
  split at h
  · simp at h
  · split at h
    · simp at h
    · simp at h
      obtain ⟨_, rfl⟩ := h
      exact ⟨by simpa [WF] using hw, rfl⟩

theorem remove_wf (s : LC) (hw : WF s) (id : Nat) : WF (remove s id) ∧ (remove s id)._MAX_CONNECTION_SEQ = s._MAX_CONNECTION_SEQ := by
  unfold remove; exact ⟨hw, rfl⟩

/-- one operation of the translated code (a refused `add` leaves the object unchanged) -/
def codeStep (s : LC) : Mimic.Control.Op → LC
  | .add => match add s._MAX_CONNECTION_SEQ s 0 with | some (_, s') => s' | none => s
  | .remove id => remove s id

def codeRun (s : LC) (ops : List Mimic.Control.Op) : LC := ops.foldl codeStep s

theorem codeStep_refines (s : LC) (hw : WF s) (hi : Mimic.Control.Inv (abs s)) (op : Mimic.Control.Op) :
    abs (codeStep s op) = Mimic.Control.step (abs s) op ∧ WF (codeStep s op) := by
  cases op with
  | add =>
    have h := add_refines s hw 0
    simp only [codeStep, Mimic.Control.step]
    cases ha : add s._MAX_CONNECTION_SEQ s 0 with
    | none => rw [ha] at h; simp at h; simp [← h, hw]
    | some q =>
      obtain ⟨id, s'⟩ := q
      rw [ha] at h; simp at h
      simp [← h, (add_wf s hw 0 id s' ha).1]
  | remove id =>
    simp only [codeStep, Mimic.Control.step]
    exact ⟨remove_refines s id hi.2.1, (remove_wf s hw id).1⟩

/-- **the translated `LocalControl` simulates the model along every history of arrivals and departures** -/
theorem codeRun_refines (ops : List Mimic.Control.Op) :
    ∀ (s : LC), WF s → Mimic.Control.Inv (abs s) → abs (codeRun s ops) = Mimic.Control.run (abs s) ops := by
  induction ops with
  | nil => intro s _ _; rfl
  | cons op ops ih =>
    intro s hw hi
    have h := codeStep_refines s hw hi op
    simp only [codeRun, Mimic.Control.run, List.foldl_cons]
    have hi' : Mimic.Control.Inv (abs (codeStep s op)) := by rw [h.1]; exact Mimic.Control.step_inv _ hi op
    have := ih (codeStep s op) h.2 hi'
    simp only [codeRun, Mimic.Control.run] at this
    rw [this, h.1]

theorem abs_init (sid n bits ms : Nat) : abs (init sid n bits ms : LC) = Mimic.Control.mkN n bits ms sid := by
  simp [abs, init, keys, Mimic.Control.mkN]

end MimicProofs.ControlCode
