import MimicProofs.ParsersCode
import Mimic.Extracted.ExecuteCode
/-!
The COM_STMT_EXECUTE path of `packets.py` as translated by `harness/pytrans2.py` (`Mimic.Extracted.ExecuteCode`,
regenerated from the source on every run; `str` is `List Char` there) against the hand-written model `Mimic.Params`:
`_encode_param_as_sql = literal`, `REGEX_PARAM.sub(lambda _: …next(values)…) = interp`, `_interpolate_params` and
`parse_com_stmt_execute = parseExecute`.  The meaning of `REGEX_PARAM` itself (`E.paramAt = isPh 0`) is a hypothesis: the
regex engine is modelled, not verified; the regex source is pinned by `C06.source_facts`.
-/
set_option linter.unusedSimpArgs false
set_option linter.unusedVariables false
namespace MimicProofs.ExecuteCode
open Mimic.Py Mimic.Extracted.ParsersCode Mimic.Extracted.ExecuteCode MimicProofs.Types MimicProofs.ParsersCode
open Mimic.Params (PVal esc quoted literal interp isPh parseExecute readParams)

theorem replace_esc (s : List Char) :
    Mimic.Py.strReplaceChar (Mimic.Py.strReplaceChar s '\\' "\\\\".toList) '\'' "''".toList = esc s := by
  induction s with
  | nil => rfl
  | cons c cs ih =>
    simp only [Mimic.Py.strReplaceChar, List.flatMap_cons, List.flatMap_append] at ih ⊢
    by_cases h1 : c = '\\'
    · subst h1
      simp only [esc, if_true]
      rw [← ih]
      have : List.flatMap (fun x => if x = '\'' then "''".toList else [x]) "\\\\".toList = ['\\', '\\'] := by decide
      rw [this]; rfl
    · by_cases h2 : c = '\''
      · subst h2
        simp only [esc, h1, if_false, if_true]
        rw [← ih]; rfl
      · simp only [esc, h1, h2, if_false]
        rw [← ih]
        simp [h1, h2]

theorem char_of_digit (n : Nat) (h : n < 10) : Char.ofNat (48 + n) = Char.ofNat (UInt8.ofNat (48 + n)).toNat := by
  have : (UInt8.ofNat (48 + n)).toNat = 48 + n := by simp [UInt8.toNat_ofNat']; omega
  rw [this]

theorem natDigits_eq (f : Nat) : ∀ (n : Nat) (acc : Bytes),
    Mimic.Py.natDigitsAux f n (Mimic.Params.asciiOf acc) = Mimic.Params.asciiOf (Mimic.Results.natToDecAux f n acc) := by
  induction f with
  | zero => intro n acc; rfl
  | succ f ih =>
    intro n acc
    simp only [Mimic.Py.natDigitsAux, Mimic.Results.natToDecAux]
    split
    · rename_i h
      simp [Mimic.Params.asciiOf, char_of_digit n h]
    · have := ih (n / 10) (UInt8.ofNat (48 + n % 10) :: acc)
      simp only [Mimic.Params.asciiOf, List.map_cons] at this ⊢
      rw [← this, ← char_of_digit (n % 10) (Nat.mod_lt _ (by decide))]

theorem intText_eq (z : Int) : Mimic.Py.intText z = Mimic.Params.asciiOf (Mimic.Results.intToDec z) := by
  unfold Mimic.Py.intText Mimic.Results.intToDec Mimic.Results.natToDec
  have h := natDigits_eq (z.natAbs + 1) z.natAbs []
  simp only [Mimic.Params.asciiOf, List.map_nil] at h
  split
  · simp only [Mimic.Params.asciiOf, List.map_cons] at h ⊢
    rw [h]; rfl
  · exact h

theorem subIter_eq (par : Nat) (s : List Char) : ∀ vals, Mimic.Py.subIter (isPh par) s vals = interp par s vals := by
  induction s with
  | nil => intro vals; rfl
  | cons c cs ih =>
    intro vals
    simp only [Mimic.Py.subIter, interp]
    split
    · cases vals with
      | nil => rfl
      | cons v vs => simp only [ih]
    · simp only [ih]

/-- **`_encode_param_as_sql` is the model's `literal`**: strings quoted with backslash and quote doubled, NULL, decimal
    integers, the environment's float text -/
theorem encode_param_eq (E : Env (List Char)) (v : Val (List Char)) :
    encode_param_as_sql E v = literal E.fltText (toPVal v) := by
  cases v with
  | none => rfl
  | int z => simp [encode_param_as_sql, literal, toPVal, intText_eq]
  | str s =>
    have h := replace_esc s
    simp only [encode_param_as_sql, literal, toPVal, quoted]
    rw [h]; rfl
  | flt b => simp [encode_param_as_sql, literal, toPVal]

def toStmt (st : PreparedStatement (List Char)) : Mimic.Params.Stmt :=
  { sql := st.sql, numParams := st.num_params, buffers := bufFn st.param_buffers }

theorem take_map_pOut (ps : List (List Char × PVal)) (n : Nat) :
    ((ps.map kvOut).take n).map (fun x => match x with | (_, value) => value) = (ps.take n).map (fun kv => ofPVal kv.2) := by
  rw [← List.map_take, List.map_map]; rfl

theorem literal_ofPVal (E : Env (List Char)) (v : PVal) : encode_param_as_sql E (ofPVal v) = literal E.fltText v := by
  rw [encode_param_eq]; cases v <;> rfl

/-- `_interpolate_params` against the tail of the model's `parseExecute` -/
theorem interpolate_eq (E : Env (List Char)) (caps cs : Nat) (valid : List Nat) (hv : ∀ n, E.validType n = valid.contains n)
    (hE : E.decode cs [] = some E.empty) (hP : E.paramAt = isPh 0) (st : PreparedStatement (List Char)) (pca : Bool)
    (r : Bytes) (hr : r.length < 2 ^ 63) :
    (interpolate_params E r caps cs st pca).map (fun x => x.1)
      = match (if (st.num_params > 0 ∨ (Mimic.Py.hasBit caps 27 = true ∧ pca = true)) ∧ Mimic.Py.hasBit caps 27 = true
               then Mimic.Wire.decLen r else some (st.num_params, r)) with
        | none => none
        | some (count, b2) =>
          if count = 0 then some (st.sql, []) else
          match readParams valid (E.decode cs) (Mimic.Py.hasBit caps 27) count (bufFn st.param_buffers) b2 with
          | none => none
          | some (ps, _) =>
            match interp 0 st.sql ((ps.take st.num_params).map (fun kv => literal E.fltText kv.2)) with
            | none => none
            | some (sql, _) => some (sql, (Mimic.Params.dictOf (ps.drop st.num_params)).map kvOut) := by
  unfold interpolate_params
  simp only [read_uint_len_eq, hP]
  split
  · rename_i heq
    have hC : (if (st.num_params > 0 ∨ (Mimic.Py.hasBit caps 27 = true ∧ pca = true)) ∧ Mimic.Py.hasBit caps 27 = true
               then Mimic.Wire.decLen r else some (st.num_params, r)) = none := by
      by_cases hq : Mimic.Py.hasBit caps 27 = true <;> by_cases hn : st.num_params > 0 <;> by_cases hp : pca = true <;>
        simp_all <;> (cases hd : Mimic.Wire.decLen r with | none => simp_all | some v => obtain ⟨a, b⟩ := v; simp_all)
    rw [hC]; rfl
  · rename_i pc r4 heq
    have hC : (if (st.num_params > 0 ∨ (Mimic.Py.hasBit caps 27 = true ∧ pca = true)) ∧ Mimic.Py.hasBit caps 27 = true
               then Mimic.Wire.decLen r else some (st.num_params, r)) = some (pc, r4) := by
      by_cases hq : Mimic.Py.hasBit caps 27 = true <;> by_cases hn : st.num_params > 0 <;> by_cases hp : pca = true <;>
        simp_all <;> (cases hd : Mimic.Wire.decLen r with | none => simp_all | some v => obtain ⟨a, b⟩ := v; simp_all)
    rw [hC]
    simp only
    have hlen : r4.length < 2 ^ 63 := by
      have : r4.length ≤ r.length := by
        split at hC
        · exact Nat.le_of_lt (Mimic.Packets.decLen_shorter r pc r4 hC)
        · simp at hC; rw [← hC.2]; exact Nat.le_refl _
      omega
    by_cases hpc : pc = 0
    · subst hpc; simp
    · have hpos : decide (pc > 0) = true := by simp; omega
      simp only [hpos, if_true, hpc, if_false]
      rw [read_params_eq E caps cs valid hv hE pc st.param_buffers r4 hlen]
      cases readParams valid (E.decode cs) (Mimic.Py.hasBit caps 27) pc (bufFn st.param_buffers) r4 with
      | none => rfl
      | some q =>
        obtain ⟨ps, rest⟩ := q
        simp only [Option.map_some, pOut]
        have hvals : List.map (fun x => encode_param_as_sql E x) (List.map (fun x => x.snd) (List.take st.num_params (List.map (fun kv => ((some kv.1 : Option (List Char)), ofPVal kv.2)) ps)))
            = List.map (fun kv => literal E.fltText kv.snd) (List.take st.num_params ps) := by
          rw [← List.map_take, List.map_map, List.map_map]
          apply List.map_congr_left
          intro kv _
          simp [literal_ofPVal]
        rw [hvals, subIter_eq]
        cases interp 0 st.sql (List.map (fun kv => literal E.fltText kv.snd) (List.take st.num_params ps)) with
        | none => rfl
        | some w =>
          obtain ⟨sql, left⟩ := w
          simp only [Option.map_some]
          have hdrop : List.drop st.num_params (List.map (fun kv => ((some kv.1 : Option (List Char)), ofPVal kv.2)) ps)
              = List.map (fun kv => ((some kv.1 : Option (List Char)), ofPVal kv.2)) (List.drop st.num_params ps) := by
            rw [List.map_drop]
          rw [hdrop, filter_some (List.drop st.num_params ps)]
          have hd := dictOf_map (List.drop st.num_params ps)
          have hd' : Mimic.Py.dictOf (List.map (fun kv => ((some kv.fst : Option (List Char)), ofPVal kv.snd)) (List.drop st.num_params ps))
              = (Mimic.Params.dictOf (List.drop st.num_params ps)).map kvOut := hd
          rw [hd']

theorem read_cursor_flags_eq (r : Bytes) :
    read_cursor_flags r = match r with
      | [] => none
      | flags :: rest => some ((decide (flags.toNat % 2 = 1), decide (flags.toNat / 8 % 2 = 1)), rest) := by
  unfold read_cursor_flags
  simp only [read_uint_1_eq, readUInt_one]
  cases r with
  | nil => rfl
  | cons flags rest =>
    simp only [Mimic.Py.hasBit]
    by_cases h : flags.toNat / 2 ^ 0 % 2 = 1
    · have h' : flags.toNat % 2 = 1 := by simpa using h
      simp [h, h']
    · have h' : ¬ flags.toNat % 2 = 1 := by simpa using h
      simp [h, h']

/-- **`parse_com_stmt_execute` of `packets.py`, translated, is the model's `parseExecute`**: statement lookup, cursor
    flags, iteration count, the transmitted parameter count, parameter block, single-pass substitution of the rendered
    literals, query attributes -/
theorem parse_com_stmt_execute_eq (E : Env (List Char)) (caps cs : Nat) (valid : List Nat) (hv : ∀ n, E.validType n = valid.contains n)
    (hE : E.decode cs [] = some E.empty) (hP : E.paramAt = isPh 0) (get_stmt : Nat → Option (PreparedStatement (List Char)))
    (data : Bytes) (hr : data.length < 2 ^ 63) :
    (parse_com_stmt_execute E caps cs data get_stmt).map (fun x => (x.sql, x.query_attrs, x.use_cursor))
      = match Mimic.Wire.readUInt 4 data with
        | none => none
        | some (sid, after) =>
          match get_stmt sid with
          | none => none
          | some st => (parseExecute valid (E.decode cs) E.fltText (Mimic.Py.hasBit caps 27) (toStmt st) after).map
                         (fun x => (x.1, x.2.1.map kvOut, x.2.2)) := by
  unfold parse_com_stmt_execute parseExecute
  simp only [read_uint_4_eq, read_cursor_flags_eq]
  cases h1 : Mimic.Wire.readUInt 4 data with
  | none => rfl
  | some p1 =>
    obtain ⟨sid, after⟩ := p1
    simp only
    cases get_stmt sid with
    | none => rfl
    | some st =>
      simp only
      have l1 := Mimic.Packets.readUInt_shorter 4 data sid after h1
      cases after with
      | nil => rfl
      | cons flags b0 =>
        simp only
        cases h2 : Mimic.Wire.readUInt 4 b0 with
        | none =>
          have : Mimic.Wire.takeN 4 b0 = none := by
            unfold Mimic.Wire.readUInt at h2; cases ht : Mimic.Wire.takeN 4 b0 with | none => rfl | some q => simp [ht] at h2
          simp [this]
        | some p2 =>
          obtain ⟨it, b1⟩ := p2
          have l2 := Mimic.Packets.readUInt_shorter 4 b0 it b1 h2
          have ht : Mimic.Wire.takeN 4 b0 = some (b0.take 4, b1) := by
            unfold Mimic.Wire.readUInt at h2
            cases ht : Mimic.Wire.takeN 4 b0 with
            | none => simp [ht] at h2
            | some q =>
              obtain ⟨x, y⟩ := q
              simp [ht] at h2
              unfold Mimic.Wire.takeN at ht
              split at ht
              · simp at ht; rw [← ht.1, ← h2.2, ← ht.2]
              · simp at ht
          simp only [ht]
          have hi := interpolate_eq E caps cs valid hv hE hP st (decide (flags.toNat / 8 % 2 = 1)) b1 (by simp at l1 l2 ⊢; omega)
          -- the model's result as a function of the tail computed by `interpolate_eq`
          have hM : ∀ (X : Option (List Char × List (Option (List Char) × Val (List Char)))),
              X = (match (if (st.num_params > 0 ∨ Mimic.Py.hasBit caps 27 = true ∧ decide (flags.toNat / 8 % 2 = 1) = true) ∧ Mimic.Py.hasBit caps 27 = true
                        then Mimic.Wire.decLen b1 else some (st.num_params, b1)) with
                  | none => none
                  | some (count, b2) =>
                    if count = 0 then some (st.sql, []) else
                    match readParams valid (E.decode cs) (Mimic.Py.hasBit caps 27) count (bufFn st.param_buffers) b2 with
                    | none => none
                    | some (ps, _) =>
                      match interp 0 st.sql ((ps.take st.num_params).map (fun kv => literal E.fltText kv.2)) with
                      | none => none
                      | some (sql, _) => some (sql, (Mimic.Params.dictOf (ps.drop st.num_params)).map kvOut)) →
              X.map (fun p => (p.1, p.2, decide (flags.toNat % 2 = 1))) =
                Option.map (fun x => (x.fst, List.map kvOut x.snd.fst, x.snd.snd))
                  (match (if ((toStmt st).numParams > 0 ∨ Mimic.Py.hasBit caps 27 = true ∧ flags.toNat / 8 % 2 = 1) ∧ Mimic.Py.hasBit caps 27 = true
                          then Mimic.Wire.decLen b1 else some ((toStmt st).numParams, b1)) with
                  | none => none
                  | some (count, b2) =>
                    if count = 0 then some ((toStmt st).sql, [], decide (flags.toNat % 2 = 1)) else
                    match readParams valid (E.decode cs) (Mimic.Py.hasBit caps 27) count (toStmt st).buffers b2 with
                    | none => none
                    | some (ps, _) =>
                      match interp 0 (toStmt st).sql ((ps.take (toStmt st).numParams).map (fun kv => literal E.fltText kv.2)) with
                      | none => none
                      | some (sql, _) => some (sql, Mimic.Params.dictOf (ps.drop (toStmt st).numParams), decide (flags.toNat % 2 = 1))) := by
            intro X hX
            subst hX
            simp only [toStmt, decide_eq_true_eq]
            have tail : ∀ (count : Nat) (b2 : Bytes),
                Option.map (fun (p : List Char × List (Option (List Char) × Val (List Char))) => (p.fst, p.snd, decide (flags.toNat % 2 = 1)))
                  (if count = 0 then some (st.sql, []) else
                    match readParams valid (E.decode cs) (Mimic.Py.hasBit caps 27) count (bufFn st.param_buffers) b2 with
                    | none => none
                    | some (ps, _) =>
                      match interp 0 st.sql ((ps.take st.num_params).map (fun kv => literal E.fltText kv.2)) with
                      | none => none
                      | some (sql, _) => some (sql, (Mimic.Params.dictOf (ps.drop st.num_params)).map kvOut))
                = Option.map (fun (x : List Char × List (List Char × PVal) × Bool) => (x.fst, List.map kvOut x.snd.fst, x.snd.snd))
                  (if count = 0 then some (st.sql, [], decide (flags.toNat % 2 = 1)) else
                    match readParams valid (E.decode cs) (Mimic.Py.hasBit caps 27) count (bufFn st.param_buffers) b2 with
                    | none => none
                    | some (ps, _) =>
                      match interp 0 st.sql ((ps.take st.num_params).map (fun kv => literal E.fltText kv.2)) with
                      | none => none
                      | some (sql, _) => some (sql, Mimic.Params.dictOf (ps.drop st.num_params), decide (flags.toNat % 2 = 1))) := by
              intro count b2
              by_cases hc : count = 0
              · simp [hc]
              · simp only [hc, if_false]
                cases readParams valid (E.decode cs) (Mimic.Py.hasBit caps 27) count (bufFn st.param_buffers) b2 with
                | none => rfl
                | some w =>
                  obtain ⟨ps, x⟩ := w
                  simp only
                  cases interp 0 st.sql (List.map (fun kv => literal E.fltText kv.snd) (List.take st.num_params ps)) with
                  | none => rfl
                  | some u => rfl
            by_cases hq : Mimic.Py.hasBit caps 27 = true <;> by_cases hn : st.num_params > 0 <;> by_cases hp : flags.toNat / 8 % 2 = 1 <;>
              simp only [hq, hn, hp, true_or, false_or, or_true, or_false, and_true, and_false, true_and, false_and, if_true, if_false,
                Bool.false_eq_true] <;>
              first
                | (have := tail st.num_params b1; simp only [hq, Bool.not_eq_true] at this hq; first | exact this | (simp only [hq] at this ⊢; exact this))
                | (cases Mimic.Wire.decLen b1 with
                    | none => rfl
                    | some q => obtain ⟨count, b2⟩ := q; have := tail count b2; simp only [hq] at this; exact this)
          cases hI : interpolate_params E b1 caps cs st (decide (flags.toNat / 8 % 2 = 1)) with
          | none =>
            rw [hI] at hi
            exact hM none hi
          | some q =>
            obtain ⟨⟨sql, qa⟩, r10⟩ := q
            rw [hI] at hi
            exact hM (some (sql, qa)) hi

end MimicProofs.ExecuteCode
