import Mimic.Conn
/-! Helper lemmas for the connection machine (L4). -/
namespace Mimic.Conn

/-- what a script writes if nothing interrupts it: the emissions up to its first own exception -/
def emits : List Op → List PK
  | [] => []
  | .emit p :: r => p :: emits r
  | .raise_ _ :: _ => []
  | .callRet _ true :: _ => []
  | .call _ _ true :: _ => []
  | .quit :: _ => []
  | _ :: r => emits r

/-- everything written so far, flushed or not -/
def S.written (s : S) : List PK := s.out ++ s.buf

/-- ops that touch the session life cycle; handlers never contain them -/
def Op.lifecycle : Op → Bool
  | .call .init _ _ => true
  | .call .close _ _ => true
  | .callRet .init _ => true
  | .callRet .close _ => true
  | .raise_ .cancelled => true      -- `CancelledError` is raised by the event loop, never by a script itself
  | _ => false

/-- the part of the state that scripts cannot change except through lifecycle ops -/
structure Frame (s s' : S) : Prop where
  initDone : s'.initDone = s.initDone
  closeCalls : s'.closeCalls = s.closeCalls
  lost : s'.lost = s.lost
  eofSeen : s'.eofSeen = s.eofSeen
  registered : s'.registered = s.registered
  blocked : s'.blocked = s.blocked

theorem Frame.refl (s : S) : Frame s s := ⟨rfl, rfl, rfl, rfl, rfl, rfl⟩

theorem Frame.trans {a b c : S} (h1 : Frame a b) (h2 : Frame b c) : Frame a c :=
  ⟨h2.initDone.trans h1.initDone, h2.closeCalls.trans h1.closeCalls, h2.lost.trans h1.lost,
   h2.eofSeen.trans h1.eofSeen, h2.registered.trans h1.registered, h2.blocked.trans h1.blocked⟩

theorem flush_written (s : S) (h : s.lost = false) : (flush s).written = s.written := by
  simp [flush, h, S.written]

theorem flush_frame (s : S) : Frame s (flush s) := by
  unfold flush; split <;> exact ⟨rfl, rfl, rfl, rfl, rfl, rfl⟩

/-- **Outcome of running a script fragment** (for a transport that is not lost and ops without lifecycle calls):
    either the fragment ran to its end, or it raised, or the coroutine parked; in every case what has been written
    is the previous output followed by a prefix of the fragment's emissions — the whole of them at the end, and
    exactly the not-yet-run rest missing when parked. -/
def Outcome (lvl : Lvl) (s : S) (ops : List Op) (exc : Option Exc)
    (onEnd : S → Option Exc → S) (onThrow : S → Exc → S) (r : S) : Prop :=
  (∃ s', Frame s s' ∧ s'.written = s.written ++ emits ops ∧ r = onEnd s' exc) ∨
  (∃ s' e pre, Frame s s' ∧ pre <+: emits ops ∧ s'.written = s.written ++ pre ∧
      (e = .cancelled → s'.mustCancel = false) ∧ r = onThrow s' e) ∨
  (∃ w rest pre, Frame s r ∧ r.phase = .parked lvl w rest exc ∧ r.written = s.written ++ pre ∧
      pre ++ emits rest = emits ops ∧
      (∀ op ∈ rest, op.lifecycle = false) ∧ (w = .drain → r.blocked = true ∧ r.buf = []))

theorem runOps_outcome (lvl : Lvl) (onEnd : S → Option Exc → S) (onThrow : S → Exc → S) (exc : Option Exc) :
    ∀ (ops : List Op) (s : S), s.lost = false → (∀ op ∈ ops, op.lifecycle = false) →
      Outcome lvl s ops exc onEnd onThrow (runOps lvl onEnd onThrow s ops exc) := by
  intro ops
  induction ops with
  | nil =>
    intro s _ _
    simp only [runOps]
    exact Or.inl ⟨s, Frame.refl s, by simp [emits], rfl⟩
  | cons op rest ih =>
    intro s hl hlc
    have hrest : ∀ op ∈ rest, op.lifecycle = false := fun o ho => hlc o (by simp [ho])
    have hop := hlc op (by simp)
    -- re-wrap an outcome of the tail as an outcome of the whole list
    have lift : ∀ (s1 : S) (ems : List PK), Frame s s1 → s1.lost = false →
        s1.written = s.written ++ ems → emits (op :: rest) = ems ++ emits rest →
        Outcome lvl s (op :: rest) exc onEnd onThrow (runOps lvl onEnd onThrow s1 rest exc) := by
      intro s1 ems hf1 hl1 hw1 hem
      rcases ih s1 hl1 hrest with ⟨s', hf, hw, hr⟩ | ⟨s', e, pre, hf, hp, hw, hc, hr⟩ | ⟨w, r, pre, hf, hph, hw, hpe, hl2, hwb⟩
      · exact Or.inl ⟨s', hf1.trans hf, by rw [hw, hw1, hem, List.append_assoc], hr⟩
      · refine Or.inr (Or.inl ⟨s', e, ems ++ pre, hf1.trans hf, ?_, by rw [hw, hw1, List.append_assoc], hc, hr⟩)
        rw [hem]; exact (List.prefix_append_right_inj ems).mpr hp
      · exact Or.inr (Or.inr ⟨w, r, ems ++ pre, hf1.trans hf, hph, by rw [hw, hw1, List.append_assoc],
          by rw [hem, List.append_assoc, hpe], hl2, hwb⟩)
    cases op with
    | emit p =>
      simp only [runOps]
      exact lift { s with buf := s.buf ++ [p] } [p] ⟨rfl, rfl, rfl, rfl, rfl, rfl⟩ hl
        (by simp [S.written, List.append_assoc]) (by simp [emits])
    | drain =>
      simp only [runOps, hl, Bool.false_eq_true, if_false]
      have hfl : (flush s).written = s.written := flush_written s hl
      have hfll : (flush s).lost = false := by simp [flush, hl]
      split
      · split
        · refine Or.inr (Or.inl ⟨{ (flush s) with mustCancel := false }, .cancelled, [], ?_, List.nil_prefix, ?_, fun _ => rfl, rfl⟩)
          · exact (flush_frame s).trans ⟨rfl, rfl, rfl, rfl, rfl, rfl⟩
          · simpa [S.written] using hfl
        · rename_i hb _
          refine Or.inr (Or.inr ⟨.drain, rest, [], ?_, rfl, ?_, by simp [emits], hrest, ?_⟩)
          · exact (flush_frame s).trans ⟨rfl, rfl, rfl, rfl, rfl, rfl⟩
          · have : ({ (flush s) with phase := .parked lvl .drain rest exc } : S).written = s.written := by
              simpa [S.written] using hfl
            rw [this]; simp
          · intro _; exact ⟨by simpa [flush, hl] using hb, by simp [flush, hl]⟩
      · exact lift (flush s) [] (flush_frame s) hfll (by simpa using hfl) (by simp [emits])
    | call c susp raises =>
      have hcl : c ≠ .close := by intro h; subst h; simp [Op.lifecycle] at hop
      have hci : c ≠ .init := by intro h; subst h; simp [Op.lifecycle] at hop
      simp only [runOps, hcl, if_false]
      split
      · split
        · exact Or.inr (Or.inl ⟨{ s with mustCancel := false }, .cancelled, [], ⟨rfl, rfl, rfl, rfl, rfl, rfl⟩, List.nil_prefix,
            by simp [S.written], fun _ => rfl, rfl⟩)
        · refine Or.inr (Or.inr ⟨.future, .callRet c raises :: rest, [], ⟨rfl, rfl, rfl, rfl, rfl, rfl⟩, rfl,
            by simp [S.written], ?_, ?_, fun h => by cases h⟩)
          · cases raises <;> simp [emits]
          · intro o ho
            rcases List.mem_cons.mp ho with rfl | ho
            · cases c <;> simp_all [Op.lifecycle]
            · exact hrest o ho
      · -- non-suspending call: the return is processed at once
        cases raises with
        | true =>
          simp only [runOps, if_true]
          exact Or.inr (Or.inl ⟨s, .generic, [], Frame.refl s, List.nil_prefix, by simp, fun h => by simp at h, rfl⟩)
        | false =>
          simp only [runOps, Bool.false_eq_true, if_false, hci]
          exact lift s [] (Frame.refl s) hl (by simp) (by simp [emits])
    | callRet c raises =>
      have hci : c ≠ .init := by intro h; subst h; simp [Op.lifecycle] at hop
      cases raises with
      | true =>
        simp only [runOps, if_true]
        exact Or.inr (Or.inl ⟨s, .generic, [], Frame.refl s, List.nil_prefix, by simp, fun h => by simp at h, rfl⟩)
      | false =>
        simp only [runOps, Bool.false_eq_true, if_false, hci]
        exact lift s [] (Frame.refl s) hl (by simp) (by simp [emits])
    | pull susp =>
      simp only [runOps]
      split
      · split
        · exact Or.inr (Or.inl ⟨{ s with mustCancel := false }, .cancelled, [], ⟨rfl, rfl, rfl, rfl, rfl, rfl⟩, List.nil_prefix,
            by simp [S.written], fun _ => rfl, rfl⟩)
        · exact Or.inr (Or.inr ⟨.future, rest, [], ⟨rfl, rfl, rfl, rfl, rfl, rfl⟩, rfl, by simp [S.written], by simp [emits],
            hrest, fun h => by cases h⟩)
      · exact lift s [] (Frame.refl s) hl (by simp) (by simp [emits])
    | yield_ =>
      simp only [runOps]
      split
      · exact Or.inr (Or.inl ⟨{ s with mustCancel := false }, .cancelled, [], ⟨rfl, rfl, rfl, rfl, rfl, rfl⟩, List.nil_prefix,
          by simp [S.written], fun _ => rfl, rfl⟩)
      · exact lift s [] (Frame.refl s) hl (by simp) (by simp [emits])
    | raise_ e =>
      simp only [runOps]
      have hne : e ≠ .cancelled := by intro h; subst h; simp [Op.lifecycle] at hop
      exact Or.inr (Or.inl ⟨s, e, [], Frame.refl s, List.nil_prefix, by simp, fun h => absurd h hne, rfl⟩)
    | selfKill k =>
      cases k with
      | query => simp only [runOps]; exact lift s [] (Frame.refl s) hl (by simp) (by simp [emits])
      | conn =>
        simp only [runOps]
        exact lift { s with kill := some .conn, mustCancel := true } [] ⟨rfl, rfl, rfl, rfl, rfl, rfl⟩ hl
          (by simp [S.written]) (by simp [emits])
    | quit =>
      simp only [runOps]
      exact Or.inr (Or.inl ⟨s, .authFailed, [], Frame.refl s, List.nil_prefix, by simp, fun h => by simp at h, rfl⟩)

end Mimic.Conn

namespace Mimic.Conn

/-- the connection is on its way out: closed, or parked inside `_start`'s termination path -/
def Terminating (s : S) : Prop :=
  s.phase = .closed ∨ (∃ w r e, s.phase = .parked .startArm w r e) ∨ (∃ w r e, s.phase = .parked .closing w r e)

/-- phase-only induction principle for `runOps`: whatever holds of every continuation result and of every state
    parked at this level holds of the result (arbitrary ops, no side conditions) -/
theorem runOps_phase (P : S → Prop) (lvl : Lvl) (onEnd : S → Option Exc → S) (onThrow : S → Exc → S)
    (hEnd : ∀ s e, P (onEnd s e)) (hThrow : ∀ s e, P (onThrow s e))
    (hPark : ∀ s w r e, s.phase = .parked lvl w r e → P s) :
    ∀ (ops : List Op) (s : S) (exc : Option Exc), P (runOps lvl onEnd onThrow s ops exc) := by
  intro ops
  induction ops with
  | nil => intro s exc; simp only [runOps]; exact hEnd _ _
  | cons op rest ih =>
    intro s exc
    cases op with
    | emit p => simp only [runOps]; exact ih _ _
    | drain =>
      simp only [runOps]
      split
      · exact hThrow _ _
      · split
        · split
          · exact hThrow _ _
          · exact hPark _ _ _ _ rfl
        · exact ih _ _
    | call c susp raises =>
      simp only [runOps]
      split
      · split
        · exact hThrow _ _
        · exact hPark _ _ _ _ rfl
      · cases raises with
        | true => simp only [runOps, if_true]; exact hThrow _ _
        | false => simp only [runOps, Bool.false_eq_true, if_false]; exact ih _ _
    | callRet c raises =>
      cases raises with
      | true => simp only [runOps, if_true]; exact hThrow _ _
      | false => simp only [runOps, Bool.false_eq_true, if_false]; exact ih _ _
    | pull susp =>
      simp only [runOps]
      split
      · split
        · exact hThrow _ _
        · exact hPark _ _ _ _ rfl
      · exact ih _ _
    | yield_ =>
      simp only [runOps]
      split
      · exact hThrow _ _
      · exact ih _ _
    | raise_ e => simp only [runOps]; exact hThrow _ _
    | selfKill k => cases k <;> simp only [runOps] <;> exact ih _ _
    | quit => simp only [runOps]; exact hThrow _ _

theorem release_terminating (s : S) (e : Option Exc) : Terminating (release s e) := Or.inl rfl

theorem runClosing_terminating (s : S) (ops : List Op) (exc : Option Exc) : Terminating (runClosing s ops exc) :=
  runOps_phase Terminating .closing _ _ (fun s e => release_terminating s e) (fun s e => release_terminating s (some e))
    (fun s w r e h => Or.inr (Or.inr ⟨w, r, e, h⟩)) ops s exc

theorem closeSession_terminating (s : S) (exc : Option Exc) : Terminating (closeSession s exc) :=
  runClosing_terminating _ _ _

theorem runStartArm_terminating (s : S) (ops : List Op) : Terminating (runStartArm s ops) :=
  runOps_phase Terminating .startArm _ _ (fun s _ => closeSession_terminating _ _) (fun s e => closeSession_terminating _ _)
    (fun s w r e h => Or.inr (Or.inl ⟨w, r, e, h⟩)) ops s none

theorem throwStart_terminating (s : S) (e : Exc) : Terminating (throwStart s e) := by
  unfold throwStart
  cases e with
  | cancelled =>
    simp only
    split
    · exact runStartArm_terminating _ _
    · exact closeSession_terminating _ _
  | authFailed => exact closeSession_terminating _ _
  | mysqlError => exact closeSession_terminating _ _
  | generic => exact closeSession_terminating _ _
  | connLost => exact closeSession_terminating _ _

theorem toIdle_cases (s : S) :
    (toIdle s = { s with phase := .idle } ∧ s.lost = false ∧ s.eofSeen = false ∧ s.mustCancel = false) ∨
    Terminating (toIdle s) := by
  unfold toIdle
  split
  · exact Or.inr (throwStart_terminating _ _)
  · split
    · exact Or.inr (closeSession_terminating _ _)
    · split
      · exact Or.inr (throwStart_terminating _ _)
      · rename_i h0 h1 h2
        exact Or.inl ⟨rfl, by simpa using h0, by simpa using h1, by simpa using h2⟩

/-- a finished response is the script's own output, or a prefix of it closed by exactly one ERR -/
def GoodResp (full resp : List PK) : Prop :=
  resp = full ∨ ∃ pre c, pre <+: full ∧ resp = pre ++ [.err c]

/-- invariant of one command from the moment it is read until the connection is idle again (or terminating):
    `base` = what had been written before, `full` = the emissions of the command's script -/
def CmdInv (base full : List PK) (s : S) : Prop :=
  Terminating s ∨
  (s.lost = false ∧
   (match s.phase with
    | .idle => ∃ resp, s.written = base ++ resp ∧ GoodResp full resp
    | .parked .handler _ rest _ =>
        (∀ op ∈ rest, op.lifecycle = false) ∧ ∃ x, s.written = base ++ x ∧ x ++ emits rest = full
    | .parked .cmdArm _ rest _ =>
        (∀ op ∈ rest, op.lifecycle = false) ∧
          ∃ x pre c, s.written = base ++ x ∧ pre <+: full ∧ x ++ emits rest = pre ++ [.err c]
    | _ => False))

theorem runCmdArm_inv (base full : List PK) (ops : List Op) (s : S) (hl : s.lost = false)
    (hlc : ∀ op ∈ ops, op.lifecycle = false) (x pre : List PK) (c : ErrC)
    (hw : s.written = base ++ x) (hp : pre <+: full) (hx : x ++ emits ops = pre ++ [.err c]) :
    CmdInv base full (runCmdArm s ops) := by
  unfold runCmdArm
  rcases runOps_outcome .cmdArm _ _ none ops s hl hlc with ⟨s', hf, hw', hr⟩ | ⟨s', e, p, hf, _, _, _, hr⟩ | ⟨w, r, p, hf, hph, hw', hpe, hl2, _⟩
  · rw [hr]
    -- the arm ran to its end: back to idle (or terminating)
    generalize hs2 : (if s'.kill = some Kill.query then { s' with kill := none } else s') = s2
    have hw2 : s2.written = s'.written := by subst hs2; split <;> rfl
    rcases toIdle_cases s2 with ⟨he, hl', _, _⟩ | ht
    · right
      rw [he]
      refine ⟨hl', ?_⟩
      simp only
      refine ⟨x ++ emits ops, ?_, Or.inr ⟨pre, c, hp, hx⟩⟩
      show s2.written = _
      rw [hw2, hw', hw, List.append_assoc]
    · exact Or.inl ht
  · rw [hr]; exact Or.inl (throwStart_terminating _ _)
  · right
    refine ⟨by rw [hf.lost]; exact hl, ?_⟩
    rw [hph]
    simp only
    refine ⟨hl2, ?_⟩
    exact ⟨x ++ p, pre, c, by rw [hw', hw, List.append_assoc], hp, by rw [List.append_assoc, hpe, hx]⟩

theorem throwHandler_inv (base full : List PK) (s : S) (e : Exc) (hl : s.lost = false) (x : List PK)
    (hw : s.written = base ++ x) (hp : x <+: full) : CmdInv base full (throwHandler s e) := by
  have arm : ∀ c : ErrC, CmdInv base full (runCmdArm { s with executing := false } [.emit (.err c), .drain]) := by
    intro c
    exact runCmdArm_inv base full _ _ hl (by intro op hop; simp at hop; rcases hop with rfl | rfl <;> rfl) x x c
      (by simpa [S.written] using hw) hp (by simp [emits])
  unfold throwHandler
  cases e with
  | mysqlError => exact arm _
  | authFailed => exact Or.inl (throwStart_terminating _ _)
  | cancelled =>
    simp only
    split
    · exact arm _
    · exact Or.inl (throwStart_terminating _ _)
  | generic => exact arm _
  | connLost => exact arm _

theorem runHandler_inv (base full : List PK) (ops : List Op) (s : S) (hl : s.lost = false)
    (hlc : ∀ op ∈ ops, op.lifecycle = false) (x : List PK) (hw : s.written = base ++ x) (hx : x ++ emits ops = full) :
    CmdInv base full (runHandler s ops) := by
  unfold runHandler
  rcases runOps_outcome .handler _ _ none ops s hl hlc with ⟨s', hf, hw', hr⟩ | ⟨s', e, p, hf, hp, hw', _, hr⟩ | ⟨w, r, p, hf, hph, hw', hpe, hl2, _⟩
  · rw [hr]
    rcases toIdle_cases { s' with executing := false } with ⟨he, hl', _, _⟩ | ht
    · right
      rw [he]
      refine ⟨hl', ?_⟩
      simp only
      refine ⟨full, ?_, Or.inl rfl⟩
      show s'.written = _
      rw [hw', hw, List.append_assoc, hx]
    · exact Or.inl ht
  · rw [hr]
    refine throwHandler_inv base full s' e (by rw [hf.lost]; exact hl) (x ++ p) (by rw [hw', hw, List.append_assoc]) ?_
    rw [← hx]; exact (List.prefix_append_right_inj x).mpr hp
  · right
    refine ⟨by rw [hf.lost]; exact hl, ?_⟩
    rw [hph]
    simp only
    exact ⟨hl2, x ++ p, by rw [hw', hw, List.append_assoc], by rw [List.append_assoc, hpe, hx]⟩

/-- events that are not a new packet from the client and not a transport loss -/
def Ev.internal : Ev → Bool
  | .resume => true
  | .block => true
  | .unblock => true
  | .kill _ => true
  | .deliver => true
  | .eof => true
  | _ => false

theorem throwAt_inv (base full : List PK) (s : S) (e : Exc)
    (h : CmdInv base full s) (lvl : Lvl) (w : Wait) (rest : List Op) (exc : Option Exc)
    (hph : s.phase = .parked lvl w rest exc) (s1 : S) (hs1 : s1.written = s.written) (hl1 : s1.lost = s.lost) :
    CmdInv base full (throwAt s1 lvl e) := by
  rcases h with ht | ⟨hl, hm⟩
  · -- already terminating: stays terminating
    rcases ht with hc | ⟨w', r', e', hp⟩ | ⟨w', r', e', hp⟩
    · rw [hph] at hc; cases hc
    · rw [hph] at hp; cases hp; exact Or.inl (closeSession_terminating _ _)
    · rw [hph] at hp; cases hp; exact Or.inl (release_terminating _ _)
  · rw [hph] at hm
    cases lvl with
    | handler =>
      obtain ⟨_, x, hw, hx⟩ := hm
      exact throwHandler_inv base full s1 e (by rw [hl1]; exact hl) x (by rw [hs1]; exact hw) ⟨emits rest, hx⟩
    | cmdArm => exact Or.inl (throwStart_terminating _ _)
    | connPhase => exact absurd hm (by simp)
    | initing => exact absurd hm (by simp)
    | connArm => exact absurd hm (by simp)
    | startArm => exact absurd hm (by simp)
    | closing => exact absurd hm (by simp)

theorem resumeAt_inv (base full : List PK) (s : S) (h : CmdInv base full s) (lvl : Lvl) (w : Wait) (rest : List Op)
    (exc : Option Exc) (hph : s.phase = .parked lvl w rest exc) (s1 : S) (hs1 : s1.written = s.written)
    (hl1 : s1.lost = s.lost) : CmdInv base full (resumeAt s1 lvl rest exc) := by
  rcases h with ht | ⟨hl, hm⟩
  · rcases ht with hc | ⟨w', r', e', hp⟩ | ⟨w', r', e', hp⟩
    · rw [hph] at hc; cases hc
    · rw [hph] at hp; cases hp; exact Or.inl (runStartArm_terminating _ _)
    · rw [hph] at hp; cases hp; exact Or.inl (runClosing_terminating _ _ _)
  · rw [hph] at hm
    cases lvl with
    | handler =>
      obtain ⟨hlc, x, hw, hx⟩ := hm
      exact runHandler_inv base full rest s1 (by rw [hl1]; exact hl) hlc x (by rw [hs1]; exact hw) hx
    | cmdArm =>
      obtain ⟨hlc, x, pre, c, hw, hp, hx⟩ := hm
      exact runCmdArm_inv base full rest s1 (by rw [hl1]; exact hl) hlc x pre c (by rw [hs1]; exact hw) hp hx
    | connPhase => exact absurd hm (by simp)
    | initing => exact absurd hm (by simp)
    | connArm => exact absurd hm (by simp)
    | startArm => exact absurd hm (by simp)
    | closing => exact absurd hm (by simp)

theorem CmdInv_congr (base full : List PK) (s s' : S) (hp : s'.phase = s.phase) (hl : s'.lost = s.lost)
    (hw : s'.written = s.written) (h : CmdInv base full s) : CmdInv base full s' := by
  rcases h with ht | ⟨hl0, hm⟩
  · left; unfold Terminating at *; rw [hp]; exact ht
  · right
    refine ⟨by rw [hl]; exact hl0, ?_⟩
    rw [hp, hw]; exact hm

/-- **The command invariant is preserved by every event other than a new client packet or a transport loss**:
    the application resuming, the client blocking / unblocking, kills of either kind, the client closing its side. -/
theorem step_inv (base full : List PK) (s : S) (ev : Ev) (hev : ev.internal = true) (h : CmdInv base full s) :
    CmdInv base full (step s ev) := by
  cases ev with
  | handshake _ _ _ => simp [Ev.internal] at hev
  | cmd _ => simp [Ev.internal] at hev
  | lose => simp [Ev.internal] at hev
  | resume =>
    simp only [step]
    split
    · exact h
    · split
      · rename_i lvl rest exc hph
        exact resumeAt_inv base full s h lvl .future rest exc hph s rfl rfl
      · exact h
  | block => exact CmdInv_congr base full s _ rfl rfl rfl h
  | unblock =>
    simp only [step]
    split
    · exact CmdInv_congr base full s _ rfl rfl rfl h
    · split
      · rename_i lvl rest exc hph
        exact resumeAt_inv base full s h lvl .drain rest exc hph _ rfl rfl
      · exact CmdInv_congr base full s _ rfl rfl rfl h
  | kill k =>
    simp only [step]
    split
    · exact h
    · cases k with
      | query => simp only; split <;> first | exact h | exact CmdInv_congr base full s _ rfl rfl rfl h
      | conn => exact CmdInv_congr base full s _ rfl rfl rfl h
  | deliver =>
    simp only [step]
    split
    · split
      · exact h
      · rename_i hph
        rcases h with ht | ⟨_, hm⟩
        · rcases ht with hc | ⟨w, r, e, hp⟩ | ⟨w, r, e, hp⟩ <;> rw [hph] at * <;> simp_all
        · rw [hph] at hm; exact absurd hm (by simp)
      · exact Or.inl (throwStart_terminating _ _)
      · rename_i lvl w rest exc hph
        exact throwAt_inv base full s .cancelled h lvl w rest exc hph _ rfl rfl
    · exact h
  | eof =>
    simp only [step]
    split
    · rename_i hph
      rcases h with ht | ⟨_, hm⟩
      · rcases ht with hc | ⟨w, r, e, hp⟩ | ⟨w, r, e, hp⟩ <;> rw [hph] at * <;> simp_all
      · rw [hph] at hm; exact absurd hm (by simp)
    · exact Or.inl (closeSession_terminating _ _)
    · exact h
    · exact CmdInv_congr base full s _ rfl rfl rfl h

theorem runAll_inv (base full : List PK) (evs : List Ev) (hev : ∀ e ∈ evs, e.internal = true) :
    ∀ s, CmdInv base full s → CmdInv base full (runAll s evs) := by
  induction evs with
  | nil => intro s h; exact h
  | cons e es ih =>
    intro s h
    exact ih (fun x hx => hev x (by simp [hx])) _ (step_inv base full s e (hev e (by simp)) h)

/-- reading a command on an idle connection establishes the invariant for that command -/
theorem cmd_establishes (s : S) (script : List Op) (hidle : s.phase = .idle) (hl : s.lost = false)
    (hlc : ∀ op ∈ script, op.lifecycle = false) :
    CmdInv s.written (emits script) (step s (.cmd script)) := by
  simp only [step, hidle]
  exact runHandler_inv s.written (emits script) script _ hl hlc [] (by simp [S.written]) (by simp)

/-! ### KILL QUERY never ends the connection -/

/-- handler ops that do not by themselves end the connection -/
def Op.benign : Op → Bool
  | .quit => false
  | .raise_ .authFailed => false
  | .raise_ .cancelled => false
  | .raise_ .connLost => false
  | .selfKill .conn => false
  | .call .init _ _ => false
  | .call .close _ _ => false
  | .callRet .init _ => false
  | .callRet .close _ => false
  | _ => true

/-- the parts of the state a benign script leaves alone -/
structure Calm (s s' : S) : Prop where
  mustCancel : s'.mustCancel = s.mustCancel
  kill : s'.kill = s.kill
  lost : s'.lost = s.lost
  eofSeen : s'.eofSeen = s.eofSeen
  cancelReq : s'.cancelReq = s.cancelReq
  executing : s'.executing = s.executing

theorem Calm.refl (s : S) : Calm s s := ⟨rfl, rfl, rfl, rfl, rfl, rfl⟩
theorem Calm.trans {a b c : S} (h1 : Calm a b) (h2 : Calm b c) : Calm a c :=
  ⟨h2.mustCancel.trans h1.mustCancel, h2.kill.trans h1.kill, h2.lost.trans h1.lost, h2.eofSeen.trans h1.eofSeen,
   h2.cancelReq.trans h1.cancelReq, h2.executing.trans h1.executing⟩

theorem flush_calm (s : S) : Calm s (flush s) := by unfold flush; split <;> exact ⟨rfl, rfl, rfl, rfl, rfl, rfl⟩

/-- outcome of a benign fragment on a healthy transport with no cancellation pending: it ends, raises one of the
    script's own exceptions (never `CancelledError`, never a connection error), or parks — leaving the kill state,
    the pending-cancellation flag and the transport flags untouched -/
def BOutcome (lvl : Lvl) (s : S) (exc : Option Exc) (onEnd : S → Option Exc → S) (onThrow : S → Exc → S) (r : S) : Prop :=
  (∃ s', Calm s s' ∧ r = onEnd s' exc) ∨
  (∃ s' e, Calm s s' ∧ (e = .mysqlError ∨ e = .generic) ∧ r = onThrow s' e) ∨
  (∃ w rest, Calm s r ∧ r.phase = .parked lvl w rest exc ∧ (∀ op ∈ rest, op.benign = true))

theorem runOps_benign (lvl : Lvl) (onEnd : S → Option Exc → S) (onThrow : S → Exc → S) (exc : Option Exc) :
    ∀ (ops : List Op) (s : S), s.lost = false → s.mustCancel = false → (∀ op ∈ ops, op.benign = true) →
      BOutcome lvl s exc onEnd onThrow (runOps lvl onEnd onThrow s ops exc) := by
  intro ops
  induction ops with
  | nil => intro s _ _ _; simp only [runOps]; exact Or.inl ⟨s, Calm.refl s, rfl⟩
  | cons op rest ih =>
    intro s hl hm hb
    have hrest : ∀ op ∈ rest, op.benign = true := fun o ho => hb o (by simp [ho])
    have hop := hb op (by simp)
    have lift : ∀ s1 : S, Calm s s1 →
        BOutcome lvl s exc onEnd onThrow (runOps lvl onEnd onThrow s1 rest exc) := by
      intro s1 hc
      rcases ih s1 (by rw [hc.lost]; exact hl) (by rw [hc.mustCancel]; exact hm) hrest with
        ⟨s', h1, hr⟩ | ⟨s', e, h1, he, hr⟩ | ⟨w, r, h1, hph, hbr⟩
      · exact Or.inl ⟨s', hc.trans h1, hr⟩
      · exact Or.inr (Or.inl ⟨s', e, hc.trans h1, he, hr⟩)
      · exact Or.inr (Or.inr ⟨w, r, hc.trans h1, hph, hbr⟩)
    cases op with
    | emit p => simp only [runOps]; exact lift _ ⟨by simp [hm], rfl, rfl, rfl, rfl, rfl⟩
    | drain =>
      simp only [runOps, hl, hm, Bool.false_eq_true, if_false]
      split
      · exact Or.inr (Or.inr ⟨.drain, rest, (flush_calm s).trans ⟨by simp [hm], rfl, rfl, rfl, rfl, rfl⟩, rfl, hrest⟩)
      · exact lift _ (flush_calm s)
    | call c susp raises =>
      have hcl : c ≠ .close := by intro h; subst h; simp [Op.benign] at hop
      have hci : c ≠ .init := by intro h; subst h; simp [Op.benign] at hop
      simp only [runOps, hcl, if_false]
      split
      · split
        · rename_i _ h; rw [hm] at h; cases h
        · refine Or.inr (Or.inr ⟨.future, .callRet c raises :: rest, ⟨rfl, rfl, rfl, rfl, rfl, rfl⟩, rfl, ?_⟩)
          intro o ho
          rcases List.mem_cons.mp ho with rfl | ho
          · cases c <;> simp_all [Op.benign]
          · exact hrest o ho
      · cases raises with
        | true => simp only [runOps, if_true]; exact Or.inr (Or.inl ⟨_, .generic, ⟨rfl, rfl, rfl, rfl, rfl, rfl⟩, Or.inr rfl, rfl⟩)
        | false => simp only [runOps, Bool.false_eq_true, if_false, hci]; exact lift _ ⟨rfl, rfl, rfl, rfl, rfl, rfl⟩
    | callRet c raises =>
      have hci : c ≠ .init := by intro h; subst h; simp [Op.benign] at hop
      cases raises with
      | true => simp only [runOps, if_true]; exact Or.inr (Or.inl ⟨s, .generic, Calm.refl s, Or.inr rfl, rfl⟩)
      | false => simp only [runOps, Bool.false_eq_true, if_false, hci]; exact lift s (Calm.refl s)
    | pull susp =>
      simp only [runOps, hm, Bool.false_eq_true, if_false]
      split
      · exact Or.inr (Or.inr ⟨.future, rest, ⟨by simp [hm], rfl, rfl, rfl, rfl, rfl⟩, rfl, hrest⟩)
      · exact lift s (Calm.refl s)
    | yield_ => simp only [runOps, hm, Bool.false_eq_true, if_false]; exact lift s (Calm.refl s)
    | raise_ e =>
      simp only [runOps]
      cases e with
      | mysqlError => exact Or.inr (Or.inl ⟨s, _, Calm.refl s, Or.inl rfl, rfl⟩)
      | generic => exact Or.inr (Or.inl ⟨s, _, Calm.refl s, Or.inr rfl, rfl⟩)
      | authFailed => simp [Op.benign] at hop
      | cancelled => simp [Op.benign] at hop
      | connLost => simp [Op.benign] at hop
    | selfKill k =>
      cases k with
      | query => simp only [runOps]; exact lift s (Calm.refl s)
      | conn => simp [Op.benign] at hop
    | quit => simp [Op.benign] at hop

def Healthy (s : S) : Prop := s.lost = false ∧ s.eofSeen = false ∧ s.mustCancel = false ∧ s.kill ≠ some .conn

/-- ops of an `except` arm: write and flush -/
def ArmOps (ops : List Op) : Prop := ∀ op ∈ ops, (∃ p, op = .emit p) ∨ op = .drain

/-- running arm ops on a healthy transport with no cancellation pending: the arm ends or parks in its drain; it
    cannot raise -/
theorem runOps_arm (lvl : Lvl) (onEnd : S → Option Exc → S) (onThrow : S → Exc → S) (exc : Option Exc) :
    ∀ (ops : List Op) (s : S), s.lost = false → s.mustCancel = false → ArmOps ops →
      (∃ s', Calm s s' ∧ runOps lvl onEnd onThrow s ops exc = onEnd s' exc) ∨
      (∃ rest, Calm s (runOps lvl onEnd onThrow s ops exc) ∧
        (runOps lvl onEnd onThrow s ops exc).phase = .parked lvl .drain rest exc ∧ ArmOps rest) := by
  intro ops
  induction ops with
  | nil => intro s _ _ _; exact Or.inl ⟨s, Calm.refl s, by simp [runOps]⟩
  | cons op rest ih =>
    intro s hl hm ha
    have hrest : ArmOps rest := fun o ho => ha o (by simp [ho])
    rcases ha op (by simp) with ⟨p, rfl⟩ | rfl
    · simp only [runOps]
      have hc0 : Calm s { s with buf := s.buf ++ [p] } := ⟨rfl, rfl, rfl, rfl, rfl, rfl⟩
      rcases ih { s with buf := s.buf ++ [p] } hl hm hrest with ⟨s', hc, hr⟩ | ⟨r, hc, hph, har⟩
      · exact Or.inl ⟨s', hc0.trans hc, hr⟩
      · exact Or.inr ⟨r, hc0.trans hc, hph, har⟩
    · simp only [runOps, hl, Bool.false_eq_true, if_false]
      have hfl : (flush s).lost = false := by simp [flush, hl]
      have hfm : (flush s).mustCancel = false := by rw [(flush_calm s).mustCancel]; exact hm
      split
      · split
        · rename_i _ hmc; rw [hm] at hmc; cases hmc
        · have hc1 : Calm (flush s) { (flush s) with phase := .parked lvl .drain rest exc } := ⟨rfl, rfl, rfl, rfl, rfl, rfl⟩
          exact Or.inr ⟨rest, (flush_calm s).trans hc1, rfl, hrest⟩
      · rcases ih (flush s) hfl hfm hrest with ⟨s', hc, hr⟩ | ⟨r, hc, hph, har⟩
        · exact Or.inl ⟨s', (flush_calm s).trans hc, hr⟩
        · exact Or.inr ⟨r, (flush_calm s).trans hc, hph, har⟩

end Mimic.Conn
