import Mimic.Cursor
import Mimic.Script
import Mimic.Extracted.HandlersCode
/-!
The translated statement handlers of `connection.py` (`Mimic.Extracted.HandlersCode`, regenerated from `/repo` by
`harness/pytrans3.py`) refine the cursor model `Mimic.Cursor`.

`abs row c` reads a model registry off the code's connection object: the prepared statements of the dictionary, each
with its cursor; a packet `p` of a cursor is the model's row `row p` (`row : Bytes → Nat` is arbitrary: the theorems hold
for every naming of packets, injective ones included, so nothing is lost).
-/
namespace MimicProofs.HandlersCode
open Mimic.Py Mimic.Extracted.HandlersCode
open Mimic.Extracted.ParsersCode (ComQuery ComFieldList ComStmtFetch ComStmtReset ComStmtClose ComStmtSendLongData parse_handle_stmt_fetch parse_com_stmt_reset parse_com_stmt_close parse_com_stmt_send_long_data)

/-! ### dictionaries -/

theorem find_map_replace {ν : Type} (d : List (Nat × ν)) (k k' : Nat) (v : ν) :
    ((d.map (fun x => if x.1 = k then (x.1, v) else x)).find? (fun x => x.1 = k')).map Prod.snd
      = if k' = k then (d.find? (fun x => x.1 = k)).map (fun _ => v) else (d.find? (fun x => x.1 = k')).map Prod.snd := by
  induction d with
  | nil => simp
  | cons x xs ih =>
    simp only [List.map_cons, List.find?_cons]
    by_cases hx : x.1 = k
    · by_cases hk : k' = k
      · subst hk; simp [hx]
      · have : ¬ k = k' := fun e => hk e.symm
        simp only [hx, if_true, this, decide_false, hk, if_false] at ih ⊢
        exact ih
    · simp only [hx, if_false]
      by_cases hk : k' = k
      · subst hk; simp only [hx, decide_false, if_true] at ih ⊢; exact ih
      · simp only [hk, if_false] at ih ⊢
        by_cases e : x.1 = k'
        · simp [e]
        · simp only [e, decide_false]; exact ih

theorem dictGet_dictSet {ν : Type} (d : List (Nat × ν)) (k k' : Nat) (v : ν) :
    dictGet (dictSet d k v) k' = if k' = k then some v else dictGet d k' := by
  unfold dictSet dictGet
  split
  · rename_i h
    rw [find_map_replace]
    by_cases hk : k' = k
    · subst hk
      simp only [if_true]
      rw [List.any_eq_true] at h
      obtain ⟨y, hy, hyk⟩ := h
      cases hf : List.find? (fun x => decide (x.1 = k')) d with
      | none => rw [List.find?_eq_none] at hf; exact absurd hyk (by simpa using hf y hy)
      | some z => rfl
    · simp only [hk, if_false]
  · rename_i h
    rw [List.find?_append]
    have hn : d.find? (fun x => decide (x.1 = k)) = none := by
      rw [List.find?_eq_none]; intro y hy hyk
      apply h; rw [List.any_eq_true]; exact ⟨y, hy, hyk⟩
    by_cases hk : k' = k
    · subst hk; simp [hn]
    · have : ¬ k = k' := fun e => hk e.symm
      simp [hk, this]


theorem dictSet_dictSet {ν : Type} (d : List (Nat × ν)) (k : Nat) (v w : ν) :
    dictSet (dictSet d k v) k w = dictSet d k w := by
  unfold dictSet
  by_cases h : d.any (fun x => decide (x.1 = k)) = true
  · have h2 : (d.map (fun x => if x.1 = k then (x.1, v) else x)).any (fun x => decide (x.1 = k)) = true := by
      rw [List.any_eq_true] at h ⊢
      obtain ⟨y, hy, hyk⟩ := h
      refine ⟨(y.1, v), ?_, by simpa using hyk⟩
      rw [List.mem_map]; exact ⟨y, hy, by simp [of_decide_eq_true hyk]⟩
    simp only [h, h2, if_true, List.map_map]
    apply List.map_congr_left
    intro y _
    by_cases e : y.1 = k <;> simp [e]
  · have h2 : (d ++ [(k, v)]).any (fun x => decide (x.1 = k)) = true := by simp
    simp only [h, h2, if_true, Bool.false_eq_true, if_false, List.map_append, List.map_cons, List.map_nil]
    congr 1
    · have : ∀ y ∈ d, ¬ y.1 = k := by
        intro y hy e; apply h; rw [List.any_eq_true]; exact ⟨y, hy, by simp [e]⟩
      calc d.map (fun x => if x.1 = k then (x.1, w) else x) = d.map id := by
            apply List.map_congr_left; intro y hy; simp [this y hy]
        _ = d := List.map_id d

theorem dictGet_dictErase {ν : Type} (d : List (Nat × ν)) (k k' : Nat) :
    dictGet (dictErase d k) k' = if k' = k then none else dictGet d k' := by
  unfold dictErase dictGet
  induction d with
  | nil => simp
  | cons x xs ih =>
    by_cases hx : x.1 = k
    · simp only [List.filter_cons, hx, ne_eq, not_true_eq_false, decide_false, List.find?_cons]
      by_cases hk : k' = k
      · simp only [hk, if_true] at ih ⊢; exact ih
      · have : ¬ k = k' := fun e => hk e.symm
        simp only [hk, if_false, this, decide_false] at ih ⊢; exact ih
    · simp only [List.filter_cons, hx, ne_eq, not_false_eq_true, decide_true, if_true, List.find?_cons]
      by_cases e : x.1 = k'
      · have : ¬ k' = k := fun h => hx (e.trans h)
        simp [e, this]
      · simp only [e, decide_false]; exact ih

variable {S : Type} [DecidableEq S]

/-! ### the fetch loop -/

/-- the connection after a fetch loop that wrote the packets `ps` and left the generator `g` in statement `key` -/
def after (self : Connection S) (stmt : PreparedStatement S) (key : Nat) (ps : List Bytes) (g : Gen Bytes) :
    Connection S × PreparedStatement S :=
  let stmt' : PreparedStatement S := { stmt with cursor := some g }
  ({ self with out := self.out ++ ps.map (fun p => Ev.write p false),
               prepared_stmts := dictSet self.prepared_stmts key stmt' }, stmt')

theorem iter_exact (f : ComStmtFetch S) (key : Nat) :
    ∀ (rows : List Bytes) (boom : Bool) (self : Connection S) (stmt : PreparedStatement S) (count : Nat), count < f.num_rows →
      Gen.iterE (Connection_handle_stmt_fetch_loop2 key) Connection_handle_stmt_fetch_loop3 (Connection_handle_stmt_fetch_loop1 f)
          rows boom (self, stmt, count)
        = if f.num_rows - count ≤ rows.length then
            .ok (.brk ((after self stmt key (rows.take (f.num_rows - count)) ⟨rows.drop (f.num_rows - count), boom⟩).1,
                       (after self stmt key (rows.take (f.num_rows - count)) ⟨rows.drop (f.num_rows - count), boom⟩).2, f.num_rows))
          else if boom then .error (after self stmt key rows ⟨[], false⟩).1
          else .ok (.brk ((after self stmt key rows ⟨[], false⟩).1, (after self stmt key rows ⟨[], false⟩).2, count + rows.length)) := by
  intro rows
  induction rows with
  | nil =>
    intro boom self stmt count h
    have : ¬ f.num_rows - count ≤ 0 := by omega
    simp only [Gen.iterE, List.length_nil, this, if_false, Connection_handle_stmt_fetch_loop2, Connection_handle_stmt_fetch_loop3, after,
      List.map_nil, List.append_nil, Nat.add_zero]
  | cons x rest ih =>
    intro boom self stmt count h
    simp only [Gen.iterE, Connection_handle_stmt_fetch_loop2, Connection_handle_stmt_fetch_loop1]
    by_cases hlast : count + 1 ≥ f.num_rows
    · have hk : f.num_rows - count = 1 := by omega
      simp only [hlast, decide_true, if_true, hk, List.length_cons, Nat.le_add_left, List.take_succ_cons, List.take_zero,
        List.drop_succ_cons, List.drop_zero, after, List.map_cons, List.map_nil]
      have : count + 1 = f.num_rows := by omega
      rw [this]
    · simp only [hlast, decide_false, if_false, Bool.false_eq_true]
      rw [ih boom _ _ (count + 1) (by omega)]
      have hk : f.num_rows - count = (f.num_rows - (count + 1)) + 1 := by omega
      rw [hk]
      simp only [List.length_cons, Nat.add_le_add_iff_right, List.take_succ_cons, List.drop_succ_cons, after, dictSet_dictSet,
        List.map_cons, List.append_assoc, List.singleton_append]
      have hc : count + 1 + rest.length = count + (rest.length + 1) := by omega
      rw [hc]

/-! ### abstraction to the cursor model -/

def absGen (row : Bytes → Nat) (g : Gen Bytes) : Mimic.Cursor.Src := { rows := g.rows.map row, boom := g.boom }
def absStmt (row : Bytes → Nat) (p : PreparedStatement S) : Mimic.Cursor.Stmt := { cursor := p.cursor.map (absGen row) }
/-- the model's registry function read off the connection's dictionary -/
def absStmts (row : Bytes → Nat) (c : Connection S) : Nat → Option Mimic.Cursor.Stmt :=
  fun k => (dictGet c.prepared_stmts k).map (absStmt row)

def flagBits : Mimic.Cursor.Flag → Nat
  | .cursorExists => 64
  | .lastRowSent => 128

/-- what a handler run `res` from connection `c` must look like for the model's step result `m` (new registry, outcome) -/
def Spec (row : Bytes → Nat) (c : Connection S) (res : Except (Connection S) (Connection S)) (m : Mimic.Cursor.Reg × Mimic.Cursor.Out) : Prop :=
  match m.2, res with
  | .rows rs fl, .ok c' =>
      absStmts row c' = m.1.stmts ∧ c'.capabilities = c.capabilities ∧ c'.status_flags = c.status_flags ∧
      ∃ ps : List Bytes, ps.map row = rs ∧ ∃ a l w : Nat,      -- counters of the terminator: not the property's business
        c'.out = c.out ++ ps.map (fun p => Ev.write p false) ++ [Ev.drain, Ev.write (ok_or_eof c a l w (flagBits fl)) true]
  | .rowsErr rs, .error c' =>
      absStmts row c' = m.1.stmts ∧ c'.capabilities = c.capabilities ∧ c'.status_flags = c.status_flags ∧
      ∃ ps : List Bytes, ps.map row = rs ∧ c'.out = c.out ++ ps.map (fun p => Ev.write p false)
  | .err, .error c' => c' = c ∧ absStmts row c = m.1.stmts
  | .ok, .ok c' =>
      absStmts row c' = m.1.stmts ∧ c'.capabilities = c.capabilities ∧ c'.status_flags = c.status_flags ∧
      ∃ (e : Bool) (a l w f : Nat), c'.out = c.out ++ [Ev.session_reset, Ev.write (ok c e a l w f) true]
  | .none, .ok c' =>
      absStmts row c' = m.1.stmts ∧ c'.capabilities = c.capabilities ∧ c'.status_flags = c.status_flags ∧ c'.out = c.out
  | _, _ => False

theorem ok_or_eof_congr (c c' : Connection S) (h1 : c'.capabilities = c.capabilities) (h2 : c'.status_flags = c.status_flags) (a b w fl : Nat) :
    ok_or_eof c' a b w fl = ok_or_eof c a b w fl := by
  unfold ok_or_eof deprecate_eof ok eof
  rw [h1, h2]

theorem get_stmt_eq (c : Connection S) (k : Nat) : get_stmt c k = dictGet c.prepared_stmts k := by
  unfold get_stmt
  cases h : dictGet c.prepared_stmts k <;> simp

theorem absStmts_after (row : Bytes → Nat) (c : Connection S) (stmt : PreparedStatement S) (key : Nat) (ps : List Bytes) (g : Gen Bytes)
    (hget : dictGet c.prepared_stmts key = some stmt) (src : Mimic.Cursor.Src) (hs : absGen row g = src) :
    absStmts row (after c stmt key ps g).1 = Mimic.Cursor.upd (absStmts row c) key (some { cursor := some src }) := by
  funext k
  simp only [absStmts, after, dictGet_dictSet, Mimic.Cursor.upd]
  by_cases hk : k = key
  · simp [hk, absStmt, hs]
  · simp [hk]

/-- **`Connection.handle_stmt_fetch`, translated, is the model's `fetch` step**: same registry afterwards (the cursor of the
    addressed statement advanced by exactly the rows sent, every other statement untouched), the rows written are the next
    rows of that cursor in order, followed by a drain and one terminator whose status flag is `CURSOR_EXISTS` when the
    fetch was filled and `LAST_ROW_SENT` when the cursor ran dry; a raising row source leaves the rows sent so far and an
    exhausted cursor; an unknown statement id or a statement without cursor changes nothing. -/
theorem handle_stmt_fetch_refines (row : Bytes → Nat) (c : Connection S) (data : Bytes) (f : ComStmtFetch S) (nxt : Nat)
    (hp : parse_handle_stmt_fetch (S := S) data = some f) :
    Spec row c (handle_stmt_fetch c data) (Mimic.Cursor.step ⟨absStmts row c, nxt⟩ (.fetch f.stmt_id f.num_rows)) := by
  unfold handle_stmt_fetch
  simp only [hp, get_stmt_eq]
  cases hget : dictGet c.prepared_stmts f.stmt_id with
  | none => simp [Spec, Mimic.Cursor.step, absStmts, hget]
  | some stmt =>
    cases hcur : stmt.cursor with
    | none => simp [Spec, Mimic.Cursor.step, absStmts, hget, absStmt, hcur]
    | some g =>
      have habs : absStmts row c f.stmt_id = some (absStmt row stmt) := by simp [absStmts, hget]
      simp only [hcur, Option.isNone_some, Bool.false_eq_true, if_false]
      by_cases hn : f.num_rows > 0
      · simp only [hn, decide_true, if_true, iter_exact f f.stmt_id g.rows g.boom c stmt 0 hn, Nat.sub_zero, Nat.zero_add]
        by_cases h1 : f.num_rows ≤ g.rows.length
        · simp only [h1, if_true, Nat.lt_irrefl, decide_false, Bool.false_eq_true, if_false]
          simp only [Spec, Mimic.Cursor.step, habs, absStmt, hcur, Option.map_some, absGen, Mimic.Cursor.fetchSrc, List.length_map, h1, if_true]
          refine ⟨?_, rfl, rfl, g.rows.take f.num_rows, ?_, ?_⟩
          · exact absStmts_after row c stmt f.stmt_id (g.rows.take f.num_rows) ⟨g.rows.drop f.num_rows, g.boom⟩ hget _ (by simp [absGen, List.map_drop])
          · simp [List.map_take]
          · exact ⟨_, _, _, by simp only [after, flagBits, List.append_assoc, List.cons_append, List.nil_append]; rfl⟩
        · simp only [h1, if_false]
          cases hb : g.boom with
          | true =>
            simp only [if_true]
            simp only [Spec, Mimic.Cursor.step, habs, absStmt, hcur, Option.map_some, absGen, Mimic.Cursor.fetchSrc, List.length_map, h1, if_false, hb, if_true]
            refine ⟨?_, rfl, rfl, g.rows, rfl, ?_⟩
            · exact absStmts_after row c stmt f.stmt_id g.rows ⟨[], false⟩ hget _ (by simp [absGen])
            · simp [after]
          | false =>
            have hlt : g.rows.length < f.num_rows := by omega
            simp only [Bool.false_eq_true, if_false, hlt, decide_true, if_true]
            simp only [Spec, Mimic.Cursor.step, habs, absStmt, hcur, Option.map_some, absGen, Mimic.Cursor.fetchSrc, List.length_map, h1, if_false, hb, Bool.false_eq_true]
            refine ⟨?_, rfl, rfl, g.rows, rfl, ?_⟩
            · exact absStmts_after row c stmt f.stmt_id g.rows ⟨[], false⟩ hget _ (by simp [absGen])
            · exact ⟨_, _, _, by simp only [after, flagBits, List.append_assoc, List.cons_append, List.nil_append]; rfl⟩
      · have h0 : f.num_rows = 0 := by omega
        simp only [hn, decide_false, Bool.false_eq_true, if_false, h0, Nat.lt_irrefl]
        simp only [Spec, Mimic.Cursor.step, habs, absStmt, hcur, Option.map_some, absGen, Mimic.Cursor.fetchSrc, Nat.zero_le, if_true, List.take_zero, List.drop_zero]
        refine ⟨?_, trivial, trivial, [], rfl, ?_⟩
        · funext k
          simp only [Mimic.Cursor.upd]
          by_cases hk : k = f.stmt_id
          · simp [absStmts, hk, hget, absStmt, hcur, absGen]
          · simp [absStmts, hk]
        · exact ⟨_, _, _, by simp only [flagBits, List.map_nil, List.append_nil, List.append_assoc, List.cons_append, List.nil_append]; rfl⟩

/-- **`Connection.handle_stmt_reset`, translated, is the model's `reset` step**: the cursor of the addressed statement is
    dropped (and its long-data buffers, see `handle_stmt_reset_clears_buffers`), the session's `reset` is awaited, one OK is
    written; an unknown id changes nothing and raises. -/
theorem handle_stmt_reset_refines (row : Bytes → Nat) (c : Connection S) (data : Bytes) (f : ComStmtReset S) (nxt : Nat)
    (hp : parse_com_stmt_reset (S := S) data = some f) :
    Spec row c (handle_stmt_reset c data) (Mimic.Cursor.step ⟨absStmts row c, nxt⟩ (.reset f.stmt_id)) := by
  unfold handle_stmt_reset
  simp only [hp, get_stmt_eq]
  cases hget : dictGet c.prepared_stmts f.stmt_id with
  | none => simp [Spec, Mimic.Cursor.step, absStmts, hget]
  | some stmt =>
    have habs : absStmts row c f.stmt_id = some (absStmt row stmt) := by simp [absStmts, hget]
    simp only [Spec, Mimic.Cursor.step, habs, dictSet_dictSet]
    refine ⟨?_, trivial, trivial, ?_⟩
    · funext k
      simp only [absStmts, dictGet_dictSet, Mimic.Cursor.upd]
      by_cases hk : k = f.stmt_id
      · simp [hk, absStmt]
      · simp [hk]
    · exact ⟨_, _, _, _, _, by simp only [List.append_assoc, List.cons_append, List.nil_append]; rfl⟩

/-- after COM_STMT_RESET the statement has neither long data nor a cursor, and keeps its text and parameter count -/
theorem handle_stmt_reset_clears_buffers (c : Connection S) (data : Bytes) (f : ComStmtReset S) (stmt : PreparedStatement S)
    (hp : parse_com_stmt_reset (S := S) data = some f) (hget : dictGet c.prepared_stmts f.stmt_id = some stmt) :
    ∃ c', handle_stmt_reset c data = .ok c' ∧
      dictGet c'.prepared_stmts f.stmt_id = some { stmt with param_buffers := none, cursor := none } := by
  unfold handle_stmt_reset
  simp only [hp, get_stmt_eq, hget, dictSet_dictSet]
  exact ⟨_, rfl, by simp [dictGet_dictSet]⟩

/-- **`Connection.handle_stmt_close`, translated, is the model's `close` step**: the statement is forgotten, nothing is
    written (COM_STMT_CLOSE has no response), every other statement is untouched -/
theorem handle_stmt_close_refines (row : Bytes → Nat) (c : Connection S) (data : Bytes) (f : ComStmtClose S) (nxt : Nat)
    (hp : parse_com_stmt_close (S := S) data = some f) :
    Spec row c (handle_stmt_close c data) (Mimic.Cursor.step ⟨absStmts row c, nxt⟩ (.close f.stmt_id)) := by
  unfold handle_stmt_close
  simp only [hp, Spec, Mimic.Cursor.step]
  refine ⟨?_, trivial, trivial, trivial⟩
  funext k
  simp only [absStmts, dictGet_dictErase, Mimic.Cursor.upd]
  by_cases hk : k = f.stmt_id <;> simp [hk]

/-- a malformed packet of any of the four commands raises before anything is changed or written -/
theorem malformed_changes_nothing (c : Connection S) (data : Bytes) :
    (parse_handle_stmt_fetch (S := S) data = none → handle_stmt_fetch c data = .error c) ∧
    (parse_com_stmt_reset (S := S) data = none → handle_stmt_reset c data = .error c) ∧
    (parse_com_stmt_close (S := S) data = none → handle_stmt_close c data = .error c) ∧
    (parse_com_stmt_send_long_data (S := S) data = none → handle_stmt_send_long_data c data = .error c) := by
  refine ⟨?_, ?_, ?_, ?_⟩ <;> intro h
  · unfold handle_stmt_fetch; simp only [h]
  · unfold handle_stmt_reset; simp only [h]
  · unfold handle_stmt_close; simp only [h]
  · unfold handle_stmt_send_long_data; simp only [h]

/-! ### long data -/

/-- the long data accumulated for parameter `pid` of a statement -/
def bufOf (p : PreparedStatement S) (pid : Nat) : Option Bytes :=
  match p.param_buffers with
  | none => none
  | some d => dictGet d pid

/-- **`Connection.handle_stmt_send_long_data`, translated**: for a known statement the chunk is appended to what was
    already sent for that parameter (first chunk: to the empty string), every other parameter, the cursor, the statement
    text and every other statement are untouched, and nothing is written; for an unknown statement nothing happens at
    all (the command has no response, not even an error). -/
theorem handle_stmt_send_long_data_spec (c : Connection S) (data : Bytes) (f : ComStmtSendLongData S)
    (hp : parse_com_stmt_send_long_data (S := S) data = some f) :
    match dictGet c.prepared_stmts f.stmt_id with
    | none => handle_stmt_send_long_data c data = .ok c
    | some stmt =>
      ∃ c' stmt', handle_stmt_send_long_data c data = .ok c' ∧ c'.out = c.out ∧ c'.capabilities = c.capabilities ∧
        c'.status_flags = c.status_flags ∧
        (∀ k, k ≠ f.stmt_id → dictGet c'.prepared_stmts k = dictGet c.prepared_stmts k) ∧
        dictGet c'.prepared_stmts f.stmt_id = some stmt' ∧ stmt'.cursor = stmt.cursor ∧ stmt'.sql = stmt.sql ∧
        stmt'.num_params = stmt.num_params ∧ stmt'.stmt_id = stmt.stmt_id ∧
        ∀ pid, bufOf stmt' pid = if pid = f.param_id then some ((bufOf stmt pid).getD [] ++ f.data) else bufOf stmt pid := by
  unfold handle_stmt_send_long_data
  simp only [hp]
  cases hget : dictGet c.prepared_stmts f.stmt_id with
  | none => rfl
  | some stmt =>
    cases hb : stmt.param_buffers with
    | none =>
      simp only [hb, Option.isNone_none, if_true, dictSet_dictSet]
      refine ⟨_, { stmt with param_buffers := some (dictSet [] f.param_id (((dictGet ([] : List (Nat × Bytes)) f.param_id).getD []) ++ f.data)) }, rfl, rfl, rfl, rfl, ?_, ?_, rfl, rfl, rfl, rfl, ?_⟩
      · intro k hk; simp [dictGet_dictSet, hk]
      · simp [dictGet_dictSet]
      · intro pid
        simp only [bufOf, hb, dictGet_dictSet]
        by_cases hk : pid = f.param_id <;> simp [hk, dictGet]
    | some bufs =>
      simp only [hb, Option.isNone_some, Bool.false_eq_true, if_false]
      refine ⟨_, { stmt with param_buffers := some (dictSet bufs f.param_id (((dictGet bufs f.param_id).getD []) ++ f.data)) }, rfl, rfl, rfl, rfl, ?_, ?_, rfl, rfl, rfl, rfl, ?_⟩
      · intro k hk; simp [dictGet_dictSet, hk]
      · simp [dictGet_dictSet]
      · intro pid
        simp only [bufOf, hb, dictGet_dictSet]
        by_cases hk : pid = f.param_id <;> simp [hk]

/-! ### successive fetches, on the bytes themselves -/

/-- the packets a fetch writes: the rows (buffered), a drain, the terminator with its status flag -/
def fetchOut (c : Connection S) (ps : List Bytes) (a l w fl : Nat) : List (Ev S) :=
  ps.map (fun p => Ev.write p false) ++ [Ev.drain, Ev.write (ok_or_eof c a l w fl) true]

/-- one COM_STMT_FETCH on a statement whose cursor does not raise, stated on the code's own objects -/
theorem handle_stmt_fetch_exact (c : Connection S) (data : Bytes) (f : ComStmtFetch S) (stmt : PreparedStatement S) (rows : List Bytes)
    (hp : parse_handle_stmt_fetch (S := S) data = some f) (hget : dictGet c.prepared_stmts f.stmt_id = some stmt)
    (hcur : stmt.cursor = some ⟨rows, false⟩) :
    ∃ c' a l w, handle_stmt_fetch c data = .ok c' ∧ c'.capabilities = c.capabilities ∧ c'.status_flags = c.status_flags ∧
      c'.out = c.out ++ fetchOut c (rows.take f.num_rows) a l w (if rows.length < f.num_rows then 128 else 64) ∧
      (∀ k, k ≠ f.stmt_id → dictGet c'.prepared_stmts k = dictGet c.prepared_stmts k) ∧
      dictGet c'.prepared_stmts f.stmt_id = some { stmt with cursor := some ⟨rows.drop f.num_rows, false⟩ } := by
  unfold handle_stmt_fetch
  simp only [hp, get_stmt_eq, hget, hcur, Option.isNone_some, Bool.false_eq_true, if_false]
  by_cases hn : f.num_rows > 0
  · simp only [hn, decide_true, if_true, iter_exact f f.stmt_id rows false c stmt 0 hn, Nat.sub_zero, Nat.zero_add]
    by_cases h1 : f.num_rows ≤ rows.length
    · have hlt : ¬ rows.length < f.num_rows := by omega
      simp only [h1, if_true, Nat.lt_irrefl, decide_false, Bool.false_eq_true, if_false, hlt]
      refine ⟨_, ?a, ?l, ?w, rfl, rfl, rfl, ?out, ?_, ?_⟩
      case out => simp only [after, fetchOut, List.append_assoc, List.cons_append, List.nil_append]; rfl
      · intro k hk; simp [after, dictGet_dictSet, hk]
      · simp [after, dictGet_dictSet]
    · have hlt : rows.length < f.num_rows := by omega
      simp only [h1, if_false, Bool.false_eq_true, hlt, decide_true, if_true]
      refine ⟨_, ?a, ?l, ?w, rfl, rfl, rfl, ?out, ?_, ?_⟩
      case out => simp only [after, fetchOut, List.append_assoc, List.cons_append, List.nil_append, List.take_of_length_le (Nat.le_of_lt hlt)]; rfl
      · intro k hk; simp [after, dictGet_dictSet, hk]
      · simp [after, dictGet_dictSet, List.drop_of_length_le (Nat.le_of_lt hlt)]
  · have h0 : f.num_rows = 0 := by omega
    have hlt : ¬ rows.length < 0 := by omega
    simp only [hn, decide_false, Bool.false_eq_true, if_false, h0, Nat.lt_irrefl, List.take_zero, List.drop_zero, hlt]
    refine ⟨_, ?a, ?l, ?w, rfl, rfl, rfl, ?out, ?_, ?_⟩
    case out => simp only [fetchOut, List.map_nil, List.nil_append, List.append_assoc, List.cons_append]; rfl
    · intro k _; rfl
    · show dictGet c.prepared_stmts f.stmt_id = _
      rw [hget, ← hcur]

/-- the rows written by a handler (buffered writes; terminators are written with a drain) -/
def rowsOut : List (Ev S) → List Bytes
  | [] => []
  | .write p false :: rest => p :: rowsOut rest
  | _ :: rest => rowsOut rest

theorem rowsOut_append (a b : List (Ev S)) : rowsOut (a ++ b) = rowsOut a ++ rowsOut b := by
  induction a with
  | nil => rfl
  | cons x xs ih =>
    cases x with
    | write p d => cases d <;> simp [rowsOut, ih]
    | drain => simp [rowsOut, ih]
    | session_reset => simp [rowsOut, ih]
    | reset_seq => simp [rowsOut, ih]
    | session_use d => simp [rowsOut, ih]

theorem rowsOut_fetchOut (c : Connection S) (ps : List Bytes) (a l w fl : Nat) : rowsOut (fetchOut c ps a l w fl) = ps := by
  unfold fetchOut
  rw [rowsOut_append]
  have : rowsOut (S := S) (ps.map (fun p => Ev.write p false)) = ps := by
    induction ps with
    | nil => rfl
    | cons p ps ih => simp [rowsOut, ih]
  simp [this, rowsOut]

/-- a command sequence as the command loop runs it: after an exception the connection goes on from the state at the raise -/
def runFetches (c : Connection S) : List Bytes → Connection S
  | [] => c
  | d :: ds => runFetches (match handle_stmt_fetch c d with | .ok c' => c' | .error c' => c') ds

/-- **Every row exactly once, in order, for every sequence of fetch sizes** — on the translated code: after any number of
    COM_STMT_FETCH packets for one statement (sizes `ns`, zeros included, sizes beyond the end included) the rows written
    are exactly the first `ns.sum` rows of the cursor in order, and the cursor holds exactly the rest. -/
theorem code_fetches_in_order (id : Nat) :
    ∀ (pkts : List (Bytes × ComStmtFetch S)) (c : Connection S) (stmt : PreparedStatement S) (rows : List Bytes),
      (∀ x ∈ pkts, parse_handle_stmt_fetch (S := S) x.1 = some x.2 ∧ x.2.stmt_id = id) →
      dictGet c.prepared_stmts id = some stmt → stmt.cursor = some ⟨rows, false⟩ →
      let c' := runFetches c (pkts.map (·.1))
      let n := (pkts.map (·.2.num_rows)).sum
      (∃ tail, c'.out = c.out ++ tail ∧ rowsOut tail = rows.take n) ∧
      dictGet c'.prepared_stmts id = some { stmt with cursor := some ⟨rows.drop n, false⟩ } ∧
      (∀ k, k ≠ id → dictGet c'.prepared_stmts k = dictGet c.prepared_stmts k) := by
  intro pkts
  induction pkts with
  | nil =>
    intro c stmt rows _ hget hcur
    simp only [List.map_nil, runFetches, List.sum_nil, List.take_zero, List.drop_zero]
    refine ⟨⟨[], by simp [rowsOut]⟩, ?_, by simp⟩
    rw [hget, ← hcur]
  | cons x xs ih =>
    intro c stmt rows hall hget hcur
    obtain ⟨hp, hid⟩ := hall x (List.mem_cons_self ..)
    subst hid
    obtain ⟨c1, a, l, w, hrun, _, _, hout, hother, hself⟩ := handle_stmt_fetch_exact c x.1 x.2 stmt rows hp hget hcur
    have ih' := ih c1 { stmt with cursor := some ⟨rows.drop x.2.num_rows, false⟩ } (rows.drop x.2.num_rows)
      (fun y hy => hall y (List.mem_cons_of_mem _ hy)) hself rfl
    simp only [List.map_cons, runFetches, hrun, List.sum_cons]
    obtain ⟨⟨tail, h1, h1r⟩, h2, h3⟩ := ih'
    refine ⟨⟨fetchOut c (rows.take x.2.num_rows) a l w (if rows.length < x.2.num_rows then 128 else 64) ++ tail, by rw [h1, hout, List.append_assoc], ?_⟩, ?_, ?_⟩
    · rw [rowsOut_append, rowsOut_fetchOut, h1r, List.take_add]
    · rw [h2]; simp [List.drop_drop, Nat.add_comm]
    · intro k hk; rw [h3 k hk, hother k hk]

/-! ### COM_STMT_PREPARE -/

theorem forM_append_const {α β : Type} (x : β) : ∀ (l : List α) (acc : List β),
    Mimic.Py.forM l acc (fun _ y => some (y ++ [x])) = some (acc ++ List.replicate l.length x) := by
  intro l
  induction l with
  | nil => intro acc; simp [Mimic.Py.forM]
  | cons a as ih =>
    intro acc
    simp only [Mimic.Py.forM, ih, List.length_cons, List.replicate_succ, List.append_assoc, List.singleton_append]

/-- the packets announced for a prepared statement: the prepare-OK, one definition per placeholder, and the EOF that
    closes the definitions unless the client deprecated it (`w`, `f`: its warning count and extra status flags); nothing
    after the prepare-OK for a statement without placeholders -/
def prepareResponse (pc : Nat → Bytes) (c : Connection S) (st : PreparedStatement S) (w f : Nat) : List Bytes :=
  make_com_stmt_prepare_ok st ::
    (if st.num_params = 0 then [] else List.replicate st.num_params (pc c.server_charset) ++ (if deprecate_eof c then [] else [eof c w f]))

theorem com_stmt_prepare_response_eq (pc : Nat → Bytes) (c : Connection S) (st : PreparedStatement S) :
    ∃ w f : Nat, com_stmt_prepare_response pc c st = some (prepareResponse pc c st w f) := by
  unfold com_stmt_prepare_response prepareResponse
  by_cases h0 : st.num_params = 0
  · exact ⟨0, 0, by simp [h0]⟩
  · have hne : (st.num_params != 0) = true := by simp [h0]
    have hl : Connection_com_stmt_prepare_response_loop1 pc c = (fun (_ : Nat) (y : List Bytes) => some (y ++ [pc c.server_charset])) := by
      funext a y; rfl
    simp only [hne, if_true, hl, forM_append_const, List.length_range, h0, if_false, List.nil_append, List.singleton_append]
    cases hd : deprecate_eof c
    · exact ⟨_, _, by simp only [Bool.not_false, if_true, List.cons_append, List.nil_append, Bool.false_eq_true, if_false]; rfl⟩
    · exact ⟨0, 0, by simp⟩

theorem seq_next_fst (q : seq S) : (seq_next q).1 = q.value := by
  unfold seq_next; rfl

/-- **`Connection.handle_stmt_prepare`, translated**: the statement gets the next id of the sequence, is registered under it
    with the decoded text, as many parameters as the text has placeholders, no long data and no cursor; the sequence
    advances; the response — prepare-OK carrying that id and count, one definition per placeholder, closing EOF — is
    written buffered and then drained; an undecodable text raises before anything changes. -/
theorem handle_stmt_prepare_spec (E : Env S) (cp : S → Nat) (pc : Nat → Bytes) (c : Connection S) (data : Bytes) :
    match E.decode c.client_charset data with
    | none => handle_stmt_prepare E cp pc c data = .error c
    | some sql =>
      let st : PreparedStatement S := { stmt_id := c.prepared_stmt_seq.value, sql := sql, num_params := cp sql, param_buffers := none, cursor := none }
      ∃ c' w f, handle_stmt_prepare E cp pc c data = .ok c' ∧
        c'.prepared_stmts = dictSet c.prepared_stmts c.prepared_stmt_seq.value st ∧
        c'.prepared_stmt_seq = (seq_next c.prepared_stmt_seq).2 ∧
        c'.capabilities = c.capabilities ∧ c'.status_flags = c.status_flags ∧
        c'.out = c.out ++ (prepareResponse pc c st w f).map (fun p => Ev.write p false) ++ [Ev.drain] := by
  unfold handle_stmt_prepare
  cases hd : E.decode c.client_charset data with
  | none => rfl
  | some sql =>
    simp only
    cases hq : seq_next c.prepared_stmt_seq with
    | mk v it =>
      have hv : v = c.prepared_stmt_seq.value := by
        have := congrArg Prod.fst hq; rw [seq_next_fst] at this; exact this.symm
      subst hv
      simp only
      obtain ⟨w, f, hr⟩ := com_stmt_prepare_response_eq pc
        ({ c with prepared_stmt_seq := it, prepared_stmts := dictSet c.prepared_stmts c.prepared_stmt_seq.value (⟨c.prepared_stmt_seq.value, sql, cp sql, none, none⟩ : PreparedStatement S) } : Connection S)
        (⟨c.prepared_stmt_seq.value, sql, cp sql, none, none⟩ : PreparedStatement S)
      rw [hr]
      exact ⟨_, w, f, rfl, rfl, rfl, rfl, rfl, rfl⟩

/-- the sequence of statement ids: with size `n > 0` the next value is `(v + 1) % n` -/
theorem seq_next_value (q : seq S) (n : Nat) (hn : 0 < n) (hs : q.size = some n) :
    (seq_next q).1 = q.value ∧ (seq_next q).2.value = (q.value + 1) % n ∧ (seq_next q).2.size = some n := by
  have hne : (n != 0) = true := by simp; omega
  simp [seq_next, hs, hne]

/-- **`handle_stmt_prepare` is the model's `prepare` step**: the registry read off the dictionary gains the statement under
    the next id, every other statement is untouched, the next id counts up modulo 2^32 (the extracted
    `_MAX_PREPARED_STMT_ID`) -/
theorem handle_stmt_prepare_refines (row : Bytes → Nat) (E : Env S) (cp : S → Nat) (pc : Nat → Bytes) (c : Connection S) (data : Bytes) (sql : S)
    (hd : E.decode c.client_charset data = some sql) (hs : c.prepared_stmt_seq.size = some maxPreparedStmtId) :
    ∃ c', handle_stmt_prepare E cp pc c data = .ok c' ∧
      (⟨absStmts row c', c'.prepared_stmt_seq.value⟩ : Mimic.Cursor.Reg).stmts
        = (Mimic.Cursor.step ⟨absStmts row c, c.prepared_stmt_seq.value⟩ .prepare).1.stmts ∧
      c'.prepared_stmt_seq.value = (Mimic.Cursor.step ⟨absStmts row c, c.prepared_stmt_seq.value⟩ .prepare).1.next ∧
      c'.prepared_stmt_seq.size = some maxPreparedStmtId := by
  have h := handle_stmt_prepare_spec E cp pc c data
  simp only [hd] at h
  obtain ⟨c', w, f, hrun, hreg, hseq, _, _, _⟩ := h
  obtain ⟨_, h2, h3⟩ := seq_next_value c.prepared_stmt_seq maxPreparedStmtId (by decide) hs
  refine ⟨c', hrun, ?_, ?_, ?_⟩
  · funext k
    simp only [absStmts, hreg, dictGet_dictSet, Mimic.Cursor.step, Mimic.Cursor.upd]
    by_cases hk : k = c.prepared_stmt_seq.value
    · simp [hk, absStmt]
    · simp [hk]
  · rw [hseq, h2]; rfl
  · rw [hseq, h3]

/-! ### COM_STMT_EXECUTE -/

/-- the row loop of a result sent without cursor: every packet of the generator is written (with a drain), in order; a
    generator that raises leaves what was written and ends the handler with that state -/
theorem exec_rows_loop : ∀ (rows : List Bytes) (boom : Bool) (self : Connection S),
    Gen.iterE (σ := Connection S) (ρ := Connection S) (fun _ st => st) Connection_handle_stmt_execute_loop2 Connection_handle_stmt_execute_loop1 rows boom self
      = if boom then .error { self with out := self.out ++ rows.map (fun p => Ev.write p true) }
        else .ok (.brk { self with out := self.out ++ rows.map (fun p => Ev.write p true) }) := by
  intro rows
  induction rows with
  | nil => intro boom self; cases boom <;> simp [Gen.iterE, Connection_handle_stmt_execute_loop2]
  | cons x rest ih =>
    intro boom self
    simp only [Gen.iterE, Connection_handle_stmt_execute_loop1, ih, List.map_cons, List.append_assoc, List.singleton_append]

/-- the metadata block of a binary result: the column count and one definition per column, each written with a drain -/
def execMeta (coldef : Nat → Nat → Bytes) (c : Connection S) (rs : ResultSet S) : List (Ev S) :=
  Ev.write (Mimic.Extracted.Types.uint_len rs.columns.length) true :: rs.columns.map (fun col => Ev.write (coldef c.server_charset col) true)

/-- the statement as every execution leaves it before the application is asked: long data and the old cursor are gone -/
def cleared (x : ComStmtExecute S) : ComStmtExecute S := { x with stmt := { x.stmt with param_buffers := none, cursor := none } }

/-- **`Connection.handle_stmt_execute`, translated** — what it does for every outcome of the parser and of the application.
    (`parse_execute` and `app_query` are parameters: the parser is `ExecuteCode.parse_com_stmt_execute`, proved elsewhere;
    the application's answer is arbitrary.)  In every case after the parser succeeded, the statement's long data and its
    previous cursor are discarded **before** the application runs; a cursor is stored only by a cursor-opening execution
    with a result set, and then it is the result's row source, untouched. -/
theorem handle_stmt_execute_spec (coldef : Nat → Nat → Bytes) (parse : Connection S → Bytes → Option (ComStmtExecute S))
    (app : S → Option (ResultSet S)) (c : Connection S) (data : Bytes) :
    match parse c data with
    | none => handle_stmt_execute coldef parse app c data = .error c
    | some x =>
      let c0 : Connection S := { c with prepared_stmts := dictSet c.prepared_stmts x.stmt.stmt_id (cleared x).stmt }
      match app x.sql with
      | none => handle_stmt_execute coldef parse app c data = .error c0
      | some rs =>
        if rs.columns.isEmpty then
          ∃ (e : Bool) (a l w f : Nat), handle_stmt_execute coldef parse app c data = .ok { c0 with out := c.out ++ [Ev.write (ok c e a l w f) true] }
        else if x.use_cursor then
          ∃ a l w : Nat, handle_stmt_execute coldef parse app c data
            = .ok { c with prepared_stmts := dictSet c.prepared_stmts x.stmt.stmt_id { (cleared x).stmt with cursor := some rs.rows },
                           out := c.out ++ execMeta coldef c rs ++ [Ev.write (ok_or_eof c a l w 64) true] }
        else
          ∃ (w f a l w2 fl : Nat),
            let pre := if deprecate_eof c then [] else [Ev.write (eof c w f) true]
            let sent := c.out ++ execMeta coldef c rs ++ pre ++ rs.rows.rows.map (fun p => Ev.write p true)
            handle_stmt_execute coldef parse app c data
              = if rs.rows.boom then .error { c0 with out := sent }
                else .ok { c0 with out := sent ++ [Ev.write (ok_or_eof c a l w2 fl) true] } := by
  unfold handle_stmt_execute
  cases hp : parse c data with
  | none => rfl
  | some x =>
    simp only [dictSet_dictSet]
    cases ha : app x.sql with
    | none =>
      simp only [ha]
      rfl
    | some rs =>
      simp only [ha]
      by_cases he : rs.columns.isEmpty = true
      · simp only [he, Bool.not_true, Bool.not_false, if_true]
        exact ⟨_, _, _, _, _, rfl⟩
      · have he' : rs.columns.isEmpty = false := by simpa using he
        simp only [he', Bool.not_false, Bool.not_true, Bool.false_eq_true, if_false]
        cases hc : x.use_cursor with
        | true =>
          simp only [if_true, dictSet_dictSet]
          exact ⟨_, _, _, by simp only [execMeta, cleared, List.append_assoc, List.cons_append, List.nil_append, List.singleton_append]; rfl⟩
        | false =>
          simp only [Bool.false_eq_true, if_false]
          simp only [deprecate_eof, exec_rows_loop]
          by_cases hd : Mimic.Py.hasBit c.capabilities 24 = true
          · by_cases hb : rs.rows.boom = true
            · simp only [hd, hb, Bool.not_true, Bool.false_eq_true, if_true, if_false]
              exact ⟨0, 0, 0, 0, 0, 0, by simp only [execMeta, cleared, List.append_assoc, List.cons_append, List.nil_append, List.singleton_append, List.append_nil]; try rfl⟩
            · simp only [hd, hb, Bool.not_true, Bool.false_eq_true, if_true, if_false]
              exact ⟨0, 0, _, _, _, _, by simp only [execMeta, cleared, List.append_assoc, List.cons_append, List.nil_append, List.singleton_append, List.append_nil]; try rfl⟩
          · have hd' : Mimic.Py.hasBit c.capabilities 24 = false := by simpa using hd
            by_cases hb : rs.rows.boom = true
            · simp only [hd', hb, Bool.not_false, Bool.false_eq_true, if_true, if_false]
              exact ⟨_, _, 0, 0, 0, 0, by simp only [execMeta, cleared, List.append_assoc, List.cons_append, List.nil_append, List.singleton_append, List.append_nil]; try rfl⟩
            · simp only [hd', hb, Bool.not_false, Bool.false_eq_true, if_true, if_false]
              exact ⟨_, _, _, _, _, _, by simp only [execMeta, cleared, List.append_assoc, List.cons_append, List.nil_append, List.singleton_append, List.append_nil]; try rfl⟩

/-- the model's view of what the application returned: no source when it raised or returned no result set -/
def absResult (row : Bytes → Nat) (r : Option (ResultSet S)) : Option Mimic.Cursor.Src :=
  match r with
  | some rs => if rs.columns.isEmpty then none else some (absGen row rs.rows)
  | none => none

theorem absStmts_set (row : Bytes → Nat) (c : Connection S) (k : Nat) (st : PreparedStatement S) (o : List (Ev S)) :
    absStmts row ({ c with prepared_stmts := dictSet c.prepared_stmts k st, out := o } : Connection S)
      = Mimic.Cursor.upd (absStmts row c) k (some (absStmt row st)) := by
  funext j
  simp only [absStmts, dictGet_dictSet, Mimic.Cursor.upd]
  by_cases h : j = k <;> simp [h]

theorem result_state {r : Except (Connection S) (Connection S)} {c' d : Connection S}
    (h : r = .ok d ∨ r = .error d) (hrun : r = .ok c' ∨ r = .error c') : c' = d := by
  rcases h with h | h <;> rcases hrun with h1 | h1 <;> rw [h] at h1 <;> cases h1 <;> rfl

/-- **`handle_stmt_execute` leaves the registry the model's `execute` step leaves**, however it ends (OK, result set,
    cursor opened, the application raising, the row source raising in the middle): the addressed statement holds a cursor
    iff this was a cursor-opening execution with a result set — and then exactly the result's row source — and every other
    statement is untouched.  Hypothesis: the parser handed back the registry's own object for the id (what
    `get_stmt` returns). -/
theorem handle_stmt_execute_registry (row : Bytes → Nat) (coldef : Nat → Nat → Bytes) (parse : Connection S → Bytes → Option (ComStmtExecute S))
    (app : S → Option (ResultSet S)) (c : Connection S) (data : Bytes) (x : ComStmtExecute S) (nxt : Nat)
    (hp : parse c data = some x) (hreg : dictGet c.prepared_stmts x.stmt.stmt_id = some x.stmt) (c' : Connection S)
    (hrun : handle_stmt_execute coldef parse app c data = .ok c' ∨ handle_stmt_execute coldef parse app c data = .error c') :
    absStmts row c' = (Mimic.Cursor.step ⟨absStmts row c, nxt⟩ (.execute x.stmt.stmt_id x.use_cursor (absResult row (app x.sql)))).1.stmts := by
  have h := handle_stmt_execute_spec coldef parse app c data
  have habs : absStmts row c x.stmt.stmt_id = some (absStmt row x.stmt) := by simp [absStmts, hreg]
  simp only [hp] at h
  cases ha : app x.sql with
  | none =>
    simp only [ha] at h
    have hc := result_state (Or.inr h) hrun
    subst hc
    rw [absStmts_set]
    simp [Mimic.Cursor.step, habs, absResult, absStmt, cleared]
  | some rs =>
    simp only [ha] at h
    by_cases he : rs.columns.isEmpty = true
    · simp only [he, if_true] at h
      obtain ⟨e, a, l, w, f, h⟩ := h
      have hc := result_state (Or.inl h) hrun
      subst hc
      rw [absStmts_set]
      simp [Mimic.Cursor.step, habs, absResult, he, absStmt, cleared]
    · have he' : rs.columns.isEmpty = false := by simpa using he
      simp only [he', Bool.false_eq_true, if_false] at h
      cases hu : x.use_cursor with
      | true =>
        simp only [hu, if_true] at h
        obtain ⟨a, l, w, h⟩ := h
        have hc := result_state (Or.inl h) hrun
        subst hc
        rw [absStmts_set]
        simp [Mimic.Cursor.step, habs, absResult, he', absStmt, cleared]
      | false =>
        simp only [hu, Bool.false_eq_true, if_false] at h
        obtain ⟨w, f, a, l, w2, fl, h⟩ := h
        by_cases hb : rs.rows.boom = true
        · simp only [hb, if_true] at h
          have hc := result_state (Or.inr h) hrun
          subst hc
          rw [absStmts_set]
          simp [Mimic.Cursor.step, habs, absResult, he', absStmt, cleared]
        · simp only [hb, if_false] at h
          have hc := result_state (Or.inl h) hrun
          subst hc
          rw [absStmts_set]
          simp [Mimic.Cursor.step, habs, absResult, he', absStmt, cleared]

/-- however COM_STMT_EXECUTE ends once its packet was parsed, the statement is left without long data: what was sent with
    COM_STMT_SEND_LONG_DATA is bound by this execution or discarded, never kept for the next one -/
theorem handle_stmt_execute_discards_long_data (coldef : Nat → Nat → Bytes) (parse : Connection S → Bytes → Option (ComStmtExecute S))
    (app : S → Option (ResultSet S)) (c : Connection S) (data : Bytes) (x : ComStmtExecute S)
    (hp : parse c data = some x) (c' : Connection S)
    (hrun : handle_stmt_execute coldef parse app c data = .ok c' ∨ handle_stmt_execute coldef parse app c data = .error c') :
    ∃ st, dictGet c'.prepared_stmts x.stmt.stmt_id = some st ∧ st.param_buffers = none ∧ st.sql = x.stmt.sql ∧ st.num_params = x.stmt.num_params := by
  have h := handle_stmt_execute_spec coldef parse app c data
  simp only [hp] at h
  cases ha : app x.sql with
  | none =>
    simp only [ha] at h
    have hc := result_state (Or.inr h) hrun
    subst hc
    exact ⟨(cleared x).stmt, by simp [dictGet_dictSet], rfl, rfl, rfl⟩
  | some rs =>
    simp only [ha] at h
    by_cases he : rs.columns.isEmpty = true
    · simp only [he, if_true] at h
      obtain ⟨e, a, l, w, f, h⟩ := h
      have hc := result_state (Or.inl h) hrun
      subst hc
      exact ⟨(cleared x).stmt, by simp [dictGet_dictSet], rfl, rfl, rfl⟩
    · have he' : rs.columns.isEmpty = false := by simpa using he
      simp only [he', Bool.false_eq_true, if_false] at h
      cases hu : x.use_cursor with
      | true =>
        simp only [hu, if_true] at h
        obtain ⟨a, l, w, h⟩ := h
        have hc := result_state (Or.inl h) hrun
        subst hc
        exact ⟨{ (cleared x).stmt with cursor := some rs.rows }, by simp [dictGet_dictSet], rfl, rfl, rfl⟩
      | false =>
        simp only [hu, Bool.false_eq_true, if_false] at h
        obtain ⟨w, f, a, l, w2, fl, h⟩ := h
        by_cases hb : rs.rows.boom = true
        · simp only [hb, if_true] at h
          have hc := result_state (Or.inr h) hrun
          subst hc
          exact ⟨(cleared x).stmt, by simp [dictGet_dictSet], rfl, rfl, rfl⟩
        · simp only [hb, if_false] at h
          have hc := result_state (Or.inl h) hrun
          subst hc
          exact ⟨(cleared x).stmt, by simp [dictGet_dictSet], rfl, rfl, rfl⟩

/-! ### COM_QUERY (text protocol), COM_PING, COM_RESET_CONNECTION, COM_DEBUG -/

/-- the row loop of a text result: every packet of the row source is written (buffered), in order, and counted; a source
    that raises leaves what was written and ends the handler with that state -/
theorem query_rows_loop : ∀ (rows : List Bytes) (boom : Bool) (self : Connection S) (rs : ResultSet S) (n : Nat),
    Gen.iterE (σ := Connection S × ResultSet S × Nat) (ρ := Connection S) (fun _ st => st) Connection_handle_query_loop2 Connection_handle_query_loop1
        rows boom (self, rs, n)
      = if boom then .error { self with out := self.out ++ rows.map (fun p => Ev.write p false) }
        else .ok (.brk ({ self with out := self.out ++ rows.map (fun p => Ev.write p false) }, rs, n + rows.length)) := by
  intro rows
  induction rows with
  | nil => intro boom self rs n; cases boom <;> simp [Gen.iterE, Connection_handle_query_loop2]
  | cons x rest ih =>
    intro boom self rs n
    simp only [Gen.iterE, Connection_handle_query_loop1, ih, List.map_cons, List.append_assoc, List.singleton_append, List.length_cons]
    have : n + 1 + rest.length = n + (rest.length + 1) := by omega
    rw [this]

/-- the metadata block of a text result: the column-count packet and one definition per column, all buffered -/
def queryMeta (coldef : Nat → Nat → Bytes) (c : Connection S) (rs : ResultSet S) : List (Ev S) :=
  Ev.write (Mimic.Extracted.ParsersCode.make_column_count c.capabilities rs.columns.length) false ::
    rs.columns.map (fun col => Ev.write (coldef c.server_charset col) false)

/-- **`Connection.handle_query` with `text_resultset` inlined, translated** — what it writes for every outcome of the parser
    and of the application: a malformed packet or a raising application writes nothing; no result set: one OK; a result set:
    column count, the definitions, the metadata EOF unless deprecated, **every row of the source exactly once, in order**,
    then one terminator whose affected-rows counter is the number of rows, then a drain; a row source that raises in the
    middle leaves exactly the rows before it on the wire (the ERR is the command loop's). -/
theorem handle_query_spec (E : Env S) (coldef : Nat → Nat → Bytes) (app : S → Option (ResultSet S)) (c : Connection S) (data : Bytes) :
    match Mimic.Extracted.ParsersCode.parse_com_query E c.capabilities c.client_charset data with
    | none => handle_query E coldef app c data = .error c
    | some q =>
      match app q.sql with
      | none => handle_query E coldef app c data = .error c
      | some rs =>
        if rs.columns.isEmpty then
          ∃ (e : Bool) (a l w f : Nat), handle_query E coldef app c data = .ok { c with out := c.out ++ [Ev.write (ok c e a l w f) true] }
        else
          ∃ (w f l w2 fl : Nat),
            let pre := if deprecate_eof c then [] else [Ev.write (eof c w f) false]
            let sent := c.out ++ queryMeta coldef c rs ++ pre ++ rs.rows.rows.map (fun p => Ev.write p false)
            handle_query E coldef app c data
              = if rs.rows.boom then .error { c with out := sent }
                else .ok { c with out := sent ++ [Ev.write (ok_or_eof c rs.rows.rows.length l w2 fl) false, Ev.drain] } := by
  unfold handle_query
  cases hp : Mimic.Extracted.ParsersCode.parse_com_query E c.capabilities c.client_charset data with
  | none => rfl
  | some q =>
    simp only
    cases ha : app q.sql with
    | none => rfl
    | some rs =>
      simp only
      by_cases he : rs.columns.isEmpty = true
      · simp only [he, Bool.not_true, Bool.not_false, if_true]
        exact ⟨_, _, _, _, _, rfl⟩
      · have he' : rs.columns.isEmpty = false := by simpa using he
        simp only [he', Bool.not_false, Bool.not_true, Bool.false_eq_true, if_false, deprecate_eof, query_rows_loop, Nat.zero_add]
        by_cases hd : Mimic.Py.hasBit c.capabilities 24 = true
        · by_cases hb : rs.rows.boom = true
          · simp only [hd, hb, Bool.not_true, Bool.false_eq_true, if_true, if_false]
            exact ⟨0, 0, 0, 0, 0, by simp only [queryMeta, List.append_assoc, List.cons_append, List.nil_append, List.singleton_append, List.append_nil]; try rfl⟩
          · simp only [hd, hb, Bool.not_true, Bool.false_eq_true, if_true, if_false]
            exact ⟨0, 0, _, _, _, by simp only [queryMeta, List.append_assoc, List.cons_append, List.nil_append, List.singleton_append, List.append_nil]; try rfl⟩
        · have hd' : Mimic.Py.hasBit c.capabilities 24 = false := by simpa using hd
          by_cases hb : rs.rows.boom = true
          · simp only [hd', hb, Bool.not_false, Bool.false_eq_true, if_true, if_false]
            exact ⟨_, _, 0, 0, 0, by simp only [queryMeta, List.append_assoc, List.cons_append, List.nil_append, List.singleton_append, List.append_nil]; try rfl⟩
          · simp only [hd', hb, Bool.not_false, Bool.false_eq_true, if_true, if_false]
            exact ⟨_, _, _, _, _, by simp only [queryMeta, List.append_assoc, List.cons_append, List.nil_append, List.singleton_append, List.append_nil]; try rfl⟩

/-- COM_PING, COM_RESET_CONNECTION and COM_DEBUG write exactly one OK and change nothing else -/
theorem simple_handlers_spec (c : Connection S) (data : Bytes) :
    (∃ (e : Bool) (a l w f : Nat), handle_ping c data = .ok { c with out := c.out ++ [Ev.write (ok c e a l w f) true] }) ∧
    (∃ (e : Bool) (a l w f : Nat), handle_reset_connection c data = .ok { c with out := c.out ++ [Ev.write (ok c e a l w f) true] }) ∧
    (∃ (e : Bool) (a l w f : Nat), handle_debug c data = .ok { c with out := c.out ++ [Ev.write (ok c e a l w f) true] }) :=
  ⟨⟨_, _, _, _, _, rfl⟩, ⟨_, _, _, _, _, rfl⟩, ⟨_, _, _, _, _, rfl⟩⟩

/-! ### the handler scripts of the connection machine are the code's write / drain skeleton

`Mimic.Script.scriptOf` (hand-written, what C03 / C09 / C10 / C12 reason about) lists a handler's micro-operations.  Its
*wire skeleton* — which operations put a packet into the buffer and where the flush points are — is derived here from the
translated handlers, for every result size. -/

/-- `false`: a packet goes into the write buffer; `true`: a flush point (`drain()`, or the drain of `write(p)`) -/
def evShape : List (Ev S) → List Bool
  | [] => []
  | .write _ false :: r => false :: evShape r
  | .write _ true :: r => false :: true :: evShape r
  | .drain :: r => true :: evShape r
  | .session_reset :: r => evShape r
  | .reset_seq :: r => evShape r
  | .session_use _ :: r => evShape r

def opShape : List Mimic.Conn.Op → List Bool
  | [] => []
  | .emit _ :: r => false :: opShape r
  | .drain :: r => true :: opShape r
  | _ :: r => opShape r

theorem evShape_append (a b : List (Ev S)) : evShape (a ++ b) = evShape a ++ evShape b := by
  induction a with
  | nil => rfl
  | cons x xs ih =>
    cases x with
    | write p d => cases d <;> simp [evShape, ih]
    | drain => simp [evShape, ih]
    | session_reset => simp [evShape, ih]
    | reset_seq => simp [evShape, ih]
    | session_use d => simp [evShape, ih]

theorem opShape_append (a b : List Mimic.Conn.Op) : opShape (a ++ b) = opShape a ++ opShape b := by
  induction a with
  | nil => rfl
  | cons x xs ih => cases x <;> simp [opShape, ih]

theorem evShape_buffered (ps : List Bytes) : evShape (S := S) (ps.map (fun p => Ev.write p false)) = List.replicate ps.length false := by
  induction ps with
  | nil => rfl
  | cons p ps ih => simp [evShape, ih, List.replicate_succ]

theorem evShape_flushed (ps : List Bytes) : evShape (S := S) (ps.map (fun p => Ev.write p true)) = (List.replicate ps.length [false, true]).flatten := by
  induction ps with
  | nil => rfl
  | cons p ps ih => simp [evShape, ih, List.replicate_succ]

theorem evShape_buffered' {α : Type} (f : α → Bytes) (xs : List α) : evShape (S := S) (xs.map (fun x => Ev.write (f x) false)) = List.replicate xs.length false := by
  induction xs with
  | nil => rfl
  | cons p ps ih => simp [evShape, ih, List.replicate_succ]

theorem evShape_flushed' {α : Type} (f : α → Bytes) (xs : List α) : evShape (S := S) (xs.map (fun x => Ev.write (f x) true)) = (List.replicate xs.length [false, true]).flatten := by
  induction xs with
  | nil => rfl
  | cons p ps ih => simp [evShape, ih, List.replicate_succ]

theorem evShape_replicate_buffered (n : Nat) (p : Bytes) : evShape (S := S) (List.replicate n (Ev.write p false)) = List.replicate n false := by
  induction n with
  | zero => rfl
  | succ k ih => simp [List.replicate_succ, evShape, ih]

/-- a row source that yields `n` rows and does not raise, as the scripts describe it -/
def plainRows (n : Nat) : List Mimic.Script.RStep := List.replicate n (.row 0 false)

theorem opShape_rowOps_buffered (n : Nat) : opShape (Mimic.Script.rowOps false (plainRows n)) = List.replicate n false := by
  induction n with
  | zero => rfl
  | succ k ih => simp [plainRows, List.replicate_succ, Mimic.Script.rowOps, opShape] at ih ⊢; exact ih

theorem opShape_rowOps_flushed (n : Nat) : opShape (Mimic.Script.rowOps true (plainRows n)) = (List.replicate n [false, true]).flatten := by
  induction n with
  | zero => rfl
  | succ k ih => simp [plainRows, List.replicate_succ, Mimic.Script.rowOps, opShape] at ih ⊢; exact ih

theorem opShape_colDefs_buffered (n : Nat) : opShape (Mimic.Script.colDefs false n) = List.replicate n false := by
  induction n with
  | zero => rfl
  | succ k ih => simp [Mimic.Script.colDefs, List.replicate_succ, opShape] at ih ⊢; exact ih

theorem opShape_colDefs_flushed (n : Nat) : opShape (Mimic.Script.colDefs true n) = (List.replicate n [false, true]).flatten := by
  induction n with
  | zero => rfl
  | succ k ih => simp [Mimic.Script.colDefs, List.replicate_succ, opShape] at ih ⊢; exact ih

/-- **COM_QUERY: the script's wire skeleton is the code's**, for every number of columns and rows and both EOF conventions -/
theorem query_script_is_code (E : Env S) (coldef : Nat → Nat → Bytes) (app : S → Option (ResultSet S)) (c : Connection S) (data : Bytes)
    (q : ComQuery S) (rs : ResultSet S)
    (hp : Mimic.Extracted.ParsersCode.parse_com_query E c.capabilities c.client_charset data = some q) (ha : app q.sql = some rs)
    (hb : rs.rows.boom = false) :
    ∃ c' tail, handle_query E coldef app c data = .ok c' ∧ c'.out = c.out ++ tail ∧
      evShape tail = opShape (Mimic.Script.scriptOf (deprecate_eof c)
        (.query { ncols := rs.columns.length, rows := plainRows rs.rows.rows.length })) := by
  have h := handle_query_spec E coldef app c data
  simp only [hp, ha] at h
  by_cases he : rs.columns.isEmpty = true
  · simp only [he, if_true] at h
    obtain ⟨e, a, l, w, f, h⟩ := h
    have hn : rs.columns.length = 0 := by simpa using he
    exact ⟨_, _, h, rfl, by simp [Mimic.Script.scriptOf, Mimic.Script.callOps, hn, evShape, opShape]⟩
  · have he' : rs.columns.isEmpty = false := by simpa using he
    have hn : rs.columns.length ≠ 0 := by
      intro e; apply he; simpa using e
    simp only [he', Bool.false_eq_true, if_false, hb] at h
    obtain ⟨w, f, l, w2, fl, h⟩ := h
    refine ⟨_, _, h, by simp only [List.append_assoc]; rfl, ?_⟩
    simp only [Mimic.Script.scriptOf, Mimic.Script.callOps, hn, if_false, ne_eq, not_true_eq_false, opShape_append, evShape_append, queryMeta,
      opShape, evShape, evShape_buffered, evShape_buffered', opShape_rowOps_buffered, opShape_colDefs_buffered, List.cons_append, List.nil_append]
    cases hd : deprecate_eof c <;>
      simp only [evShape, opShape, if_true, if_false, Bool.false_eq_true, List.append_assoc, List.cons_append, List.nil_append, List.singleton_append, List.append_nil]

/-- COM_PING / COM_RESET_CONNECTION / COM_DEBUG: one packet, one flush -/
theorem ping_script_is_code (c : Connection S) (data : Bytes) (dep : Bool) :
    ∃ c' tail, handle_ping c data = .ok c' ∧ c'.out = c.out ++ tail ∧ evShape tail = opShape (Mimic.Script.scriptOf dep .ping) := by
  obtain ⟨⟨e, a, l, w, f, h⟩, _, _⟩ := simple_handlers_spec c data
  exact ⟨_, _, h, rfl, rfl⟩

/-- COM_STMT_EXECUTE with a result set: every packet is followed by a flush (the binary protocol drains each packet), for every
    number of columns and rows, with and without cursor, both EOF conventions -/
theorem execute_script_is_code (coldef : Nat → Nat → Bytes) (parse : Connection S → Bytes → Option (ComStmtExecute S))
    (app : S → Option (ResultSet S)) (c : Connection S) (data : Bytes) (x : ComStmtExecute S) (rs : ResultSet S)
    (hp : parse c data = some x) (ha : app x.sql = some rs) (hb : rs.rows.boom = false) :
    ∃ c' tail, handle_stmt_execute coldef parse app c data = .ok c' ∧ c'.out = c.out ++ tail ∧
      evShape tail = opShape (Mimic.Script.scriptOf (deprecate_eof c)
        (.execute true x.use_cursor { ncols := rs.columns.length, rows := plainRows rs.rows.rows.length })) := by
  have h := handle_stmt_execute_spec coldef parse app c data
  simp only [hp, ha] at h
  by_cases he : rs.columns.isEmpty = true
  · simp only [he, if_true] at h
    obtain ⟨e, a, l, w, f, h⟩ := h
    have hn : rs.columns.length = 0 := by simpa using he
    exact ⟨_, _, h, rfl, by simp [Mimic.Script.scriptOf, Mimic.Script.callOps, hn, evShape, opShape]⟩
  · have he' : rs.columns.isEmpty = false := by simpa using he
    have hn : rs.columns.length ≠ 0 := by
      intro e; apply he; simpa using e
    simp only [he', Bool.false_eq_true, if_false] at h
    cases hu : x.use_cursor with
    | true =>
      simp only [hu, if_true] at h
      obtain ⟨a, l, w, h⟩ := h
      refine ⟨_, _, h, by simp only [List.append_assoc]; rfl, ?_⟩
      simp only [Mimic.Script.scriptOf, Mimic.Script.callOps, hn, if_false, ne_eq, not_true_eq_false, opShape_append, evShape_append, execMeta,
        opShape, evShape, evShape_flushed', opShape_colDefs_flushed, List.cons_append, List.nil_append, Bool.not_true, if_true]
      simp only [evShape, opShape, opShape_append, opShape_colDefs_flushed, if_true, if_false, Bool.false_eq_true, List.append_assoc, List.cons_append, List.nil_append, List.singleton_append, List.append_nil]
    | false =>
      simp only [hu, Bool.false_eq_true, if_false, hb] at h
      obtain ⟨w, f, a, l, w2, fl, h⟩ := h
      refine ⟨_, _, h, by simp only [List.append_assoc]; rfl, ?_⟩
      simp only [Mimic.Script.scriptOf, Mimic.Script.callOps, hn, if_false, ne_eq, not_true_eq_false, opShape_append, evShape_append, execMeta,
        opShape, evShape, evShape_flushed, evShape_flushed', opShape_colDefs_flushed, opShape_rowOps_flushed, List.cons_append, List.nil_append,
        Bool.not_true, Bool.false_eq_true]
      cases hd : deprecate_eof c <;> simp only [opShape_append, opShape_colDefs_flushed, opShape_rowOps_flushed, opShape, if_true, if_false, Bool.false_eq_true] <;>
        simp only [evShape, opShape, if_true, if_false, Bool.false_eq_true, List.append_assoc, List.cons_append, List.nil_append, List.singleton_append, List.append_nil]

/-- COM_STMT_PREPARE: prepare-OK, the parameter definitions, the closing EOF, all buffered, then one flush -/
theorem prepare_script_is_code (E : Env S) (cp : S → Nat) (pc : Nat → Bytes) (c : Connection S) (data : Bytes) (sql : S)
    (hd : E.decode c.client_charset data = some sql) :
    ∃ c' tail, handle_stmt_prepare E cp pc c data = .ok c' ∧ c'.out = c.out ++ tail ∧
      evShape tail = opShape (Mimic.Script.scriptOf (deprecate_eof c) (.prepare (cp sql))) := by
  have h := handle_stmt_prepare_spec E cp pc c data
  simp only [hd] at h
  obtain ⟨c', w, f, hrun, _, _, _, _, hout⟩ := h
  refine ⟨c', _, hrun, by rw [hout, List.append_assoc], ?_⟩
  simp only [prepareResponse, Mimic.Script.scriptOf, opShape_append, evShape_append, opShape, evShape, opShape_colDefs_buffered]
  by_cases h0 : cp sql = 0
  · simp [h0, evShape, opShape]
  · cases hdep : deprecate_eof c <;> simp [h0, hdep, evShape, opShape, evShape_append, evShape_replicate_buffered, List.map_replicate]

/-! ### COM_INIT_DB and COM_FIELD_LIST -/

/-- **`handle_init_db`, translated**: the application's `use` callback is told exactly the decoded name; one OK follows unless
    the callback raises; an undecodable name raises before the application hears anything -/
theorem handle_init_db_spec (E : Env S) (ur : S → Bool) (c : Connection S) (data : Bytes) :
    match Mimic.Extracted.ParsersCode.parse_com_init_db E c.client_charset data with
    | none => handle_init_db E ur c data = .error c
    | some db =>
      if ur db then handle_init_db E ur c data = .error { c with out := c.out ++ [Ev.session_use db] }
      else ∃ (e : Bool) (a l w f : Nat),
        handle_init_db E ur c data = .ok { c with out := c.out ++ [Ev.session_use db, Ev.write (ok c e a l w f) true] } := by
  unfold handle_init_db
  cases hp : Mimic.Extracted.ParsersCode.parse_com_init_db E c.client_charset data with
  | none => rfl
  | some db =>
    simp only
    by_cases hu : ur db = true
    · simp only [hu, if_true]
    · simp only [hu, Bool.false_eq_true, if_false]
      exact ⟨_, _, _, _, _, by simp only [List.append_assoc, List.cons_append, List.nil_append]; rfl⟩

theorem field_rows_loop (fcd : Nat → S → Bytes → Bytes) (f : ComFieldList S) : ∀ (rows : List Bytes) (boom : Bool) (self : Connection S) (rs : ResultSet S),
    Gen.iterE (σ := Connection S × ResultSet S) (ρ := Connection S) (fun _ st => st) Connection_handle_field_list_loop2
        (Connection_handle_field_list_loop1 fcd f) rows boom (self, rs)
      = if boom then .error { self with out := self.out ++ rows.map (fun r => Ev.write (fcd self.server_charset f.table r) false) }
        else .ok (.brk ({ self with out := self.out ++ rows.map (fun r => Ev.write (fcd self.server_charset f.table r) false) }, rs)) := by
  intro rows
  induction rows with
  | nil => intro boom self rs; cases boom <;> simp [Gen.iterE, Connection_handle_field_list_loop2]
  | cons x rest ih =>
    intro boom self rs
    simp only [Gen.iterE, Connection_handle_field_list_loop1, ih, List.map_cons, List.append_assoc, List.singleton_append]

/-- **`handle_field_list`, translated**: one buffered definition per row of the application's answer to the SHOW COLUMNS text,
    in order, then one terminator written with a drain; a failing application writes nothing, a failing row source leaves
    the definitions before it -/
theorem handle_field_list_spec (E : Env S) (app : S → Option (ResultSet S)) (fls : ComFieldList S → S) (fcd : Nat → S → Bytes → Bytes)
    (c : Connection S) (data : Bytes) :
    match Mimic.Extracted.ParsersCode.parse_com_field_list E c.client_charset data with
    | none => handle_field_list E app fls fcd c data = .error c
    | some f =>
      match app (fls f) with
      | none => handle_field_list E app fls fcd c data = .error c
      | some rs =>
        ∃ (a l w fl : Nat),
          let sent := c.out ++ rs.rows.rows.map (fun r => Ev.write (fcd c.server_charset f.table r) false)
          handle_field_list E app fls fcd c data
            = if rs.rows.boom then .error { c with out := sent }
              else .ok { c with out := sent ++ [Ev.write (ok_or_eof c a l w fl) true] } := by
  unfold handle_field_list
  cases hp : Mimic.Extracted.ParsersCode.parse_com_field_list E c.client_charset data with
  | none => rfl
  | some f =>
    simp only
    cases ha : app (fls f) with
    | none => rfl
    | some rs =>
      simp only [field_rows_loop]
      by_cases hb : rs.rows.boom = true
      · simp only [hb, if_true]
        exact ⟨0, 0, 0, 0, by first | rfl | trivial⟩
      · simp only [hb, Bool.false_eq_true, if_false]
        exact ⟨_, _, _, _, by simp only [List.append_assoc]; rfl⟩

/-- COM_INIT_DB: the script's wire skeleton (one packet, one flush) is the code's -/
theorem initdb_script_is_code (E : Env S) (ur : S → Bool) (c : Connection S) (data : Bytes) (db : S) (dep : Bool)
    (hp : Mimic.Extracted.ParsersCode.parse_com_init_db E c.client_charset data = some db) (hu : ur db = false) :
    ∃ c' tail, handle_init_db E ur c data = .ok c' ∧ c'.out = c.out ++ tail ∧
      evShape tail = opShape (Mimic.Script.scriptOf dep (.initDb false)) := by
  have h := handle_init_db_spec E ur c data
  simp only [hp, hu, Bool.false_eq_true, if_false] at h
  obtain ⟨e, a, l, w, f, h⟩ := h
  exact ⟨_, _, h, rfl, rfl⟩

/-- COM_FIELD_LIST: one buffered definition per row, then the terminator and a flush — the script's skeleton -/
theorem fieldlist_script_is_code (E : Env S) (app : S → Option (ResultSet S)) (fls : ComFieldList S → S) (fcd : Nat → S → Bytes → Bytes)
    (c : Connection S) (data : Bytes) (f : ComFieldList S) (rs : ResultSet S) (dep : Bool)
    (hp : Mimic.Extracted.ParsersCode.parse_com_field_list E c.client_charset data = some f) (ha : app (fls f) = some rs)
    (hb : rs.rows.boom = false) :
    ∃ c' tail, handle_field_list E app fls fcd c data = .ok c' ∧ c'.out = c.out ++ tail ∧
      evShape tail = opShape (Mimic.Script.scriptOf dep (.fieldList { rows := plainRows rs.rows.rows.length })) := by
  have h := handle_field_list_spec E app fls fcd c data
  simp only [hp, ha, hb, Bool.false_eq_true, if_false] at h
  obtain ⟨a, l, w, fl, h⟩ := h
  refine ⟨_, rs.rows.rows.map (fun r => Ev.write (fcd c.server_charset f.table r) false) ++ [Ev.write (ok_or_eof c a l w fl) true], h,
    by simp only [List.append_assoc], ?_⟩
  simp only [Mimic.Script.scriptOf, Mimic.Script.callOps, opShape_append, evShape_append, opShape, evShape, evShape_buffered',
    opShape_colDefs_buffered, plainRows, List.length_replicate, ne_eq, not_true_eq_false, if_false, List.nil_append, List.cons_append]

/-! ### one iteration of the command loop (`command_phase`, kills excluded) -/

section step
variable (E : Env S) (cp : S → Nat) (pc : Nat → Bytes) (coldef : Nat → Nat → Bytes)
  (parse : Connection S → Bytes → Option (ComStmtExecute S)) (app : S → Option (ResultSet S))
  (ur : S → Bool) (fls : ComFieldList S → S) (fcd : Nat → S → Bytes → Bytes)
  (other : Nat → Connection S → Bytes → Except (Connection S) (Connection S)) (err : Connection S → Bytes)
  (af : Nat → Connection S → Bytes → Option (Connection S))

/-- the `except AuthenticationFailed: return` arm: the untranslated handler of the packet's command byte raises it, leaving `s` -/
def authEnded (c : Connection S) (data : Bytes) : Option (Connection S) :=
  match data with
  | [] => none
  | command :: rest => if untranslated.contains command.toNat then af command.toNat { c with _executing := true } rest else none

/-- **What one iteration adds to the wire, for every packet**: whatever the dispatched handler wrote; then, *iff* it raised (a
    malformed packet, an unknown statement, a failing application or row source, an unsupported command byte, an empty
    packet), exactly one ERR packet written with a drain; then the sequence reset — and nothing else.  The executing flag is
    cleared whatever happened; the loop ends only on COM_QUIT or when an untranslated handler (COM_CHANGE_USER) raises
    `AuthenticationFailed` — then nothing but the sequence reset is added to what the handler left. -/
theorem command_step_spec (c : Connection S) (data : Bytes) :
    let c1 : Connection S := { c with _executing := true }
    match authEnded af c data with
    | some s => command_step E cp pc coldef parse app ur fls fcd other err af c data = ({ s with _executing := false, out := s.out ++ [Ev.reset_seq] }, false)
    | none =>
    match data with
    | [] =>
      command_step E cp pc coldef parse app ur fls fcd other err af c data
        = ({ c with _executing := false, out := c.out ++ [Ev.write (err { c with _executing := false }) true, Ev.reset_seq] }, true)
    | command :: rest =>
      match dispatch E cp pc coldef parse app ur fls fcd other c1 command.toNat rest with
      | .ok (some s) =>
        command_step E cp pc coldef parse app ur fls fcd other err af c data = ({ s with _executing := false, out := s.out ++ [Ev.reset_seq] }, true)
      | .ok none =>
        command_step E cp pc coldef parse app ur fls fcd other err af c data = ({ c with _executing := false, out := c.out ++ [Ev.reset_seq] }, false)
      | .error s =>
        command_step E cp pc coldef parse app ur fls fcd other err af c data
          = ({ s with _executing := false, out := s.out ++ [Ev.write (err { s with _executing := false }) true, Ev.reset_seq] }, true) := by
  intro c1
  cases data with
  | nil =>
    simp only [authEnded]
    simp only [command_step, List.append_assoc, List.cons_append, List.nil_append]
  | cons command rest =>
    cases ha : authEnded af c (command :: rest) with
    | some s =>
      have ha' : (if untranslated.contains command.toNat then af command.toNat { c with _executing := true } rest else none) = some s := ha
      simp only [command_step, ha']
    | none =>
      have ha' : (if untranslated.contains command.toNat then af command.toNat { c with _executing := true } rest else none) = none := ha
      dsimp only
      cases h : dispatch E cp pc coldef parse app ur fls fcd other c1 command.toNat rest with
      | error s =>
        have h' : dispatch E cp pc coldef parse app ur fls fcd other { c with _executing := true } command.toNat rest = .error s := h
        simp only [command_step, ha', h', List.append_assoc, List.cons_append, List.nil_append]
      | ok o =>
        cases o with
        | none =>
          have h' : dispatch E cp pc coldef parse app ur fls fcd other { c with _executing := true } command.toNat rest = .ok none := h
          simp only [command_step, ha', h']
        | some s =>
          have h' : dispatch E cp pc coldef parse app ur fls fcd other { c with _executing := true } command.toNat rest = .ok (some s) := h
          simp only [command_step, ha', h']

theorem map_some_ne_none {ε α : Type} (x : Except ε α) : x.map some ≠ .ok none := by
  cases x <;> simp [Except.map]

/-- the loop ends (`return`) only on COM_QUIT, whatever the handlers do -/
theorem dispatch_quit_iff (c : Connection S) (command : Nat) (rest : Bytes) :
    dispatch E cp pc coldef parse app ur fls fcd other c command rest = .ok none ↔ command = 1 := by
  constructor
  · intro h
    by_cases hne : command = 1
    · exact hne
    · exfalso
      have h1 : (command == 1) = false := by simpa using hne
      unfold dispatch at h
      simp only [h1, Bool.false_eq_true, if_false] at h
      by_cases c3 : (command == 3) = true
      · simp only [c3, if_true, Bool.false_eq_true, if_false, ↓reduceIte] at h; exact absurd h (map_some_ne_none _)
      simp only [c3, if_false, Bool.false_eq_true, ↓reduceIte] at h
      by_cases c22 : (command == 22) = true
      · simp only [c22, if_true, Bool.false_eq_true, if_false, ↓reduceIte] at h; exact absurd h (map_some_ne_none _)
      simp only [c22, if_false, Bool.false_eq_true, ↓reduceIte] at h
      by_cases c24 : (command == 24) = true
      · simp only [c24, if_true, Bool.false_eq_true, if_false, ↓reduceIte] at h; exact absurd h (map_some_ne_none _)
      simp only [c24, if_false, Bool.false_eq_true, ↓reduceIte] at h
      by_cases c23 : (command == 23) = true
      · simp only [c23, if_true, Bool.false_eq_true, if_false, ↓reduceIte] at h; exact absurd h (map_some_ne_none _)
      simp only [c23, if_false, Bool.false_eq_true, ↓reduceIte] at h
      by_cases c28 : (command == 28) = true
      · simp only [c28, if_true, Bool.false_eq_true, if_false, ↓reduceIte] at h; exact absurd h (map_some_ne_none _)
      simp only [c28, if_false, Bool.false_eq_true, ↓reduceIte] at h
      by_cases c26 : (command == 26) = true
      · simp only [c26, if_true, Bool.false_eq_true, if_false, ↓reduceIte] at h; exact absurd h (map_some_ne_none _)
      simp only [c26, if_false, Bool.false_eq_true, ↓reduceIte] at h
      by_cases c25 : (command == 25) = true
      · simp only [c25, if_true, Bool.false_eq_true, if_false, ↓reduceIte] at h; exact absurd h (map_some_ne_none _)
      simp only [c25, if_false, Bool.false_eq_true, ↓reduceIte] at h
      by_cases c14 : (command == 14) = true
      · simp only [c14, if_true, Bool.false_eq_true, if_false, ↓reduceIte] at h; exact absurd h (map_some_ne_none _)
      simp only [c14, if_false, Bool.false_eq_true, ↓reduceIte] at h
      by_cases c17 : (command == 17) = true
      · simp only [c17, if_true, Bool.false_eq_true, if_false, ↓reduceIte] at h; exact absurd h (map_some_ne_none _)
      simp only [c17, if_false, Bool.false_eq_true, ↓reduceIte] at h
      by_cases c31 : (command == 31) = true
      · simp only [c31, if_true, Bool.false_eq_true, if_false, ↓reduceIte] at h; exact absurd h (map_some_ne_none _)
      simp only [c31, if_false, Bool.false_eq_true, ↓reduceIte] at h
      by_cases c13 : (command == 13) = true
      · simp only [c13, if_true, Bool.false_eq_true, if_false, ↓reduceIte] at h; exact absurd h (map_some_ne_none _)
      simp only [c13, if_false, Bool.false_eq_true, ↓reduceIte] at h
      by_cases c2 : (command == 2) = true
      · simp only [c2, if_true, Bool.false_eq_true, if_false, ↓reduceIte] at h; exact absurd h (map_some_ne_none _)
      simp only [c2, if_false, Bool.false_eq_true, ↓reduceIte] at h
      by_cases c4 : (command == 4) = true
      · simp only [c4, if_true, Bool.false_eq_true, if_false, ↓reduceIte] at h; exact absurd h (map_some_ne_none _)
      simp only [c4, if_false, Bool.false_eq_true, ↓reduceIte] at h
      cases h
  · intro h; subst h; simp [dispatch]

/-- an unsupported command byte raises in the dispatch (and is therefore answered by exactly one ERR) -/
theorem dispatch_unsupported (c : Connection S) (command : Nat) (rest : Bytes) (h : command ∉ dispatched) :
    dispatch E cp pc coldef parse app ur fls fcd other c command rest = .error c := by
  unfold dispatch
  simp only [dispatched, List.mem_cons, List.mem_nil_iff, or_false, not_or] at h
  obtain ⟨h1, h2, h3, h4, h5, h6, h7, h8, h9, h10, h11, h12, h13, h14⟩ := h
  simp [h1, h2, h3, h4, h5, h6, h7, h8, h9, h10, h11, h12, h13, h14]

/-- **A whole COM_QUERY exchange on the code**: packet `0x03 · payload` in, and on the wire — for a result set whose row source
    yields `rows` and then (if `boom`) raises: the metadata, the rows, then either the terminator and a drain or exactly one ERR;
    in both cases the sequence reset last.  (Composition of the command step with `handle_query`.) -/
theorem query_command_response (c : Connection S) (payload : Bytes) (q : ComQuery S) (rs : ResultSet S)
    (hp : Mimic.Extracted.ParsersCode.parse_com_query E c.capabilities c.client_charset payload = some q) (ha : app q.sql = some rs)
    (hne : rs.columns.isEmpty = false) :
    ∃ (w f l w2 fl : Nat),
      let pre := if deprecate_eof c then [] else [Ev.write (eof c w f) false]
      let sent := c.out ++ queryMeta coldef c rs ++ pre ++ rs.rows.rows.map (fun p => Ev.write p false)
      (command_step E cp pc coldef parse app ur fls fcd other err af c (3 :: payload)).2 = true ∧
      ∃ e : Bytes, (command_step E cp pc coldef parse app ur fls fcd other err af c (3 :: payload)).1.out
        = if rs.rows.boom then sent ++ [Ev.write e true, Ev.reset_seq]
          else sent ++ [Ev.write (ok_or_eof c rs.rows.rows.length l w2 fl) false, Ev.drain, Ev.reset_seq] := by
  have hs := command_step_spec E cp pc coldef parse app ur fls fcd other err af c (3 :: payload)
  have hq := handle_query_spec E coldef app ({ c with _executing := true } : Connection S) payload
  have hp' : Mimic.Extracted.ParsersCode.parse_com_query E ({ c with _executing := true } : Connection S).capabilities
      ({ c with _executing := true } : Connection S).client_charset payload = some q := hp
  simp only [hp', ha, hne, Bool.false_eq_true, if_false] at hq
  obtain ⟨w, f, l, w2, fl, hq⟩ := hq
  have hd : dispatch E cp pc coldef parse app ur fls fcd other ({ c with _executing := true } : Connection S) (3 : UInt8).toNat payload
      = (handle_query E coldef app ({ c with _executing := true } : Connection S) payload).map some := by
    simp [dispatch]
  refine ⟨w, f, l, w2, fl, ?_⟩
  dsimp only at hs
  rw [hd, hq] at hs
  by_cases hb : rs.rows.boom = true
  · simp only [hb, if_true, Except.map] at hs ⊢
    rw [hs]
    exact ⟨rfl, _, by simp only [queryMeta, deprecate_eof, eof, List.append_assoc]; rfl⟩
  · have hb' : rs.rows.boom = false := by simpa using hb
    simp only [hb', Bool.false_eq_true, if_false, Except.map] at hs ⊢
    rw [hs]
    exact ⟨rfl, [], by simp only [queryMeta, deprecate_eof, eof, ok_or_eof, ok, List.append_assoc, List.cons_append, List.nil_append]; rfl⟩

end step

end MimicProofs.HandlersCode
