import Mimic.Reply
import Mimic.Extracted.PacketsCode
import MimicProofs.Types
/-!
The translated reply builders of `packets.py` (`Mimic.Extracted.PacketsCode`) are the model's encoders of `Mimic.Reply`.
-/
namespace MimicProofs.PacketsCode
open Mimic.Extracted.PacketsCode Mimic.Extracted.Types MimicProofs.Types Mimic.Reply

theorem u1 (x : Nat) : uint_1 x = [UInt8.ofNat x] := by
  rw [uint_1_eq]; simp [Mimic.Wire.leN, ofNat_mod]

/-- `make_ok` is the model's OK encoder (capability bits 9 = CLIENT_PROTOCOL_41, 13 = CLIENT_TRANSACTIONS) -/
theorem make_ok_eq (caps st : Nat) (eof : Bool) (a l w fl : Nat) :
    make_ok caps st eof a l w fl = encOk (Mimic.Py.hasBit caps 9) (Mimic.Py.hasBit caps 13) ⟨eof, a, l, st ||| fl, w⟩ := by
  unfold make_ok encOk
  simp only [u1, uint_len_eq, uint_2_eq]
  cases eof <;> cases h9 : Mimic.Py.hasBit caps 9 <;> cases h13 : Mimic.Py.hasBit caps 13 <;> simp

/-- `make_eof` is the model's EOF encoder -/
theorem make_eof_eq (caps st w fl : Nat) : make_eof caps st w fl = encEof (Mimic.Py.hasBit caps 9) ⟨w, st ||| fl⟩ := by
  unfold make_eof encEof
  simp only [u1, uint_2_eq]
  cases h9 : Mimic.Py.hasBit caps 9 <;> simp

/-- `make_error` is the model's ERR encoder with the SQLSTATE of the code's own table -/
theorem make_error_eq (caps : Nat) (msg : Mimic.Py.Bytes) (code : Nat) (h5 : (get_sqlstate code).length = 5) :
    make_error caps msg code = encErr (Mimic.Py.hasBit caps 9) ⟨code, get_sqlstate code, msg⟩ := by
  unfold make_error encErr
  have hs : str_fixed 5 (get_sqlstate code) = get_sqlstate code := by rw [← h5]; exact str_fixed_self _
  have h1 : str_fixed 1 ([35] : Mimic.Py.Bytes) = [35] := str_fixed_self [35]
  simp only [u1, uint_2_eq, str_rest_eq, hs, h1]
  cases h9 : Mimic.Py.hasBit caps 9 <;> simp

/-- every SQLSTATE of the code's table, and the default, has five bytes -/
theorem sqlstate_five (code : Nat) : (get_sqlstate code).length = 5 := by
  unfold get_sqlstate
  cases h : sqlstates.lookup code with
  | none => rfl
  | some s =>
    have : ∀ p ∈ sqlstates, p.2.length = 5 := by decide
    have hm : (code, s) ∈ sqlstates := by
      have := List.lookup_eq_some_iff.mp h
      obtain ⟨l1, l2, hh, _⟩ := this
      rw [hh]; simp
    exact this _ hm

/-- `make_column_definition_41` is the model's column-definition encoder -/
theorem make_coldef_eq (sc tb ot nm on : Mimic.Py.Bytes) (cs ln ty fg dc : Nat) (fl : Bool) (df : Option Mimic.Py.Bytes)
    (hdf : ∀ d, df = some d → d ≠ []) :
    make_column_definition_41 sc tb ot nm on cs ln ty fg dc fl df =
      encColDef ⟨sc, tb, if ot = [] then tb else ot, nm, if on = [] then nm else on, cs, ln, ty, fg, dc,
        if fl then some df else none⟩ := by
  unfold make_column_definition_41 encColDef
  simp only [u1, uint_len_eq, uint_2_eq, uint_4_eq, str_len_eq]
  cases fl with
  | false => simp [Mimic.Wire.leN, ofNat_mod]
  | true =>
    cases df with
    | none => simp [Mimic.Wire.leN, ofNat_mod]
    | some d => simp [Mimic.Wire.leN, ofNat_mod]

end MimicProofs.PacketsCode
