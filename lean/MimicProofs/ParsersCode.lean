import Mimic.Py
import Mimic.Wire
import Mimic.Packets
import Mimic.Extracted.Types
import Mimic.Extracted.ParsersCode
import MimicProofs.Types
/-!
The client-packet parsers of `packets.py` as translated by `harness/pytrans2.py` (`Mimic.Extracted.ParsersCode`,
regenerated from the source on every run) against the hand-written models of `Mimic.Wire` / `Mimic.Packets` /
`Mimic.Params` — for every input.  Loops: each translated `while` comes with a theorem that the fuel the translator
chose is enough (the loop terminates for every input), so the `none` of exhausted fuel never occurs.
-/
namespace MimicProofs.ParsersCode
open Mimic.Py Mimic.Extracted.ParsersCode

/-! ### `read_str_null` -/

/-- one iteration of the translated loop body -/
def nulStep : Bytes × Bytes → Option (Step (Bytes × Bytes) (Bytes × Bytes)) := fun (data, r_1) =>
    match Mimic.Py.readN 1 r_1 with
    | none => none
    | some (data_2, r_3) =>
      let b : Bytes := data_2
      if ((b == ([0] : Bytes)) || (!(!(b).isEmpty))) then
        some (Mimic.Py.Step.ret (data, r_3))
      else
        let data : Bytes := (data ++ b)
        some (Mimic.Py.Step.next (data, r_3))

theorem loopM_congr {σ α : Type} (n : Nat) (s : σ) (f g : σ → Option (Step σ α)) (h : ∀ s, f s = g s) :
    Mimic.Py.loopM n s f = Mimic.Py.loopM n s g := by
  have : f = g := funext h
  rw [this]

theorem readN_one (r : Bytes) : Mimic.Py.readN 1 r = some (r.take 1, r.drop 1) := by
  simp [Mimic.Py.readN]

/-- the loop with enough fuel computes the model's `readNul`, accumulating onto `acc` -/
theorem nul_loop (r acc : Bytes) (fuel : Nat) (h : r.length < fuel) :
    Mimic.Py.loopM fuel (acc, r) nulStep =
      some (some (Step.ret (acc ++ (Mimic.Wire.readNul r).1, (Mimic.Wire.readNul r).2))) := by
  induction r generalizing acc fuel with
  | nil =>
    cases fuel with
    | zero => omega
    | succ n => simp [Mimic.Py.loopM, nulStep, readN_one, Mimic.Wire.readNul]
  | cons b rest ih =>
    cases fuel with
    | zero => simp at h
    | succ n =>
      have hl : rest.length < n := by simp at h; omega
      by_cases hb : b = 0
      · subst hb
        simp [Mimic.Py.loopM, nulStep, readN_one, Mimic.Wire.readNul]
      · have hne : ([b] == ([0] : Bytes)) = false := by
          simp [hb]
        simp only [Mimic.Py.loopM, nulStep, readN_one, List.take_succ_cons, List.take_zero, List.drop_succ_cons, List.drop_zero, hne,
          List.isEmpty_cons, Bool.not_false, Bool.not_true, Bool.or_false]
        simp only [Bool.false_eq_true, if_false]
        rw [ih (acc ++ [b]) n hl]
        simp [Mimic.Wire.readNul, hb]

/-- **`read_str_null` (the translated `while True` loop) terminates on every input and is the model's `readNul`** -/
theorem read_str_null_eq (r : Bytes) : read_str_null r = some (Mimic.Wire.readNul r) := by
  unfold read_str_null
  dsimp only
  rw [loopM_congr _ _ _ nulStep (by intro ⟨d, r⟩; rfl), nul_loop r [] (r.length + 1) (by omega)]
  simp

/-- termination stated on its own: the fuel chosen by the translator is never exhausted -/
theorem read_str_null_terminates (r : Bytes) : Mimic.Py.loopM (r.length + 1) (([] : Bytes), r) nulStep ≠ none := by
  rw [nul_loop r [] (r.length + 1) (by omega)]; simp

end MimicProofs.ParsersCode
