import Mimic.Py
import Mimic.Wire
import Mimic.Packets
import Mimic.Extracted.Types
import Mimic.Extracted.ParsersCode
import MimicProofs.Types
import Mimic.Params
import MimicProofs.Packets
set_option linter.unusedSimpArgs false
set_option linter.unusedVariables false
/-!
The client-packet parsers of `packets.py` as translated by `harness/pytrans2.py` (`Mimic.Extracted.ParsersCode`,
regenerated from the source on every run) against the hand-written models of `Mimic.Wire` / `Mimic.Packets` /
`Mimic.Params` — for every input.  Loops: each translated `while` comes with a theorem that the fuel the translator
chose is enough (the loop terminates for every input), so the `none` of exhausted fuel never occurs.
-/
namespace MimicProofs.ParsersCode
open Mimic.Py Mimic.Extracted.ParsersCode MimicProofs.Types
open Mimic.Params (PType PVal readTypes readValues readValue readParams parseQuery)
open Mimic.Packets (readConnectAttrs connectAttrs HsParse HsResp parseHandshakeResponse optNul)

/-! ### `read_str_null` -/

theorem loopM_congr {σ α : Type} (n : Nat) (s : σ) (f g : σ → Option (Step σ α)) (h : ∀ s, f s = g s) :
    Mimic.Py.loopM n s f = Mimic.Py.loopM n s g := by
  have : f = g := funext h
  rw [this]

theorem readN_one (r : Bytes) : Mimic.Py.readN 1 r = some (r.take 1, r.drop 1) := by
  simp [Mimic.Py.readN]

/-- the loop with enough fuel computes the model's `readNul`, accumulating onto `acc` -/
theorem nul_loop (r acc : Bytes) (fuel : Nat) (h : r.length < fuel) :
    Mimic.Py.loopM fuel (acc, r) read_str_null_loop1 =
      some (some (Step.ret (acc ++ (Mimic.Wire.readNul r).1, (Mimic.Wire.readNul r).2))) := by
  induction r generalizing acc fuel with
  | nil =>
    cases fuel with
    | zero => omega
    | succ n => simp [Mimic.Py.loopM, read_str_null_loop1, readN_one, Mimic.Wire.readNul]
  | cons b rest ih =>
    cases fuel with
    | zero => simp at h
    | succ n =>
      have hl : rest.length < n := by simp at h; omega
      by_cases hb : b = 0
      · subst hb
        simp [Mimic.Py.loopM, read_str_null_loop1, readN_one, Mimic.Wire.readNul]
      · have hne : ([b] == ([0] : Bytes)) = false := by
          simp [hb]
        simp only [Mimic.Py.loopM, read_str_null_loop1, readN_one, List.take_succ_cons, List.take_zero, List.drop_succ_cons, List.drop_zero, hne,
          List.isEmpty_cons, Bool.not_false, Bool.not_true, Bool.or_false]
        simp only [Bool.false_eq_true, if_false]
        rw [ih (acc ++ [b]) n hl]
        simp [Mimic.Wire.readNul, hb]

/-- **`read_str_null` (the translated `while True` loop) terminates on every input and is the model's `readNul`** -/
theorem read_str_null_eq (r : Bytes) : read_str_null r = some (Mimic.Wire.readNul r) := by
  unfold read_str_null
  dsimp only
  rw [nul_loop r [] (r.length + 1) (by omega)]
  simp

/-- termination stated on its own: the fuel chosen by the translator is never exhausted -/
theorem read_str_null_terminates (r : Bytes) : Mimic.Py.loopM (r.length + 1) (([] : Bytes), r) read_str_null_loop1 ≠ none := by
  rw [nul_loop r [] (r.length + 1) (by omega)]; simp

/-! ### fixed-layout statement commands -/

theorem parse_com_stmt_close_eq (data : Bytes) :
    (parse_com_stmt_close (S := Unit) data).map (·.stmt_id) = Mimic.Packets.parseStmtId data := by
  unfold parse_com_stmt_close Mimic.Packets.parseStmtId
  simp only [read_uint_4_eq]
  cases Mimic.Wire.readUInt 4 data <;> rfl

theorem parse_com_stmt_reset_eq (data : Bytes) :
    (parse_com_stmt_reset (S := Unit) data).map (·.stmt_id) = Mimic.Packets.parseStmtId data := by
  unfold parse_com_stmt_reset Mimic.Packets.parseStmtId
  simp only [read_uint_4_eq]
  cases Mimic.Wire.readUInt 4 data <;> rfl

theorem parse_handle_stmt_fetch_eq (data : Bytes) :
    (parse_handle_stmt_fetch (S := Unit) data).map (fun x => (x.stmt_id, x.num_rows)) = Mimic.Packets.parseFetch data := by
  unfold parse_handle_stmt_fetch Mimic.Packets.parseFetch
  simp only [read_uint_4_eq]
  cases h : Mimic.Wire.readUInt 4 data with
  | none => rfl
  | some p => obtain ⟨a, r⟩ := p; simp only; cases Mimic.Wire.readUInt 4 r <;> rfl

theorem parse_com_stmt_send_long_data_eq (data : Bytes) :
    (parse_com_stmt_send_long_data (S := Unit) data).map (fun x => (x.stmt_id, x.param_id, x.data)) = Mimic.Packets.parseLongData data := by
  unfold parse_com_stmt_send_long_data Mimic.Packets.parseLongData
  simp only [read_uint_4_eq, read_uint_2_eq]
  cases h : Mimic.Wire.readUInt 4 data with
  | none => rfl
  | some p => obtain ⟨a, r⟩ := p; simp only; cases Mimic.Wire.readUInt 2 r <;> rfl

/-! ### parameter values (`_read_param_value`) -/

def toPVal : Val (List Char) → Mimic.Params.PVal
  | .none => .null
  | .int z => .int z
  | .str s => .str s
  | .flt b => .flt b

theorem readFlt_eq (k : Nat) (r : Bytes) :
    (Mimic.Py.readFlt (S := List Char) k r).map (fun x => (toPVal x.1, x.2)) = (Mimic.Wire.takeN k r).map (fun x => (Mimic.Params.PVal.flt x.1, x.2)) := by
  unfold Mimic.Py.readFlt Mimic.Wire.takeN
  split <;> simp [toPVal]

theorem read_param_value_eq (E : Env (List Char)) (r : Bytes) (cs code : Nat) (u : Bool) (nm : Bytes) :
    (read_param_value E r cs code u).map (fun x => (toPVal x.1, x.2))
      = Mimic.Params.readValue (E.decode cs) ⟨code, u, nm⟩ r := by
  unfold read_param_value Mimic.Params.readValue Mimic.Params.readInt Mimic.Params.strCodes Mimic.Wire.readSInt
  simp only [read_uint_1_eq, read_uint_2_eq, read_uint_4_eq, read_uint_8_eq, read_int_1_eq, read_int_2_eq, read_int_4_eq, read_int_8_eq,
    read_str_len_eq, Mimic.Wire.readSInt]
  by_cases h0 : [15, 253, 254, 252, 249, 250, 251].contains code
  · simp only [h0, if_true]
    cases Mimic.Wire.decStr r with
    | none => rfl
    | some p => obtain ⟨s, r'⟩ := p; simp only; cases E.decode cs s <;> simp [toPVal]
  · simp only [h0, Bool.false_eq_true, if_false, List.contains_cons, List.contains_nil, Bool.or_false, Bool.or_eq_true, beq_iff_eq, if_true]
    by_cases c1 : code = 1
    · simp only [c1, if_true]; cases u <;> cases Mimic.Wire.readUInt 1 r <;> simp [toPVal]
    by_cases c244 : code = 244
    · simp only [c244, if_true]; cases Mimic.Wire.readUInt 1 r <;> simp [toPVal]
    by_cases c2 : code = 2 ∨ code = 13
    · simp only [c1, c244, c2, if_true, if_false]; cases u <;> cases Mimic.Wire.readUInt 2 r <;> simp [toPVal]
    by_cases c3 : code = 3 ∨ code = 9
    · simp only [c1, c244, c2, c3, if_true, if_false]; cases u <;> cases Mimic.Wire.readUInt 4 r <;> simp [toPVal]
    by_cases c8 : code = 8
    · simp only [c1, c244, c2, c3, c8, if_true, if_false]; cases u <;> cases Mimic.Wire.readUInt 8 r <;> simp [toPVal]
    by_cases c4 : code = 4
    · simp only [c1, c244, c2, c3, c8, c4, if_true, if_false]
      have := readFlt_eq 4 r
      cases h : Mimic.Py.readFlt (S := List Char) 4 r <;> simp [h] at this ⊢ <;> exact this
    by_cases c5 : code = 5
    · simp only [c1, c244, c2, c3, c8, c4, c5, if_true, if_false]
      have := readFlt_eq 8 r
      cases h : Mimic.Py.readFlt (S := List Char) 8 r <;> simp [h] at this ⊢ <;> exact this
    by_cases c6 : code = 6
    · simp [c6, toPVal]
    · simp [c1, c244, c2, c3, c8, c4, c5, c6]

/-! ### `_read_params` -/

abbrev Str := List Char

theorem forM_congr {α σ : Type} (l : List α) (s : σ) (f g : α → σ → Option σ) (h : ∀ a s, f a s = g a s) :
    Mimic.Py.forM l s f = Mimic.Py.forM l s g := by
  have : f = g := funext fun a => funext fun s => h a s
  rw [this]

theorem and128 : ∀ f : Fin 256, decide ((f.val &&& 128) > 0) = decide (f.val ≥ 128) := by decide +kernel

theorem byte_and128 (f : UInt8) : decide ((f.toNat &&& 128) > 0) = decide (f.toNat ≥ 128) :=
  and128 ⟨f.toNat, f.toNat_lt⟩

theorem readUInt_one (r : Bytes) : Mimic.Wire.readUInt 1 r = match r with | [] => none | b :: rest => some (b.toNat, rest) := by
  cases r with
  | nil => rfl
  | cons b rest => simp [Mimic.Wire.readUInt, Mimic.Wire.takeN, Mimic.Wire.leVal]

/-- `_read_param_type` -/
theorem read_param_type_eq (E : Env Str) (r : Bytes) :
    read_param_type E r = match r with
      | t :: f :: rest => if E.validType t.toNat then some ((t.toNat, decide (f.toNat ≥ 128)), rest) else none
      | _ => none := by
  unfold read_param_type
  simp only [read_uint_1_eq, readUInt_one]
  match r with
  | [] => rfl
  | [t] => simp only []; cases E.validType t.toNat <;> rfl
  | t :: f :: rest => simp only [byte_and128]; cases E.validType t.toNat <;> rfl

def tyOut (names : List Str) (ts : List PType) : List (Str × Nat × Bool) :=
  (names.zip ts).map (fun x => (x.1, x.2.code, x.2.unsigned))

open Mimic.Results (optAll)

theorem types_loop (E : Env Str) (caps cs : Nat) (valid : List Nat) (hv : ∀ n, E.validType n = valid.contains n)
    (hE : E.decode cs [] = some E.empty) (l : List Nat) :
    ∀ (acc : List (Str × Nat × Bool)) (r : Bytes),
    Mimic.Py.forM l (acc, r) (read_params_loop1 E caps cs) =
      match readTypes valid (Mimic.Py.hasBit caps 27) l.length r with
      | none => none
      | some (ts, r') =>
        match optAll (ts.map (fun t => E.decode cs t.name)) with
        | none => none
        | some names => some (acc ++ tyOut names ts, r') := by
  induction l with
  | nil => intro acc r; simp [Mimic.Py.forM, readTypes, optAll, tyOut]
  | cons a l ih =>
    intro acc r
    simp only [Mimic.Py.forM, read_params_loop1, read_param_type_eq, List.length_cons]
    match r with
    | [] => simp [readTypes]
    | [t] => simp [readTypes]
    | t :: f :: rest =>
      simp only [readTypes, hv]
      by_cases hval : valid.contains t.toNat
      · simp only [hval, if_true]
        by_cases hq : Mimic.Py.hasBit caps 27
        · simp only [hq, if_true, read_str_len_eq]
          cases hd : Mimic.Wire.decStr rest with
          | none => simp
          | some p =>
            obtain ⟨nm, r2⟩ := p
            simp only
            cases hdec : E.decode cs nm with
            | none =>
              simp only
              cases readTypes valid true l.length r2 with
              | none => simp
              | some q => obtain ⟨ts, r3⟩ := q; simp [optAll, hdec]
            | some name =>
              simp only
              have := ih (acc ++ [(name, t.toNat, decide (f.toNat ≥ 128))]) r2
              simp only [read_params_loop1, read_param_type_eq, hq] at this
              rw [this]
              cases readTypes valid true l.length r2 with
              | none => simp
              | some q =>
                obtain ⟨ts, r3⟩ := q
                simp only [Option.map, List.map_cons, optAll, hdec]
                cases optAll (ts.map (fun t => E.decode cs t.name)) with
                | none => simp
                | some names => simp [tyOut]
        · simp only [hq, Bool.false_eq_true, if_false]
          have := ih (acc ++ [(E.empty, t.toNat, decide (f.toNat ≥ 128))]) rest
          simp only [read_params_loop1, read_param_type_eq, hq] at this
          rw [this]
          cases readTypes valid false l.length rest with
          | none => simp
          | some q =>
            obtain ⟨ts, r3⟩ := q
            simp only [Option.map, List.map_cons, optAll, hE]
            cases optAll (ts.map (fun t => E.decode cs t.name)) with
            | none => simp
            | some names => simp [tyOut]
      · have hval' : t.toNat ∉ valid := by simpa using hval
        simp [hval']

theorem bit_test : ∀ (x : Fin 256) (k : Fin 8), ((x.val &&& (1 <<< k.val)) != 0) = decide ((x.val / 2 ^ k.val) % 2 = 1) := by
  decide +kernel

theorem is_flipped_eq (bm : NullBitmap Str) (i : Nat) (h0 : bm.offset = 0) (hi : i / 8 < bm.bitmap.length) :
    NullBitmap_is_flipped bm i = some (Mimic.Results.isFlipped 0 bm.bitmap i) := by
  unfold NullBitmap_is_flipped NullBitmap_pos Mimic.Py.byteAt Mimic.Results.isFlipped
  simp only [h0, Nat.add_zero]
  have hb : bm.bitmap[i / 8]? = some (bm.bitmap[i / 8]) := List.getElem?_eq_getElem hi
  simp only [hb, Option.map_some, List.getD_eq_getElem?_getD, Option.getD_some]
  have := bit_test ⟨(bm.bitmap[i / 8]).toNat, (bm.bitmap[i / 8]).toNat_lt⟩ ⟨i % 8, Nat.mod_lt _ (by omega)⟩
  simp only at this
  rw [this]

def ofPVal : PVal → Val Str
  | .null => .none
  | .int z => .int z
  | .str s => .str s
  | .flt b => .flt b

theorem ofPVal_toPVal (v : Val Str) : ofPVal (toPVal v) = v := by cases v <;> rfl

def bufFn (buffers : Option (List (Nat × Bytes))) : Nat → Option Bytes :=
  fun i => match buffers with | some d => Mimic.Py.dictGet d i | none => none

def toPT (p : Str × Nat × Bool) : PType := { code := p.2.1, unsigned := p.2.2, name := [] }

def valOut (pts : List (Str × Nat × Bool)) (vals : List PVal) : List (Option Str × Val Str) :=
  (pts.zip vals).map (fun x => (some x.1.1, ofPVal x.2))

/-- the long-data test `buffers and i in buffers` is "a buffer exists for i" -/
theorem buf_test (buffers : Option (List (Nat × Bytes))) (i : Nat) :
    ((match buffers with | some x => !x.isEmpty | none => false) && (match buffers with | some d => (Mimic.Py.dictGet d i).isSome | none => false))
      = (bufFn buffers i).isSome := by
  cases buffers with
  | none => rfl
  | some d =>
    cases d with
    | nil => simp [bufFn, Mimic.Py.dictGet]
    | cons x xs => simp [bufFn]

theorem read_params_loop2_one (E : Env Str) (cs : Nat) (buffers : Option (List (Nat × Bytes))) (bm : NullBitmap Str) (h0 : bm.offset = 0)
    (s : Nat) (nm : Str) (code : Nat) (u : Bool) (acc : List (Option Str × Val Str)) (r : Bytes) (hs : s / 8 < bm.bitmap.length) :
    read_params_loop2 E cs buffers bm (s, (nm, code, u)) (acc, r) =
      if Mimic.Results.isFlipped 0 bm.bitmap s then some (acc ++ [(some nm, Val.none)], r)
      else match bufFn buffers s with
        | some data => (E.decode cs data).map (fun t => (acc ++ [(some nm, Val.str t)], r))
        | none => (read_param_value E r cs code u).map (fun x => (acc ++ [(some nm, x.1)], x.2)) := by
  simp only [read_params_loop2, is_flipped_eq bm s h0 hs, buf_test]
  by_cases hf : Mimic.Results.isFlipped 0 bm.bitmap s
  · simp [hf]
  · simp only [hf, Bool.false_eq_true, if_false]
    cases buffers with
    | none =>
      simp only [bufFn, Option.isSome_none, Bool.false_eq_true, if_false]
      cases read_param_value E r cs code u with
      | none => rfl
      | some q => obtain ⟨v, r2⟩ := q; rfl
    | some d =>
      simp only [bufFn]
      by_cases hsome : (Mimic.Py.dictGet d s).isSome
      · obtain ⟨data, hdata⟩ := Option.isSome_iff_exists.mp hsome
        have hne : d.isEmpty = false := by
          cases d with
          | nil => simp [Mimic.Py.dictGet] at hdata
          | cons _ _ => rfl
        simp only [hdata, hne, Option.isSome_some, Bool.not_false, Bool.and_self, Bool.and_true, if_true]
        cases E.decode cs data <;> rfl
      · have hn : Mimic.Py.dictGet d s = none := by simpa using hsome
        simp only [hn, Option.isSome_none, Bool.and_false, Bool.false_eq_true, if_false]
        cases read_param_value E r cs code u with
        | none => rfl
        | some q => obtain ⟨v, r2⟩ := q; rfl

theorem vals_loop (E : Env Str) (cs : Nat) (buffers : Option (List (Nat × Bytes))) (bm : NullBitmap Str) (h0 : bm.offset = 0)
    (pts : List (Str × Nat × Bool)) :
    ∀ (s : Nat) (acc : List (Option Str × Val Str)) (r : Bytes), (∀ j, j < pts.length → (s + j) / 8 < bm.bitmap.length) →
    Mimic.Py.forM ((List.range' s pts.length).zip pts) (acc, r) (read_params_loop2 E cs buffers bm) =
      match readValues (E.decode cs) (bufFn buffers) (pts.map toPT)
              ((List.range' s pts.length).map (Mimic.Results.isFlipped 0 bm.bitmap)) s r with
      | none => none
      | some (vals, r') => some (acc ++ valOut pts vals, r') := by
  induction pts with
  | nil => intro s acc r _; simp [Mimic.Py.forM, readValues, valOut]
  | cons p ps ih =>
    intro s acc r hb
    obtain ⟨nm, code, u⟩ := p
    have hs : s / 8 < bm.bitmap.length := by have := hb 0 (by simp); simpa using this
    have hb' : ∀ j, j < ps.length → (s + 1 + j) / 8 < bm.bitmap.length := by
      intro j hj; have := hb (j + 1) (by simp; omega); rw [show s + 1 + j = s + (j + 1) by omega]; exact this
    simp only [List.length_cons, List.range'_succ, List.zip_cons_cons, Mimic.Py.forM, read_params_loop2_one E cs buffers bm h0 s nm code u acc r hs,
      List.map_cons, readValues, List.headD_cons, List.tail_cons]
    by_cases hf : Mimic.Results.isFlipped 0 bm.bitmap s
    · simp only [hf, if_true]
      rw [ih (s + 1) (acc ++ [(some nm, Val.none)]) r hb']
      cases readValues (E.decode cs) (bufFn buffers) (ps.map toPT) ((List.range' (s + 1) ps.length).map (Mimic.Results.isFlipped 0 bm.bitmap)) (s + 1) r with
      | none => simp
      | some q => obtain ⟨vals, r'⟩ := q; simp [valOut, ofPVal]
    · simp only [hf, Bool.false_eq_true, if_false]
      cases hbuf : bufFn buffers s with
      | some data =>
        simp only
        cases hd : E.decode cs data with
        | none => simp
        | some text =>
          simp only [Option.map_some]
          rw [ih (s + 1) (acc ++ [(some nm, Val.str text)]) r hb']
          cases readValues (E.decode cs) (bufFn buffers) (ps.map toPT) ((List.range' (s + 1) ps.length).map (Mimic.Results.isFlipped 0 bm.bitmap)) (s + 1) r with
          | none => simp
          | some q => obtain ⟨vals, r'⟩ := q; simp [valOut, ofPVal]
      | none =>
        simp only
        have hv := read_param_value_eq E r cs code u []
        simp only [toPT]
        rw [← hv]
        cases hrv : read_param_value E r cs code u with
        | none => simp
        | some q =>
          obtain ⟨v, r2⟩ := q
          simp only [Option.map_some]
          rw [ih (s + 1) (acc ++ [(some nm, v)]) r2 hb']
          cases readValues (E.decode cs) (bufFn buffers) (ps.map toPT) ((List.range' (s + 1) ps.length).map (Mimic.Results.isFlipped 0 bm.bitmap)) (s + 1) r2 with
          | none => simp
          | some q => obtain ⟨vals, r'⟩ := q; simp [valOut, ofPVal_toPVal]

def eraseName (t : PType) : PType := { t with name := [] }

theorem readValue_erase (dec : Bytes → Option Str) (t : PType) (b : Bytes) : readValue dec (eraseName t) b = readValue dec t b := rfl

theorem readValues_erase (dec : Bytes → Option Str) (buf : Nat → Option Bytes) (ts : List PType) :
    ∀ (nulls : List Bool) (i : Nat) (b : Bytes), readValues dec buf (ts.map eraseName) nulls i b = readValues dec buf ts nulls i b := by
  induction ts with
  | nil => intro nulls i b; rfl
  | cons t ts ih =>
    intro nulls i b
    simp only [List.map_cons, readValues, readValue_erase, ih]

theorem readTypes_length (valid : List Nat) (qa : Bool) : ∀ (n : Nat) (b : Bytes) (ts : List PType) (r : Bytes),
    readTypes valid qa n b = some (ts, r) → ts.length = n := by
  intro n
  induction n with
  | zero => intro b ts r h; simp [readTypes] at h; simp [h.1.symm]
  | succ n ih =>
    intro b ts r h
    match b with
    | [] => simp [readTypes] at h
    | [t] => simp [readTypes] at h
    | t :: f :: rest =>
      simp only [readTypes] at h
      split at h
      · split at h
        · split at h
          · rename_i nm r2 hd
            cases hr : readTypes valid qa n r2 with
            | none => simp [hr] at h
            | some q =>
              obtain ⟨ts', r3⟩ := q
              simp [hr] at h
              have := ih r2 ts' r3 hr
              rw [← h.1]; simp [this]
          · simp at h
        · cases hr : readTypes valid qa n rest with
          | none => simp [hr] at h
          | some q =>
            obtain ⟨ts', r3⟩ := q
            simp [hr] at h
            have := ih rest ts' r3 hr
            rw [← h.1]; simp [this]
      · simp at h

theorem optAll_length {α : Type} : ∀ (l : List (Option α)) (out : List α), optAll l = some out → out.length = l.length := by
  intro l
  induction l with
  | nil => intro out h; simp [optAll] at h; simp [← h]
  | cons a l ih =>
    intro out h
    cases a with
    | none => simp [optAll] at h
    | some x =>
      cases hl : optAll l with
      | none => simp [optAll, hl] at h
      | some rest =>
        simp [optAll, hl] at h
        rw [← h]; simp [ih rest hl]

theorem tyOut_toPT : ∀ (names : List Str) (ts : List PType), names.length = ts.length → (tyOut names ts).map toPT = ts.map eraseName := by
  intro names
  induction names with
  | nil => intro ts h; cases ts with | nil => rfl | cons _ _ => simp at h
  | cons n ns ih =>
    intro ts h
    cases ts with
    | nil => simp at h
    | cons t ts =>
      simp only [List.length_cons, Nat.add_right_cancel_iff] at h
      have := ih ts h
      simp only [tyOut, List.zip_cons_cons, List.map_cons] at this ⊢
      rw [this]; rfl

theorem tyOut_length (names : List Str) (ts : List PType) (h : names.length = ts.length) : (tyOut names ts).length = ts.length := by
  simp [tyOut, h]

theorem out_eq : ∀ (names : List Str) (ts : List PType) (vals : List PVal), names.length = ts.length →
    valOut (tyOut names ts) vals = (names.zip vals).map (fun x => (some x.1, ofPVal x.2)) := by
  intro names
  induction names with
  | nil => intro ts vals h; simp [valOut, tyOut]
  | cons n ns ih =>
    intro ts vals h
    cases ts with
    | nil => simp at h
    | cons t ts =>
      simp only [List.length_cons, Nat.add_right_cancel_iff] at h
      cases vals with
      | nil => simp [valOut, tyOut]
      | cons v vs =>
        have := ih ts vs h
        simp only [valOut, tyOut, List.zip_cons_cons, List.map_cons] at this ⊢
        rw [this]

def pOut (x : List (Str × PVal) × Bytes) : List (Option Str × Val Str) × Bytes :=
  (x.1.map (fun kv => (some kv.1, ofPVal kv.2)), x.2)

/-- **`_read_params` (two `for` loops, NULL bitmap, long-data buffers) is the model's `readParams`** for every packet,
    parameter count, capability set and buffer table -/
theorem read_params_eq (E : Env Str) (caps cs : Nat) (valid : List Nat) (hv : ∀ n, E.validType n = valid.contains n)
    (hE : E.decode cs [] = some E.empty) (count : Nat) (buffers : Option (List (Nat × Bytes))) (r : Bytes) (hr : r.length < 2 ^ 63) :
    read_params E r caps cs count buffers
      = (readParams valid (E.decode cs) (Mimic.Py.hasBit caps 27) count (bufFn buffers) r).map pOut := by
  unfold read_params readParams
  by_cases hc : count = 0
  · subst hc; simp [pOut]
  · have hc' : (count != 0) = true := by simpa using hc
    simp only [hc', if_true, hc, if_false, NullBitmap_from_buffer, NullBitmap_num_bytes, Nat.add_zero, Mimic.Py.readN, Mimic.Wire.takeN]
    by_cases hk : (count + 7) / 8 ≤ r.length
    · have hlt : (count + 7) / 8 < 2 ^ 63 := by omega
      simp only [hlt, if_true, hk, read_uint_1_eq, readUInt_one]
      cases hd : r.drop ((count + 7) / 8) with
      | nil => simp
      | cons flag b2 =>
        simp only
        by_cases hflag : flag = 0
        · subst hflag; simp
        · have hf2 : (!(flag.toNat != 0)) = false := by
            have : flag.toNat ≠ 0 := fun h => hflag (UInt8.toNat_inj.mp (by simpa using h))
            simp [this]
          simp only [hf2, Bool.false_eq_true, if_false, hflag]
          have htl := types_loop E caps cs valid hv hE (List.range count) [] b2
          simp only [List.length_range] at htl
          rw [htl]
          cases hrt : readTypes valid (Mimic.Py.hasBit caps 27) count b2 with
          | none => simp
          | some q =>
            obtain ⟨ts, b3⟩ := q
            simp only
            have hlen := readTypes_length valid _ count b2 ts b3 hrt
            cases hoa : optAll (ts.map (fun t => E.decode cs t.name)) with
            | none => simp
            | some names =>
              have hnl : names.length = ts.length := by simpa using optAll_length _ names hoa
              simp only [List.nil_append]
              have hpl : (tyOut names ts).length = count := by rw [tyOut_length names ts hnl, hlen]
              have hvl := vals_loop E cs buffers { bitmap := r.take ((count + 7) / 8), offset := 0 } rfl (tyOut names ts) 0 [] b3
                (by intro j hj; simp only [List.length_take, Nat.zero_add]; rw [hpl] at hj; omega)
              rw [List.range_eq_range', hvl, hpl, tyOut_toPT names ts hnl, readValues_erase, List.range_eq_range']
              cases readValues (E.decode cs) (bufFn buffers) ts ((List.range' 0 count).map (Mimic.Results.isFlipped 0 (r.take ((count + 7) / 8)))) 0 b3 with
              | none => simp
              | some w =>
                obtain ⟨vals, b4⟩ := w
                simp [pOut, out_eq names ts vals hnl]
    · have hshort : r.drop ((count + 7) / 8) = [] := List.drop_of_length_le (by omega)
      have hlt : (count + 7) / 8 < 2 ^ 63 ∨ ¬ (count + 7) / 8 < 2 ^ 63 := Decidable.em _
      rcases hlt with hlt | hlt
      · simp [hlt, hk, hshort, read_uint_1_eq, readUInt_one]
      · simp [hlt, hk]

/-! ### `parse_com_query` -/

def kvOut (kv : Str × PVal) : Option Str × Val Str := (some kv.1, ofPVal kv.2)

theorem dictSet_map (acc : List (Str × PVal)) (kv : Str × PVal) :
    Mimic.Py.dictSet (acc.map kvOut) (some kv.1) (ofPVal kv.2) = (Mimic.Params.dictInsert acc kv).map kvOut := by
  unfold Mimic.Py.dictSet Mimic.Params.dictInsert
  have hany : ((acc.map kvOut).any fun x => decide (x.1 = some kv.1)) = acc.any (fun x => decide (x.1 = kv.1)) := by
    induction acc with
    | nil => rfl
    | cons a as ih => simp [kvOut, ih]
  rw [hany]
  split
  · simp only [List.map_map]
    apply List.map_congr_left
    intro a _
    simp only [Function.comp, kvOut, Option.some.injEq]
    split <;> rfl
  · simp [kvOut]

theorem dictOf_map (ps : List (Str × PVal)) : Mimic.Py.dictOf (ps.map kvOut) = (Mimic.Params.dictOf ps).map kvOut := by
  unfold Mimic.Py.dictOf Mimic.Params.dictOf
  suffices h : ∀ acc : List (Str × PVal), (ps.map kvOut).foldl (fun d kv => Mimic.Py.dictSet d kv.1 kv.2) (acc.map kvOut)
      = (ps.foldl Mimic.Params.dictInsert acc).map kvOut by simpa using h []
  induction ps with
  | nil => intro acc; rfl
  | cons p ps ih =>
    intro acc
    simp only [List.map_cons, List.foldl_cons]
    have := dictSet_map acc p
    simp only [kvOut] at this ⊢
    rw [this]
    exact ih _

theorem filter_some (l : List (Str × PVal)) :
    List.map (fun x => (x.fst, x.snd)) (List.filter (fun x => !x.fst.isNone) (List.map (fun kv => ((some kv.fst : Option Str), ofPVal kv.snd)) l))
      = List.map (fun kv => ((some kv.fst : Option Str), ofPVal kv.snd)) l := by
  have hf : List.filter (fun x => !x.fst.isNone) (List.map (fun kv => ((some kv.fst : Option Str), ofPVal kv.snd)) l)
      = List.map (fun kv => ((some kv.fst : Option Str), ofPVal kv.snd)) l := by
    apply List.filter_eq_self.mpr
    intro a ha
    obtain ⟨kv, _, rfl⟩ := List.mem_map.mp ha
    rfl
  rw [hf]
  induction l with
  | nil => rfl
  | cons a as ih => simp

theorem pOut_fst (x : List (Str × PVal) × Bytes) : (pOut x).1 = x.1.map kvOut := rfl

/-- **`parse_com_query` is the model's `parseQuery`**: attribute count, parameter block, Python dict construction and the
    statement text, for every payload and both settings of CLIENT_QUERY_ATTRIBUTES -/
theorem parse_com_query_eq (E : Env Str) (caps cs : Nat) (valid : List Nat) (hv : ∀ n, E.validType n = valid.contains n)
    (hE : E.decode cs [] = some E.empty) (data : Bytes) (hr : data.length < 2 ^ 63) :
    (parse_com_query E caps cs data).map (fun q => (q.sql, q.query_attrs))
      = (parseQuery valid (E.decode cs) (Mimic.Py.hasBit caps 27) data).map (fun x => (x.1, x.2.map kvOut)) := by
  unfold parse_com_query parseQuery
  by_cases hq : Mimic.Py.hasBit caps 27
  · simp only [hq, if_true, read_uint_len_eq]
    cases h1 : Mimic.Wire.decLen data with
    | none => rfl
    | some p1 =>
      obtain ⟨count, b1⟩ := p1
      simp only
      cases h2 : Mimic.Wire.decLen b1 with
      | none => rfl
      | some p2 =>
        obtain ⟨x, b2⟩ := p2
        have l1 := Mimic.Packets.decLen_shorter data count b1 h1
        have l2 := Mimic.Packets.decLen_shorter b1 x b2 h2
        simp only
        have hrp := read_params_eq E caps cs valid hv hE count none b2 (by omega)
        simp only [hq] at hrp
        have hb : bufFn none = fun _ => none := rfl
        rw [hrp, hb]
        cases readParams valid (E.decode cs) true count (fun _ => none) b2 with
        | none => rfl
        | some q =>
          obtain ⟨ps, rest⟩ := q
          simp only [Option.map_some, pOut]
          cases E.decode cs rest with
          | none => rfl
          | some sql =>
            simp only [Option.map_some]
            have hd := dictOf_map ps
            rw [filter_some ps]
            have hd' : Mimic.Py.dictOf (List.map (fun kv => ((some kv.fst : Option Str), ofPVal kv.snd)) ps) = (Mimic.Params.dictOf ps).map kvOut := hd
            rw [hd']
  · simp only [hq, Bool.false_eq_true, if_false]
    cases E.decode cs data <;> rfl

/-! ### `_read_connect_attrs` -/

/-- **the `while total_l > 0` loop of `_read_connect_attrs` finishes within the translator's fuel** (one more than the
    number of unread bytes) for every claimed total length, every input and every codec: each round consumes at least
    two bytes -/
theorem connect_attrs_loop_terminates {S : Type} [DecidableEq S] (E : Env S) (cs : Nat) (n : Nat) :
    ∀ (r : Bytes), r.length = n → ∀ (d : List (S × S)) (total : Int) (fuel : Nat), n < fuel →
      Mimic.Py.loopM fuel (d, total, r) (read_connect_attrs_loop1 E cs) ≠ none := by
  induction n using Nat.strongRecOn with
  | _ n ih =>
    intro r hn d total fuel hf
    cases fuel with
    | zero => omega
    | succ fuel =>
      simp only [Mimic.Py.loopM, read_connect_attrs_loop1, read_str_len_eq]
      by_cases ht : total > Int.ofNat 0
      · simp only [ht, decide_true, if_true]
        cases hk : Mimic.Wire.decStr r with
        | none => simp
        | some p =>
          obtain ⟨k, r5⟩ := p
          simp only
          cases hv : Mimic.Wire.decStr r5 with
          | none => simp
          | some q =>
            obtain ⟨v, r7⟩ := q
            simp only
            have l1 := Mimic.Packets.decStr_shorter r k r5 hk
            have l2 := Mimic.Packets.decStr_shorter r5 v r7 hv
            cases E.decode cs k with
            | none => simp
            | some tk =>
              simp only
              cases E.decode cs v with
              | none => simp
              | some tv =>
                simp only
                exact ih r7.length (by omega) r7 rfl _ _ fuel (by omega)
      · have ht' : ¬ (0 < total) := ht
        simp [ht']

/-! ### `_read_connect_attrs` and `parse_handshake_response` against `Mimic.Packets` -/

/-- the translated loop computes the model's pair list, folded into the dict it started with -/
theorem connect_attrs_loop (E : Env Bytes) (cs : Nat) (n : Nat) :
    ∀ (r : Bytes), r.length = n → ∀ (d : List (Bytes × Bytes)) (total : Int) (fuel : Nat), n < fuel →
      ∃ t' : Int, Mimic.Py.loopM fuel (d, total, r) (read_connect_attrs_loop1 E cs) =
        match readConnectAttrs (E.decode cs) fuel total r with
        | none => some none
        | some (l, r') => some (some (Step.brk (l.foldl (fun d kv => Mimic.Py.dictSet d kv.1 kv.2) d, t', r'))) := by
  induction n using Nat.strongRecOn with
  | _ n ih =>
    intro r hn d total fuel hf
    cases fuel with
    | zero => omega
    | succ fuel =>
      simp only [Mimic.Py.loopM, read_connect_attrs_loop1, read_str_len_eq, readConnectAttrs]
      by_cases ht : total > 0
      · have ht' : total > Int.ofNat 0 := ht
        simp only [ht, ht', decide_true, if_true]
        cases hk : Mimic.Wire.decStr r with
        | none => exact ⟨0, by simp⟩
        | some p =>
          obtain ⟨k, r5⟩ := p
          simp only
          cases hv : Mimic.Wire.decStr r5 with
          | none => exact ⟨0, by simp⟩
          | some q =>
            obtain ⟨v, r7⟩ := q
            simp only
            have l1 := Mimic.Packets.decStr_shorter r k r5 hk
            have l2 := Mimic.Packets.decStr_shorter r5 v r7 hv
            cases hdk : E.decode cs k with
            | none => exact ⟨0, by simp⟩
            | some tk =>
              cases hdv : E.decode cs v with
              | none => exact ⟨0, by simp⟩
              | some tv =>
                simp only
                obtain ⟨t', ht'⟩ := ih r7.length (by omega) r7 rfl (Mimic.Py.dictSet d tk tv)
                  (total - Int.ofNat ((Mimic.Extracted.Types.str_len k ++ Mimic.Extracted.Types.str_len v).length)) fuel (by omega)
                refine ⟨t', ?_⟩
                rw [ht']
                simp only [str_len_eq, List.length_append]
                have hcast : (total - Int.ofNat ((Mimic.Wire.encStr k).length + (Mimic.Wire.encStr v).length))
                    = (total - (((Mimic.Wire.encStr k).length + (Mimic.Wire.encStr v).length : Nat) : Int)) := rfl
                rw [hcast]
                cases readConnectAttrs (E.decode cs) fuel (total - (((Mimic.Wire.encStr k).length + (Mimic.Wire.encStr v).length : Nat) : Int)) r7 with
                | none => simp
                | some w => obtain ⟨l, r'⟩ := w; simp
      · have ht' : ¬ (total > Int.ofNat 0) := ht
        exact ⟨total, by simp [ht, ht']⟩

/-- **`_read_connect_attrs` is the model's `connectAttrs`** (the `while` loop, Python dict semantics included) -/
theorem read_connect_attrs_eq (E : Env Bytes) (cs : Nat) (r : Bytes) :
    read_connect_attrs E r cs = connectAttrs (E.decode cs) r := by
  unfold read_connect_attrs connectAttrs
  simp only [read_uint_len_eq]
  cases hd : Mimic.Wire.decLen r with
  | none => rfl
  | some p =>
    obtain ⟨total, rest⟩ := p
    simp only
    obtain ⟨t', ht'⟩ := connect_attrs_loop E cs rest.length rest rfl [] (Int.ofNat total) (rest.length + 1) (by omega)
    rw [ht']
    have hc : (Int.ofNat total) = (total : Int) := rfl
    rw [hc]
    cases readConnectAttrs (E.decode cs) (rest.length + 1) (total : Int) rest with
    | none => rfl
    | some w => obtain ⟨l, r'⟩ := w; simp [Mimic.Py.dictOf]


def toHs (x : Option (Sum (HandshakeResponse41 Bytes) (SSLRequest Bytes))) : HsParse :=
  match x with
  | none => .error
  | some (.inr s) => .ssl s.capabilities s.max_packet_size s.client_charset
  | some (.inl h) => .resp { caps := h.capabilities, maxPacket := h.max_packet_size, charset := h.client_charset, username := h.username,
                             auth := h.auth_response, db := h.database, plugin := h.client_plugin, attrs := h.connect_attrs,
                             zstd := h.zstd_compression_level }

theorem readN_small (k : Nat) (r : Bytes) (h : k < 2 ^ 63) : Mimic.Py.readN k r = some (r.take k, r.drop k) := by
  simp [Mimic.Py.readN, h]

theorem peek_empty (r : Bytes) : (!(!(Mimic.Py.peek1 r).isEmpty)) = r.isEmpty := by
  cases r <;> simp [Mimic.Py.peek1]

theorem has21 (n : Nat) : Mimic.Packets.has n Mimic.Packets.LENENC_CLIENT_DATA = Mimic.Py.hasBit n 21 := by
  simp only [Mimic.Packets.has, Mimic.Py.hasBit, Mimic.Packets.LENENC_CLIENT_DATA]
  rfl
theorem has3 (n : Nat) : Mimic.Packets.has n Mimic.Packets.CONNECT_WITH_DB = Mimic.Py.hasBit n 3 := by
  simp only [Mimic.Packets.has, Mimic.Py.hasBit, Mimic.Packets.CONNECT_WITH_DB]
  rfl
theorem has19 (n : Nat) : Mimic.Packets.has n Mimic.Packets.PLUGIN_AUTH = Mimic.Py.hasBit n 19 := by
  simp only [Mimic.Packets.has, Mimic.Py.hasBit, Mimic.Packets.PLUGIN_AUTH]
  rfl
theorem has20 (n : Nat) : Mimic.Packets.has n Mimic.Packets.CONNECT_ATTRS = Mimic.Py.hasBit n 20 := by
  simp only [Mimic.Packets.has, Mimic.Py.hasBit, Mimic.Packets.CONNECT_ATTRS]
  rfl
theorem has26 (n : Nat) : Mimic.Packets.has n Mimic.Packets.ZSTD = Mimic.Py.hasBit n 26 := by
  simp only [Mimic.Packets.has, Mimic.Py.hasBit, Mimic.Packets.ZSTD]
  rfl
theorem land_eq (a b : Nat) : a.land b = a &&& b := by
  show Nat.land a b = Nat.land a b
  rfl

set_option hygiene false in
macro "hs_zstd" b:ident : tactic => `(tactic| (
  by_cases h26 : Mimic.Py.hasBit (caps &&& ccaps) 26
  · simp only [h26, if_true]; cases $b:ident <;> simp [toHs]
  · simp [h26, toHs]))

set_option hygiene false in
macro "hs_attrs" b:ident : tactic => `(tactic| (
  by_cases h20 : Mimic.Py.hasBit (caps &&& ccaps) 20
  · simp only [h20, if_true]
    cases hca : Mimic.Packets.connectAttrs (E.decode cs) $b:ident with
    | none => simp [toHs]
    | some pa =>
      obtain ⟨attrs, b8⟩ := pa
      try dsimp only
      hs_zstd b8
  · simp only [h20, Bool.false_eq_true, if_false]
    try dsimp only
    hs_zstd $b:ident))

set_option hygiene false in
macro "hs_plugin" b:ident : tactic => `(tactic| (
  by_cases h19 : Mimic.Py.hasBit (caps &&& ccaps) 19
  · simp only [h19, if_true]
    cases hpl : E.decode cs (Mimic.Wire.readNul $b:ident).fst with
    | none => simp [toHs]
    | some pl =>
      simp only [Option.map_some]
      try dsimp only
      generalize (Mimic.Wire.readNul $b:ident).snd = b7
      hs_attrs b7
  · simp only [h19, Bool.false_eq_true, if_false]
    try dsimp only
    hs_attrs $b:ident))

set_option hygiene false in
macro "hs_db" b:ident : tactic => `(tactic| (
  by_cases h3 : Mimic.Py.hasBit (caps &&& ccaps) 3
  · simp only [h3, if_true]
    cases hdb : E.decode cs (Mimic.Wire.readNul $b:ident).fst with
    | none => simp [toHs]
    | some db =>
      simp only [Option.map_some]
      try dsimp only
      generalize (Mimic.Wire.readNul $b:ident).snd = b6
      hs_plugin b6
  · simp only [h3, Bool.false_eq_true, if_false]
    try dsimp only
    hs_plugin $b:ident))

theorem parse_handshake_response_eq (E : Env Bytes) (caps : Nat) (data : Bytes) :
    toHs (parse_handshake_response E caps data) = parseHandshakeResponse caps E.collation E.decode data := by
  unfold parse_handshake_response parseHandshakeResponse
  simp only [read_uint_4_eq, read_uint_1_eq, readUInt_one, read_str_null_eq, read_str_len_eq, read_connect_attrs_eq,
    Mimic.Extracted.Types.read_str_fixed, peek_empty]
  cases h1 : Mimic.Wire.readUInt 4 data with
  | none => rfl
  | some p1 =>
    obtain ⟨ccaps, b1⟩ := p1
    simp only
    cases h2 : Mimic.Wire.readUInt 4 b1 with
    | none => rfl
    | some p2 =>
      obtain ⟨maxp, b2⟩ := p2
      simp only
      cases b2 with
      | nil => rfl
      | cons coll b3 =>
        simp only
        cases hc : E.collation coll.toNat with
        | none => rfl
        | some cs =>
          simp only [readN_small 23 b3 (by decide), has21, has3, has19, has20, has26, land_eq, optNul]
          by_cases hemp : (List.drop 23 b3).isEmpty
          · simp [hemp, toHs]
          · simp only [hemp, Bool.false_eq_true, if_false]
            cases hu : E.decode cs (Mimic.Wire.readNul (List.drop 23 b3)).fst with
            | none => rfl
            | some user =>
              simp only
              by_cases h21 : hasBit (caps &&& ccaps) 21
              · simp only [h21, if_true]
                cases hd : Mimic.Wire.decStr (Mimic.Wire.readNul (List.drop 23 b3)).snd with
                | none => rfl
                | some pa =>
                  obtain ⟨auth, b5⟩ := pa
                  simp only
                  hs_db b5
              · simp only [h21, Bool.false_eq_true, if_false]
                cases hs : (Mimic.Wire.readNul (List.drop 23 b3)).snd with
                | nil => rfl
                | cons l r =>
                  have hl : l.toNat < 2 ^ 63 := Nat.lt_trans l.toNat_lt (by decide)
                  simp only [readN_small l.toNat r hl]
                  generalize List.take l.toNat r = auth
                  generalize List.drop l.toNat r = b5
                  hs_db b5

/-- a concrete environment for the non-vacuity examples: ASCII codec, every collation id is its own character set -/
def asciiEnv : Env (List Char) where
  collation := fun n => some n
  decode := fun _ b => some (b.map (fun x => Char.ofNat x.toNat))
  encode := fun _ s => some (s.map (fun c => UInt8.ofNat c.toNat))
  empty := []
  validType := fun n => [0,1,2,3,4,5,6,7,8,9,10,11,12,13,15,16,245,246,247,248,249,250,251,252,253,254,255,244].contains n
  fltText := fun b => b.map (fun x => Char.ofNat x.toNat)
  paramAt := fun c after => Mimic.Params.isPh 0 c after

end MimicProofs.ParsersCode
