import Mimic.Py
import Mimic.Wire
import Mimic.Packets
import Mimic.Extracted.Types
import Mimic.Extracted.ParsersCode
import MimicProofs.Types
import Mimic.Params
set_option linter.unusedSimpArgs false
set_option linter.unusedVariables false
/-!
The client-packet parsers of `packets.py` as translated by `harness/pytrans2.py` (`Mimic.Extracted.ParsersCode`,
regenerated from the source on every run) against the hand-written models of `Mimic.Wire` / `Mimic.Packets` /
`Mimic.Params` — for every input.  Loops: each translated `while` comes with a theorem that the fuel the translator
chose is enough (the loop terminates for every input), so the `none` of exhausted fuel never occurs.
-/
namespace MimicProofs.ParsersCode
open Mimic.Py Mimic.Extracted.ParsersCode MimicProofs.Types

/-! ### `read_str_null` -/

/-- one iteration of the translated loop body -/
def nulStep : Bytes × Bytes → Option (Step (Bytes × Bytes) (Bytes × Bytes)) := fun (data, r_1) =>
    match Mimic.Py.readN 1 r_1 with
    | none => none
    | some (data_2, r_3) =>
      let b : Bytes := data_2
      if ((b == ([0] : Bytes)) || (!(!(b).isEmpty))) then
        some (Mimic.Py.Step.ret (data, r_3))
      else
        let data : Bytes := (data ++ b)
        some (Mimic.Py.Step.next (data, r_3))

theorem loopM_congr {σ α : Type} (n : Nat) (s : σ) (f g : σ → Option (Step σ α)) (h : ∀ s, f s = g s) :
    Mimic.Py.loopM n s f = Mimic.Py.loopM n s g := by
  have : f = g := funext h
  rw [this]

theorem readN_one (r : Bytes) : Mimic.Py.readN 1 r = some (r.take 1, r.drop 1) := by
  simp [Mimic.Py.readN]

/-- the loop with enough fuel computes the model's `readNul`, accumulating onto `acc` -/
theorem nul_loop (r acc : Bytes) (fuel : Nat) (h : r.length < fuel) :
    Mimic.Py.loopM fuel (acc, r) nulStep =
      some (some (Step.ret (acc ++ (Mimic.Wire.readNul r).1, (Mimic.Wire.readNul r).2))) := by
  induction r generalizing acc fuel with
  | nil =>
    cases fuel with
    | zero => omega
    | succ n => simp [Mimic.Py.loopM, nulStep, readN_one, Mimic.Wire.readNul]
  | cons b rest ih =>
    cases fuel with
    | zero => simp at h
    | succ n =>
      have hl : rest.length < n := by simp at h; omega
      by_cases hb : b = 0
      · subst hb
        simp [Mimic.Py.loopM, nulStep, readN_one, Mimic.Wire.readNul]
      · have hne : ([b] == ([0] : Bytes)) = false := by
          simp [hb]
        simp only [Mimic.Py.loopM, nulStep, readN_one, List.take_succ_cons, List.take_zero, List.drop_succ_cons, List.drop_zero, hne,
          List.isEmpty_cons, Bool.not_false, Bool.not_true, Bool.or_false]
        simp only [Bool.false_eq_true, if_false]
        rw [ih (acc ++ [b]) n hl]
        simp [Mimic.Wire.readNul, hb]

/-- **`read_str_null` (the translated `while True` loop) terminates on every input and is the model's `readNul`** -/
theorem read_str_null_eq (r : Bytes) : read_str_null r = some (Mimic.Wire.readNul r) := by
  unfold read_str_null
  dsimp only
  rw [loopM_congr _ _ _ nulStep (by intro ⟨d, r⟩; rfl), nul_loop r [] (r.length + 1) (by omega)]
  simp

/-- termination stated on its own: the fuel chosen by the translator is never exhausted -/
theorem read_str_null_terminates (r : Bytes) : Mimic.Py.loopM (r.length + 1) (([] : Bytes), r) nulStep ≠ none := by
  rw [nul_loop r [] (r.length + 1) (by omega)]; simp

/-! ### fixed-layout statement commands -/

theorem parse_com_stmt_close_eq (data : Bytes) :
    (parse_com_stmt_close (S := Unit) data).map (·.stmt_id) = Mimic.Packets.parseStmtId data := by
  unfold parse_com_stmt_close Mimic.Packets.parseStmtId
  simp only [read_uint_4_eq]
  cases Mimic.Wire.readUInt 4 data <;> rfl

theorem parse_com_stmt_reset_eq (data : Bytes) :
    (parse_com_stmt_reset (S := Unit) data).map (·.stmt_id) = Mimic.Packets.parseStmtId data := by
  unfold parse_com_stmt_reset Mimic.Packets.parseStmtId
  simp only [read_uint_4_eq]
  cases Mimic.Wire.readUInt 4 data <;> rfl

theorem parse_handle_stmt_fetch_eq (data : Bytes) :
    (parse_handle_stmt_fetch (S := Unit) data).map (fun x => (x.stmt_id, x.num_rows)) = Mimic.Packets.parseFetch data := by
  unfold parse_handle_stmt_fetch Mimic.Packets.parseFetch
  simp only [read_uint_4_eq]
  cases h : Mimic.Wire.readUInt 4 data with
  | none => rfl
  | some p => obtain ⟨a, r⟩ := p; simp only; cases Mimic.Wire.readUInt 4 r <;> rfl

theorem parse_com_stmt_send_long_data_eq (data : Bytes) :
    (parse_com_stmt_send_long_data (S := Unit) data).map (fun x => (x.stmt_id, x.param_id, x.data)) = Mimic.Packets.parseLongData data := by
  unfold parse_com_stmt_send_long_data Mimic.Packets.parseLongData
  simp only [read_uint_4_eq, read_uint_2_eq]
  cases h : Mimic.Wire.readUInt 4 data with
  | none => rfl
  | some p => obtain ⟨a, r⟩ := p; simp only; cases Mimic.Wire.readUInt 2 r <;> rfl

/-! ### parameter values (`_read_param_value`) -/

def toPVal : Val (List Char) → Mimic.Params.PVal
  | .none => .null
  | .int z => .int z
  | .str s => .str s
  | .flt b => .flt b

theorem readFlt_eq (k : Nat) (r : Bytes) :
    (Mimic.Py.readFlt (S := List Char) k r).map (fun x => (toPVal x.1, x.2)) = (Mimic.Wire.takeN k r).map (fun x => (Mimic.Params.PVal.flt x.1, x.2)) := by
  unfold Mimic.Py.readFlt Mimic.Wire.takeN
  split <;> simp [toPVal]

theorem read_param_value_eq (E : Env (List Char)) (r : Bytes) (cs code : Nat) (u : Bool) (nm : Bytes) :
    (read_param_value E r cs code u).map (fun x => (toPVal x.1, x.2))
      = Mimic.Params.readValue (E.decode cs) ⟨code, u, nm⟩ r := by
  unfold read_param_value Mimic.Params.readValue Mimic.Params.readInt Mimic.Params.strCodes Mimic.Wire.readSInt
  simp only [read_uint_1_eq, read_uint_2_eq, read_uint_4_eq, read_uint_8_eq, read_int_1_eq, read_int_2_eq, read_int_4_eq, read_int_8_eq,
    read_str_len_eq, Mimic.Wire.readSInt]
  by_cases h0 : [15, 253, 254, 252, 249, 250, 251].contains code
  · simp only [h0, if_true]
    cases Mimic.Wire.decStr r with
    | none => rfl
    | some p => obtain ⟨s, r'⟩ := p; simp only; cases E.decode cs s <;> simp [toPVal]
  · simp only [h0, Bool.false_eq_true, if_false, List.contains_cons, List.contains_nil, Bool.or_false, Bool.or_eq_true, beq_iff_eq, if_true]
    by_cases c1 : code = 1
    · simp only [c1, if_true]; cases u <;> cases Mimic.Wire.readUInt 1 r <;> simp [toPVal]
    by_cases c244 : code = 244
    · simp only [c244, if_true]; cases Mimic.Wire.readUInt 1 r <;> simp [toPVal]
    by_cases c2 : code = 2 ∨ code = 13
    · simp only [c1, c244, c2, if_true, if_false]; cases u <;> cases Mimic.Wire.readUInt 2 r <;> simp [toPVal]
    by_cases c3 : code = 3 ∨ code = 9
    · simp only [c1, c244, c2, c3, if_true, if_false]; cases u <;> cases Mimic.Wire.readUInt 4 r <;> simp [toPVal]
    by_cases c8 : code = 8
    · simp only [c1, c244, c2, c3, c8, if_true, if_false]; cases u <;> cases Mimic.Wire.readUInt 8 r <;> simp [toPVal]
    by_cases c4 : code = 4
    · simp only [c1, c244, c2, c3, c8, c4, if_true, if_false]
      have := readFlt_eq 4 r
      cases h : Mimic.Py.readFlt (S := List Char) 4 r <;> simp [h] at this ⊢ <;> exact this
    by_cases c5 : code = 5
    · simp only [c1, c244, c2, c3, c8, c4, c5, if_true, if_false]
      have := readFlt_eq 8 r
      cases h : Mimic.Py.readFlt (S := List Char) 8 r <;> simp [h] at this ⊢ <;> exact this
    by_cases c6 : code = 6
    · simp [c6, toPVal]
    · simp [c1, c244, c2, c3, c8, c4, c5, c6]

end MimicProofs.ParsersCode
