import Mimic.Conn
import Mimic.Extracted.KillCode
/-!
`Connection.kill` of `connection.py` as translated by `harness/pytrans2.py` (`Mimic.Extracted.KillCode`) against the
`kill` event and the `selfKill` micro-operation of the connection machine `Mimic.Conn`: the three fields the method reads
and writes (`_task`, `_executing`, `_kill`) are abstracted from the machine state; `Task.cancel()` is the machine's
cancellation request.
-/
set_option linter.unusedSimpArgs false
namespace MimicProofs.KillCode
open Mimic.Conn Mimic.Extracted.KillCode

def kindOf : Kill → Nat
  | .query => KILL_QUERY
  | .conn => KILL_CONNECTION

def killOf (k : Option Kill) : Option Nat := k.map kindOf

/-- the object as `Connection.kill` sees it when another task calls it: `_task` is set while the connection runs -/
def view (s : S) : Connection Unit :=
  { _task := if s.phase = .closed then none else some { cancel_requested := s.cancelReq },
    _executing := s.executing, _kill := killOf s.kill }

theorem killOf_isNone (k : Option Kill) : (killOf k).isNone = k.isNone := by cases k <;> rfl

/-- **`Connection.kill(kind)` called from another task is the machine's `kill` event**: same guards, same recorded
    kind, same cancellation request -/
theorem kill_is_event (s : S) (k : Kill) :
    kill (view s) (kindOf k) false = view (step s (.kill k)) := by
  unfold kill view step
  by_cases hc : s.phase = .closed
  · simp [hc]
  · simp only [hc, if_false, Option.isSome_some, Bool.not_true, Bool.false_eq_true]
    cases k with
    | query =>
      simp only [kindOf, KILL_QUERY, beq_self_eq_true, if_true, killOf_isNone]
      cases hph : s.phase with
      | closed => exact absurd hph hc
      | greeting | idle | parked _ _ _ _ =>
        cases he : s.executing <;> cases hk : s.kill <;> simp [killOf, kindOf, KILL_QUERY, hph, he, hk]
    | conn =>
      have hne : (KILL_CONNECTION == 1) = false := by decide
      simp only [kindOf, hne, Bool.false_eq_true, if_false]
      cases hph : s.phase with
      | closed => exact absurd hph hc
      | greeting | idle | parked _ _ _ _ => simp [killOf, kindOf, hph]

/-- **a KILL aimed at the issuing connection itself** (`asyncio.current_task() is self._task`): KILL QUERY changes nothing,
    KILL CONNECTION records the kind and requests the cancellation — the machine's `selfKill` -/
theorem kill_from_own_task (c : Connection Unit) (t : Mimic.Extracted.KillCode.Task Unit) (ht : c._task = some t) :
    kill c KILL_QUERY true = c ∧
    kill c KILL_CONNECTION true = { c with _kill := some KILL_CONNECTION, _task := some { t with cancel_requested := true } } := by
  unfold kill
  have hne : (KILL_CONNECTION == 1) = false := by decide
  constructor
  · simp only [ht, Option.isSome_some, Bool.not_true, Bool.false_eq_true, if_false, KILL_QUERY, beq_self_eq_true, if_true]
    split
    · rfl
    · rfl
  · simp [ht, hne]

end MimicProofs.KillCode
