import Mimic.Reply
import MimicProofs.Wire
namespace MimicProofs.Reply
open Mimic.Wire Mimic.Reply

theorem decStrStrict_encStr (s rest : Bytes) (h : s.length < 2 ^ 64) : decStrStrict (encStr s ++ rest) = some (s, rest) := by
  unfold decStrStrict encStr
  rw [List.append_assoc, decLen_encLen _ h]
  simp

/-- first byte of a length-encoded integer: never 0xFF, and 0xFB only for the value 251's absence (values < 251 are literal) -/
theorem encLen_head_ne_ff (n : Nat) : ∀ b r, encLen n = b :: r → b ≠ 0xFF := by
  intro b r h
  unfold encLen at h
  split at h
  · rename_i hn
    cases h
    intro hb
    have : (UInt8.ofNat n).toNat = 255 := by rw [hb]; rfl
    rw [UInt8.toNat_ofNat'] at this
    omega
  · split at h
    · cases h; decide
    · split at h
      · cases h; decide
      · cases h; decide

theorem encLen_ne_nil (n : Nat) : encLen n ≠ [] := by
  unfold encLen; split; simp; split; simp; split <;> simp

end MimicProofs.Reply
