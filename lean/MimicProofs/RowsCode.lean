import Mimic.Results
import MimicProofs.ParsersCode
import Mimic.Extracted.RowsCode
/-!
The write side of the NULL bitmap (`NullBitmap.new / flip / __bytes__` of `results.py`) and the row builders
`make_binary_resultrow` / `make_text_resultset_row` of `packets.py` as translated by `harness/pytrans2.py`
(`Mimic.Extracted.RowsCode`, regenerated on every run) against the model `Mimic.Results`.  Cell values are `Option W`
(None or an opaque application value) and the encoders of a column are function parameters: the theorems hold for every
encoder table.  Bits: `flip` is byte-wise OR with `1 << k`, the model's bitmap is built with `pack8`; both are related
through `Nat.testBit` and byte-string extensionality.
-/
set_option linter.unusedSimpArgs false
set_option linter.unusedVariables false
namespace MimicProofs.RowsCode
open Mimic.Py Mimic.Extracted.RowsCode Mimic.Extracted.ParsersCode
open Mimic.Results (optAll)


/-- bit `pos` of a byte string, least significant bit of byte 0 first -/
def bitAt (bm : Bytes) (pos : Nat) : Bool := (bm.getD (pos / 8) 0).toNat.testBit (pos % 8)

theorem bitAt_isFlipped (bm : Bytes) (i : Nat) : Mimic.Results.isFlipped 0 bm i = bitAt bm i := by
  simp [Mimic.Results.isFlipped, bitAt, Nat.testBit_eq_decide_div_mod_eq]

theorem one_shl_testBit (k j : Nat) : (1 <<< k).testBit j = decide (k = j) := by
  rw [Nat.one_shiftLeft, Nat.testBit_two_pow]

theorem byte_or_lt (x k : Nat) (hx : x < 256) (hk : k < 8) : (x ||| (1 <<< k)) < 256 := by
  have h1 : x < 2 ^ 8 := hx
  have h2 : (1 <<< k) < 2 ^ 8 := by
    rw [Nat.one_shiftLeft]; exact Nat.pow_lt_pow_right (by decide) hk
  exact Nat.or_lt_two_pow h1 h2

theorem byte_ext (x y : Nat) (hx : x < 256) (hy : y < 256) (h : ∀ j, j < 8 → x.testBit j = y.testBit j) : x = y := by
  apply Nat.eq_of_testBit_eq
  intro i
  by_cases hi : i < 8
  · exact h i hi
  · have h8 : 2 ^ 8 ≤ 2 ^ i := Nat.pow_le_pow_right (by decide) (by omega)
    rw [Nat.testBit_lt_two_pow (Nat.lt_of_lt_of_le hx h8), Nat.testBit_lt_two_pow (Nat.lt_of_lt_of_le hy h8)]

/-- two byte strings of the same length with the same bits are equal -/
theorem bytes_ext : ∀ (a b : Bytes), a.length = b.length → (∀ pos, pos < 8 * a.length → bitAt a pos = bitAt b pos) → a = b := by
  intro a
  induction a with
  | nil => intro b h _; cases b with | nil => rfl | cons _ _ => simp at h
  | cons x xs ih =>
    intro b h hb
    cases b with
    | nil => simp at h
    | cons y ys =>
      simp only [List.length_cons, Nat.add_right_cancel_iff] at h
      have hxy : x = y := by
        apply UInt8.toNat_inj.mp
        apply byte_ext _ _ x.toNat_lt y.toNat_lt
        intro j hj
        have := hb j (by simp; omega)
        simp only [bitAt] at this
        have h0 : j / 8 = 0 := by omega
        have h1 : j % 8 = j := by omega
        simpa [h0, h1] using this
      subst hxy
      congr 1
      apply ih ys h
      intro pos hp
      have := hb (pos + 8) (by simp; omega)
      simp only [bitAt] at this ⊢
      have h0 : (pos + 8) / 8 = pos / 8 + 1 := by omega
      have h1 : (pos + 8) % 8 = pos % 8 := by omega
      simpa [h0, h1] using this


theorem getD_set_eq (l : Bytes) (i : Nat) (v : UInt8) (j : Nat) (h : i < l.length) :
    (l.set i v).getD j 0 = if j = i then v else l.getD j 0 := by
  simp only [List.getD_eq_getElem?_getD, List.getElem?_set]
  by_cases hji : i = j
  · subst hji; simp [h]
  · have : ¬ j = i := fun e => hji e.symm
    simp [hji, this]

/-- `NullBitmap.flip(i)` sets exactly bit `i + offset` -/
theorem flip_spec (bm : NullBitmap Unit) (i : Nat) (h : (i + bm.offset) / 8 < bm.bitmap.length) :
    ∃ bm' : NullBitmap Unit, NullBitmap_flip bm i = some bm' ∧ bm'.offset = bm.offset ∧ bm'.bitmap.length = bm.bitmap.length ∧
      ∀ q, bitAt bm'.bitmap q = (decide (q = i + bm.offset) || bitAt bm.bitmap q) := by
  unfold NullBitmap_flip NullBitmap_pos Mimic.Py.byteAt
  have hb : bm.bitmap[(i + bm.offset) / 8]? = some (bm.bitmap[(i + bm.offset) / 8]) := List.getElem?_eq_getElem h
  simp only [hb, Option.map_some]
  have hlt := byte_or_lt (bm.bitmap[(i + bm.offset) / 8]).toNat ((i + bm.offset) % 8) (bm.bitmap[(i + bm.offset) / 8]).toNat_lt (Nat.mod_lt _ (by decide))
  simp only [hlt, if_true]
  refine ⟨_, rfl, rfl, by simp, ?_⟩
  intro q
  simp only [bitAt, getD_set_eq _ _ _ _ h]
  by_cases hq : q / 8 = (i + bm.offset) / 8
  · simp only [hq, if_true]
    have hv : (UInt8.ofNat ((bm.bitmap[(i + bm.offset) / 8]).toNat ||| 1 <<< ((i + bm.offset) % 8))).toNat
        = (bm.bitmap[(i + bm.offset) / 8]).toNat ||| 1 <<< ((i + bm.offset) % 8) := by
      simp only [UInt8.toNat_ofNat']
      exact Nat.mod_eq_of_lt hlt
    rw [hv, Nat.testBit_or, one_shl_testBit]
    have hg : (bm.bitmap.getD ((i + bm.offset) / 8) 0) = bm.bitmap[(i + bm.offset) / 8] := by
      simp [List.getD_eq_getElem?_getD, hb]
    rw [hg, Bool.or_comm]
    congr 1
    by_cases hm : (i + bm.offset) % 8 = q % 8
    · have : q = i + bm.offset := by omega
      simp [hm, this]
    · have : ¬ q = i + bm.offset := by intro e; rw [e] at hm; exact hm rfl
      simp [hm, this]
  · have : ¬ q = i + bm.offset := by intro e; rw [e] at hq; exact hq rfl
    simp [hq, this]

open Mimic.Results (pack8 bitmap bitmapGet)

theorem pack8_bit : ∀ (b0 b1 b2 b3 b4 b5 b6 b7 : Bool) (j : Fin 8),
    (pack8 b0 b1 b2 b3 b4 b5 b6 b7).toNat.testBit j.val = [b0, b1, b2, b3, b4, b5, b6, b7].getD j.val false := by
  decide +kernel

theorem bitmap_length (off : Nat) (nulls : List Bool) : (bitmap off nulls).length = (nulls.length + 7 + off) / 8 := by
  simp [bitmap]

theorem bitmap_bit (off : Nat) (nulls : List Bool) (q : Nat) (hq : q / 8 < (nulls.length + 7 + off) / 8) :
    bitAt (bitmap off nulls) q = bitmapGet off nulls q := by
  unfold bitAt bitmap
  simp only [List.getD_eq_getElem?_getD, List.getElem?_map, List.getElem?_range hq, Option.map_some, Option.getD_some]
  have := pack8_bit (bitmapGet off nulls (8 * (q / 8))) (bitmapGet off nulls (8 * (q / 8) + 1)) (bitmapGet off nulls (8 * (q / 8) + 2))
    (bitmapGet off nulls (8 * (q / 8) + 3)) (bitmapGet off nulls (8 * (q / 8) + 4)) (bitmapGet off nulls (8 * (q / 8) + 5))
    (bitmapGet off nulls (8 * (q / 8) + 6)) (bitmapGet off nulls (8 * (q / 8) + 7)) ⟨q % 8, Nat.mod_lt _ (by decide)⟩
  simp only at this
  rw [this]
  have hq8 : q = 8 * (q / 8) + q % 8 := by omega
  have hm : q % 8 < 8 := Nat.mod_lt _ (by decide)
  generalize hr : q % 8 = r at *
  have : r = 0 ∨ r = 1 ∨ r = 2 ∨ r = 3 ∨ r = 4 ∨ r = 5 ∨ r = 6 ∨ r = 7 := by omega
  rcases this with h | h | h | h | h | h | h | h <;> subst h <;> simp <;> (first | rfl | (congr 1; omega) | (symm; congr 1; omega))

/-- the cells of the non-NULL entries, in order (`none` inside: that cell's encoder raised) -/
def cellsOf {C W : Type} (enc : C → W → Option Bytes) (entries : List (Option W × C)) : List (Option Bytes) :=
  entries.filterMap (fun e => e.1.map (fun w => enc e.2 w))

theorem optAll_cons_some {α : Type} (x : α) (l : List (Option α)) : optAll (some x :: l) = (optAll l).map (fun r => x :: r) := by
  simp only [optAll]

def nullsOf {C W : Type} (entries : List (Option W × C)) : List Bool := entries.map (fun e => e.1.isNone)

/-- the row loop of `make_binary_resultrow`: bits are set for exactly the NULL entries, cells are appended in order -/
theorem row_loop {C W : Type} (enc : C → W → Option Bytes) (entries : List (Option W × C)) :
    ∀ (s : Nat) (bm : NullBitmap Unit) (vals : List Bytes),
      (∀ j, j < entries.length → (s + j + bm.offset) / 8 < bm.bitmap.length) →
      match optAll (cellsOf enc entries) with
      | none => Mimic.Py.forM ((List.range' s entries.length).zip entries) (bm, vals) (make_binary_resultrow_loop1 enc) = none
      | some cs => ∃ bm' : NullBitmap Unit,
          Mimic.Py.forM ((List.range' s entries.length).zip entries) (bm, vals) (make_binary_resultrow_loop1 enc) = some (bm', vals ++ cs) ∧
          bm'.offset = bm.offset ∧ bm'.bitmap.length = bm.bitmap.length ∧
          ∀ q, bitAt bm'.bitmap q = (bitAt bm.bitmap q || (decide (s + bm.offset ≤ q) && (nullsOf entries).getD (q - (s + bm.offset)) false)) := by
  induction entries with
  | nil =>
    intro s bm vals _
    simp only [cellsOf, List.filterMap_nil, optAll]
    exact ⟨bm, by simp [Mimic.Py.forM], rfl, rfl, by intro q; simp [nullsOf]⟩
  | cons e es ih =>
    intro s bm vals hb
    obtain ⟨v, c⟩ := e
    have hb' : ∀ j, j < es.length → (s + 1 + j + bm.offset) / 8 < bm.bitmap.length := by
      intro j hj; have := hb (j + 1) (by simp; omega); rw [show s + 1 + j = s + (j + 1) by omega]; exact this
    have h0 : (s + bm.offset) / 8 < bm.bitmap.length := by have := hb 0 (by simp); simpa using this
    simp only [List.length_cons, List.range'_succ, List.zip_cons_cons, Mimic.Py.forM, make_binary_resultrow_loop1]
    cases v with
    | none =>
      obtain ⟨bm1, hf, ho, hl, hbits⟩ := flip_spec bm s h0
      simp only [hf, cellsOf, List.filterMap_cons, Option.map_none]
      have hb1 : ∀ j, j < es.length → (s + 1 + j + bm1.offset) / 8 < bm1.bitmap.length := by
        intro j hj; rw [ho, hl]; exact hb' j hj
      have := ih (s + 1) bm1 vals hb1
      simp only [cellsOf] at this
      cases hoa : optAll (List.filterMap (fun e => Option.map (fun w => enc e.snd w) e.fst) es) with
      | none => simp only [hoa] at this ⊢; exact this
      | some cs =>
        simp only [hoa] at this ⊢
        obtain ⟨bm', hfm, ho', hl', hb''⟩ := this
        refine ⟨bm', hfm, by rw [ho', ho], by rw [hl', hl], ?_⟩
        intro q
        rw [hb'' q, hbits q, ho]
        simp only [nullsOf, List.map_cons, Option.isNone_none]
        by_cases h1 : q = s + bm.offset
        · subst h1; simp
        · by_cases h2 : s + bm.offset ≤ q
          · have h3 : s + 1 + bm.offset ≤ q := by omega
            have h4 : q - (s + bm.offset) = (q - (s + 1 + bm.offset)) + 1 := by omega
            simp [h1, h2, h3, h4]
          · have h3 : ¬ s + 1 + bm.offset ≤ q := by omega
            simp [h1, h2, h3]
    | some w =>
      simp only [cellsOf, List.filterMap_cons, Option.map_some]
      cases henc : enc c w with
      | none => simp [optAll]
      | some cell =>
        simp only [optAll_cons_some]
        have := ih (s + 1) bm (vals ++ [cell]) hb'
        simp only [cellsOf] at this
        cases hoa : optAll (List.filterMap (fun e => Option.map (fun w => enc e.snd w) e.fst) es) with
        | none => simp only [hoa, Option.map_none] at this ⊢; exact this
        | some cs =>
          simp only [hoa, Option.map_some] at this ⊢
          obtain ⟨bm', hfm, ho', hl', hb''⟩ := this
          refine ⟨bm', by rw [hfm]; simp, ho', hl', ?_⟩
          intro q
          rw [hb'' q]
          simp only [nullsOf, List.map_cons, Option.isNone_some]
          by_cases h2 : s + bm.offset ≤ q
          · by_cases h1 : q = s + bm.offset
            · subst h1
              have h3 : ¬ s + 1 + bm.offset ≤ s + bm.offset := by omega
              simp [h3]
            · have h3 : s + 1 + bm.offset ≤ q := by omega
              have h4 : q - (s + bm.offset) = (q - (s + 1 + bm.offset)) + 1 := by omega
              simp [h2, h3, h4]
          · have h3 : ¬ s + 1 + bm.offset ≤ q := by omega
            simp [h2, h3]

theorem bitAt_replicate (n q : Nat) : bitAt (List.replicate n (0 : UInt8)) q = false := by
  simp only [bitAt, List.getD_eq_getElem?_getD]
  by_cases h : q / 8 < n
  · simp [List.getElem?_replicate, h]
  · simp [List.getElem?_replicate, h]

theorem zip_fst_of_le {α β : Type} : ∀ (a : List α) (b : List β), a.length ≤ b.length → (a.zip b).map Prod.fst = a := by
  intro a
  induction a with
  | nil => intro b _; rfl
  | cons x xs ih =>
    intro b h
    cases b with
    | nil => simp at h
    | cons y ys => simp at h; simp [ih ys h]

/-- **`make_binary_resultrow` of `packets.py` (with `NullBitmap.new / flip / __bytes__` of `results.py`), translated, builds
    the model's binary row**: header 0, the NULL bitmap with offset 2 over the row, the encoded non-NULL cells in order -/
theorem make_binary_resultrow_eq {C W : Type} (enc : C → W → Option Bytes) (row : List (Option W)) (cols : List C)
    (h : row.length ≤ cols.length) :
    make_binary_resultrow (S := Unit) enc row cols
      = (optAll (cellsOf enc (row.zip cols))).map (fun cs => (0 : UInt8) :: (bitmap 2 (row.map Option.isNone) ++ cs.flatten)) := by
  unfold make_binary_resultrow
  have hzl : (row.zip cols).length = row.length := by simp [List.length_zip]; omega
  have hnull : nullsOf (row.zip cols) = row.map Option.isNone := by
    have := zip_fst_of_le row cols h
    simp only [nullsOf]
    have h2 : List.map (fun (e : Option W × C) => e.fst.isNone) (row.zip cols) = List.map Option.isNone (List.map Prod.fst (row.zip cols)) := by
      rw [List.map_map]; rfl
    rw [h2, this]
  have hloop := row_loop enc (row.zip cols) 0 (NullBitmap_new (S := Unit) row.length 2) []
    (by intro j hj; simp [NullBitmap_new, NullBitmap_num_bytes] at *; omega)
  simp only [List.range_eq_range']
  cases hoa : optAll (cellsOf enc (row.zip cols)) with
  | none =>
    simp only [hoa] at hloop
    simp only [hzl] at hloop ⊢
    rw [hloop]; rfl
  | some cs =>
    simp only [hoa] at hloop
    obtain ⟨bm', hfm, ho, hl, hbits⟩ := hloop
    simp only [hzl] at hfm ⊢
    rw [hfm]
    simp only [List.nil_append, Option.map_some, NullBitmap_bytes, MimicProofs.Types.str_fixed_self, MimicProofs.Types.uint_1_eq]
    have hbm : bm'.bitmap = bitmap 2 (row.map Option.isNone) := by
      apply bytes_ext
      · rw [hl, bitmap_length]; simp [NullBitmap_new, NullBitmap_num_bytes]
      · intro pos hp
        rw [hbits pos]
        have hlen : bm'.bitmap.length = (row.length + 7 + 2) / 8 := by rw [hl]; simp [NullBitmap_new, NullBitmap_num_bytes]
        rw [bitmap_bit 2 _ pos (by simp; rw [hlen] at hp; omega)]
        simp only [NullBitmap_new, bitAt_replicate, Bool.false_or, Mimic.Results.bitmapGet, hnull, Nat.zero_add]
        by_cases h2 : 2 ≤ pos
        · have : ¬ pos < 2 := by omega
          simp [h2, this]
        · have : pos < 2 := by omega
          simp [h2, this]
    rw [hbm]
    simp [Mimic.Wire.leN]

/-! ### text rows, and the connection with the model's `Val` / encoder classes -/

def textCellOf {C W : Type} (enc : C → W → Option Bytes) (e : Option W × C) : Option Bytes :=
  match e.1 with
  | none => some [0xFB]
  | some w => (enc e.2 w).map Mimic.Wire.encStr

theorem text_loop {C W : Type} (enc : C → W → Option Bytes) (entries : List (Option W × C)) :
    ∀ parts : List Bytes, Mimic.Py.forM entries parts (make_text_resultset_row_loop1 enc) =
      (optAll (entries.map (textCellOf enc))).map (fun cs => parts ++ cs) := by
  induction entries with
  | nil => intro parts; simp [Mimic.Py.forM, optAll]
  | cons e es ih =>
    intro parts
    obtain ⟨v, c⟩ := e
    simp only [Mimic.Py.forM, make_text_resultset_row_loop1, List.map_cons, textCellOf]
    cases v with
    | none =>
      simp only [optAll_cons_some, ih]
      cases optAll (es.map (textCellOf enc)) <;> simp
    | some w =>
      simp only
      cases henc : enc c w with
      | none => simp [optAll]
      | some cell =>
        simp only [Option.map_some, optAll_cons_some, ih, MimicProofs.Types.str_len_eq]
        cases optAll (es.map (textCellOf enc)) <;> simp

/-- **`make_text_resultset_row`, translated, builds the model's text row**: `0xFB` for NULL, a length-encoded string for
    every other cell, in column order -/
theorem make_text_resultset_row_eq {C W : Type} (enc : C → W → Option Bytes) (row : List (Option W)) (cols : List C) :
    make_text_resultset_row enc row cols = (optAll ((row.zip cols).map (textCellOf enc))).map List.flatten := by
  unfold make_text_resultset_row
  simp only [text_loop]
  cases optAll ((row.zip cols).map (textCellOf enc)) <;> simp

open Mimic.Results (Val isNull binRow textRow binCell textCell bitmap)

/-- the application's cell as the code sees it: `None` or a value -/
def toOpt (v : Val) : Option Val := if isNull v then none else some v

theorem toOpt_isNone (row : List Val) : (row.map toOpt).map Option.isNone = row.map isNull := by
  rw [List.map_map]; apply List.map_congr_left; intro v _; cases v <;> rfl

theorem cells_eq (cols : List Mimic.Results.BinEnc) : ∀ (row : List Val) (cs : List Mimic.Results.BinEnc),
    cellsOf (fun c w => binCell c w) ((row.map toOpt).zip cs)
      = ((row.zip cs).filter (fun vc => !isNull vc.1)).map (fun vc => binCell vc.2 vc.1) := by
  intro row
  induction row with
  | nil => intro cs; rfl
  | cons v vs ih =>
    intro cs
    cases cs with
    | nil => rfl
    | cons c cs' =>
      simp only [List.map_cons, List.zip_cons_cons, cellsOf, List.filterMap_cons, List.filter_cons]
      have := ih cs'
      simp only [cellsOf] at this
      cases hv : isNull v with
      | true => simp [toOpt, hv, this]
      | false => simp [toOpt, hv, this]

/-- **the model's binary row is what the translated `make_binary_resultrow` builds** with the model's cell encoders -/
theorem binRow_is_code (cols : List Mimic.Results.BinEnc) (row : List Val) (h : row.length ≤ cols.length) :
    make_binary_resultrow (S := Unit) (fun c w => binCell c w) (row.map toOpt) cols = binRow cols row := by
  rw [make_binary_resultrow_eq _ _ _ (by simpa using h), cells_eq cols row cols, toOpt_isNone]
  rfl

theorem textRow_is_code (cols : List Mimic.Results.TextEnc) (row : List Val) :
    make_text_resultset_row (fun c w => textCell c w) (row.map toOpt) cols = textRow cols row := by
  rw [make_text_resultset_row_eq]
  unfold textRow
  congr 2
  have : ∀ (row : List Val) (cs : List Mimic.Results.TextEnc),
      ((row.map toOpt).zip cs).map (textCellOf (fun c w => textCell c w))
        = (row.zip cs).map (fun vc => match vc.1 with | .null => some [0xFB] | v => (textCell vc.2 v).map Mimic.Wire.encStr) := by
    intro row
    induction row with
    | nil => intro cs; rfl
    | cons v vs ih =>
      intro cs
      cases cs with
      | nil => rfl
      | cons c cs' =>
        simp only [List.map_cons, List.zip_cons_cons, ih cs']
        congr 1
        cases v <;> rfl
  exact this row cols

end MimicProofs.RowsCode
